"""C11 -- Model -> generated MxlPy source -> model preserves behaviour, or generation fails.

Tie to the source:
  (1) facts regenerated from src/mxlpy/meta/codegen_mxlpy.py / sympy_tools.py into
      coq/mxlgen/GenMxlGenFacts.v (key scheme of every kind of slot of the `functions` dict; the way
      a definition is stored under its key -- overwrite / _register_fn; body shapes of the
      generators) -- PropsC11.v pins them (harness/c11_extract.py);
  (2) correspondence: the Gallina round trip (to_symbolic_repr, generate_from_symrepr, exec_code,
      then Core's create_cache / get_args / get_fluxes / get_rhs under the meaning of the emitted
      defs) is evaluated inside Coq (vm_compute) on the same models and compared with what the real
      generate_mxlpy_code emitted (def names + parameter lists in order, builder chain with the
      function names it refers to, parsed from the text), with sample values of every emitted def,
      and with the answers of exec(source)["create_model"]() (names by kind, initial conditions,
      parameter values, args/fluxes/rhs at 3 integer states) -- exactly;
  (3) an independent oracle judges the PROPERTY on the implementation: the rebuilt model is
      compared with the SOURCE model through the public API only (no code shared with the Coq
      model); an untranslatable function must make generation raise.

Functions live in real module files: harness/fnlib.py for the ordinary ones and two generated
modules (scratch dir) with deliberately clashing __name__s.

Second deepening (seeded changes C11-5 / C11-6): two more regenerated facts (gen_import_scan: which sections of the text the
import loop searches for which module; gen_call_defaults: how fn_to_sympy binds the arguments of a nested call), pinned by
C11_text_facts_pinned; correspondence shards c11_imports (import lines + NameError outcome of every emitted-text case against
Imports.v) and c11_calls (accept / refuse of every helper call shape against CallDefaults.v); streams `nonfinite`
(harness/c11_emit.py) and `helpers` (functions calling helpers with defaulted trailing parameters).

Third pass (seeded changes C11-7 / C11-8): two more regenerated facts about source_tools.py (gen_name_lookup: _handle_name consults
the function's own symbols before the numbers of the module; gen_scan_mode: the module is scanned at every call), pinned by
C11_translator_facts_pinned; correspondence shard c11_names (harness/c11_names.py against NameScope.v); streams `shadow` (parameters /
local variables named like module-level numbers), `session` (several generations in this one process, helpers / numbers of a fresh
module object rebound in between; every generation is an ordinary case) and `names`.

Two states of the tree are understood (regenerated fact `register`): the snapshot's
`functions[key] = ...` (three recorded findings, theorem C11_roundtrip_partial) and the repaired
`_register_fn` of fixes/C11-function-name-collisions.diff (theorem C11_roundtrip, nothing recorded).
coq/mxlgen/ExpectedFacts.v + known_findings.d/C11.json say which one is expected; tools/c11_switch.py
flips both.  The witnesses of the three defects are part of the corpus in both states.
"""

from __future__ import annotations

import ast
import importlib
import re
import shutil
import signal
import sys
from typing import Any

from harness import c11_emit, c11_extract, c11_names, common
from harness.common import Run, cbool, clist, cn, cnat, cstr, cz

AREA = "mxlgen"
PROPS = "PropsC11.v"
BIG = 2**40

# ---------------------------------------------------------------------------------------
# component names: id = k + 10000 * c  (coq/mxlgen/Corr.v: nstr)
#   k = 0 "time"; 9001.. the parameter names of the function library ("a", "b", "c", "s1", "s2", "k":
#   components called like the formal parameters of the functions applied to them); else "n%04d"
#   c = a suffix that makes the name look like one of the generator's fresh names
# ---------------------------------------------------------------------------------------
FORMAL_NAMES = {9001: "a", 9002: "b", 9003: "c", 9004: "s1", 9005: "s2", 9006: "k"}
FORMAL_IDS = {v: k for k, v in FORMAL_NAMES.items()}
SUFFIXES = ["", "_1", "_2", "_1_1", "_3"]
_NAME_RE = re.compile(r"^(time|n\d{4}|a|b|c|s1|s2|k)((?:_\d+)*)$")


def nm(n: int) -> str:
    k, c = n % 10000, n // 10000
    base = "time" if k == 0 else FORMAL_NAMES.get(k) or f"n{k:04d}"
    return base + SUFFIXES[c]


def un(s: str) -> int:
    mt = _NAME_RE.match(s)
    if not mt or mt.group(2) not in SUFFIXES:
        raise ShapeError(f"{s!r} is not a component name of this harness")
    b = mt.group(1)
    k = 0 if b == "time" else FORMAL_IDS.get(b) or int(b[1:])
    return k + 10000 * SUFFIXES.index(mt.group(2))


# ---------------------------------------------------------------------------------------
# (1) facts
# ---------------------------------------------------------------------------------------


def gen() -> dict:
    try:  # Corr.v evaluates Core's model, whose own facts must describe the same tree
        from harness import c01, c02

        c02.gen()
        c01.gen()
    except Exception:  # noqa: BLE001
        pass
    f, _ = c11_extract.extract()
    text = (
        "(* REGENERATED from src/mxlpy/meta/codegen_mxlpy.py and sympy_tools.py by harness/c11.py; do not edit.\n"
        "   An unrecognised key expression yields KsUnknown, a changed function body yields false; either\n"
        "   breaks C11_facts_pinned. *)\n"
        "From Coq Require Import List.\nFrom MxlGen Require Import SymRepr Imports CallDefaults NameScope Session.\nImport ListNotations.\n"
        f"Definition gen_mxlgen_facts : gen_facts := mkGenFacts {f['var_key']} {f['par_key']} {f['der_key']} "
        f"{f['rxn_key']} {f['sto_key']} {f['register']} {f['codegen_shape']} {f['symrepr_shape']} "
        f"{f['param_check']} {f['interchange']} {f['rename']} {f['emit']}.\n"
        "(* which sections of the emitted text the import loop of generate_mxlpy_code_from_symbolic_repr searches for which\n"
        "   module (None = loop not understood); pinned by C11_text_facts_pinned *)\n"
        f"Definition gen_import_scan : option scan_table := {f['import_scan']}.\n"
        "(* how fn_to_sympy (source_tools.py) binds the arguments of a translated call to the callee's parameters *)\n"
        f"Definition gen_call_defaults : df_mode := {f['call_defaults']}.\n"
        "(* _handle_name (source_tools.py): the function's own symbols before the numbers of the module, or the other way round *)\n"
        f"Definition gen_name_lookup : nl_mode := {f['name_lookup']}.\n"
        "(* when the translator scans a module for callables / sub-modules / numbers: at every call, or once per process *)\n"
        f"Definition gen_scan_mode : scan_mode := {f['scan_mode']}.\n"
    )
    common.write_if_changed(common.area_dir(AREA) / "GenMxlGenFacts.v", text)
    return f


# ---------------------------------------------------------------------------------------
# the function objects of a run: one global table, mirrored as `T : ftab` in every Corr file
# ---------------------------------------------------------------------------------------
# body of FnLib id s, as source text over its own parameter names
BODIES = {
    0: (["a"], "a"),
    1: (["a"], "-a"),
    2: (["a", "b"], "a + b"),
    3: (["a", "b"], "a - b"),
    4: (["a", "b"], "a * b"),
    5: (["a", "b", "c"], "a * b + c"),
    6: (["a"], "a * a"),
    7: (["a", "b"], "a * a - 3 * b + 1"),
    8: ([], "2"),
    9: (["s1", "s2", "k"], "k * s1 * s2"),
    10: (["a", "b", "c"], "a + b + c"),
}
STOICH_RXN = 900  # the reaction name used for <rxn>_stoich_<fn> prefix collisions

# (module tag, __name__, FnLib id of the body, translatable)
_EXTRA = [
    ("a", "rate", 4, True),  # 11
    ("a", "same", 3, True),  # 12
    ("a", "init_f_id", 1, True),  # 13  collides with the initial assignment key of f_id
    ("a", "init_f_add", 4, True),  # 14
    ("a", f"{nm(STOICH_RXN)}_stoich_f_id", 6, True),  # 15
    ("a", "f_add", 3, True),  # 16  same name as fnlib.f_add, different body
    ("a", "f_id", 0, True),  # 17  same name as fnlib.f_id, same body (harmless)
    ("b", "rate", 2, True),  # 18
    ("b", "same", 3, True),  # 19  same name, same body as moda.same (harmless)
    ("a", "bad_index", 4, False),  # 20  body uses a subscript: fn_to_sympy refuses
    ("a", "<lambda>", 4, False),  # 21  a lambda is not a FunctionDef: refused
    ("x", "constant", 0, True),  # 22  mxlpy.fns.constant (what add_reaction makes of a str coefficient)
    # --- same-named, NON-interchangeable pairs whose substituted expressions can coincide (seeded C11-2 shape);
    #     5th entry = (arity, selection): object(x_0..) = body at [x_i for i in selection]
    ("a", "excess", 3, True, (2, [0, 1])),  # 23  a - b
    ("b", "excess", 3, True, (2, [1, 0])),  # 24  b - a
    ("a", "wmix", 5, True, (3, [0, 1, 2])),  # 25  a*b + c
    ("b", "wmix", 5, True, (3, [2, 1, 0])),  # 26  c*b + a
    ("a", "pick", 0, True, (2, [0])),  # 27  f(a, b) = a
    ("b", "pick", 0, True, (1, [0])),  # 28  f(a) = a          (same substituted body, other arity)
    ("a", "dbl", 2, True, (2, [1, 1])),  # 29  b + b
    ("b", "dbl", 2, True, (2, [0, 1])),  # 30  a + b          (equal on a repeated argument only)
    # --- functions whose __name__ looks like a fresh name of the generator
    ("a", "rate_1", 3, True),  # 31
    ("a", "init_f_id_1", 6, True),  # 32
    ("b", "excess_1", 2, True),  # 33
    # --- functions whose body CALLS A HELPER that has defaulted trailing parameters (source in CUSTOM_SRC).  `None` =
    #     whether fn_to_sympy translates the object is OBSERVED on the tree under test (Fns.__init__): the shipped
    #     translator refuses a call that relies on default values (strict zip), another tree may bind them.  The body id /
    #     selection say what the PYTHON object computes (defaults as CPython binds them: right-aligned).
    ("a", "cap3", 9, None, (3, [0, 1, 2])),  # 34  hmul(s1, s2, k=5, w=1) called hmul(a, b, c): first of two defaults passed
    ("a", "aff3", 5, None, (3, [0, 1, 2])),  # 35  haff(a, b, c=7, g=1) called haff(a, b, c)
    ("a", "add2", 2, None, (2, [0, 1])),  # 36  hadd(a, b=4, z=0) called hadd(a, b)
    ("a", "sub2", 3, None, (2, [0, 1])),  # 37  hone(a, b, c=1) called hone(a, b): ONE default, omitted
    ("a", "neg1", 1, None, (1, [0])),  # 38  hneg(a, m=1, z=0) called hneg(a): ALL defaults omitted
    ("a", "add2full", 2, None, (2, [0, 1])),  # 39  hadd(a, b, 0): every argument passed
    ("a", "quad2", 7, None, (2, [0, 1])),  # 40  hq(a, b, m=3, o=1) called hq(a, b, 3): a literal for the first default
    # --- closing pass 3 (seeded C11-8): module "c" has module-level NUMBERS named like the parameters of its functions
    #     (a = 7.0, b = 3, c = 2.0: a script that keeps its default numbers under the names its rate functions use);
    #     inside the functions the name is the PARAMETER, whatever is passed for it
    ("c", "sh_sub", 3, True),  # 41  a - b
    ("c", "sh_mix", 5, True),  # 42  a*b + c
    ("c", "sh_poly", 7, True),  # 43  a*a - 3*b + 1
    #     module "d": module-level numbers named like LOCAL VARIABLES of its functions (w = 5.0, n = 2) and two genuine
    #     constants read as globals (KONE = 1.0, KZERO = 0.0)
    ("d", "loc_mix", 5, True, (3, [0, 1, 2])),  # 44  w = a * b; return w + c
    ("d", "loc_poly", 7, True, (2, [0, 1])),  # 45  n = a * a; w = 3 * b; return n - w + 1
    ("d", "glob_mul", 4, True, (2, [0, 1])),  # 46  KONE * a * b + KZERO
    # --- closing pass 3 (seeded C11-7): module "s" -- callers of module-level helpers / readers of module-level numbers
    #     that are REBOUND between two generations in one process.  One Python object per caller; the table has one entry per
    #     (caller, version of what it refers to): id = S0 + 3*j + v.  A fresh module object is made for every session.
    ("s", "sat2", 4, True, (2, [0, 1])),  # 47  hsat(a, b), hsat = hv_mul
    ("s", "sat2", 2, True, (2, [0, 1])),  # 48                hsat = hv_add
    ("s", "sat2", 3, True, (2, [0, 1])),  # 49                hsat = hv_sub
    ("s", "sat2r", 4, True, (2, [1, 0])),  # 50  hsat(b, a)
    ("s", "sat2r", 2, True, (2, [1, 0])),  # 51
    ("s", "sat2r", 3, True, (2, [1, 0])),  # 52
    ("s", "one1", 0, True, (1, [0])),  # 53  hone(a), hone = hu_id
    ("s", "one1", 1, True, (1, [0])),  # 54           hone = hu_neg
    ("s", "one1", 6, True, (1, [0])),  # 55           hone = hu_sq
    ("s", "lin1", 2, True, (2, [0, 1])),  # 56  hone(a) + b
    ("s", "lin1", 3, True, (2, [1, 0])),  # 57
    ("s", "lin1", 5, True, (2, [0, 0, 1])),  # 58
    ("s", "wsum", 2, True, (2, [0, 1])),  # 59  KA * a + KB * b, (KA, KB) = (1.0, 1.0)
    ("s", "wsum", 3, True, (2, [0, 1])),  # 60                             (1.0, -1.0)
    ("s", "wsum", 3, True, (2, [1, 0])),  # 61                             (-1.0, 1.0)
]
# helpers (module a and b alike) and the callers' bodies
HELPERS_SRC = """
def hmul(s1, s2, k=5, w=1):
    return k * s1 * s2 * w


def haff(a, b, c=7, g=1):
    return a * b * g + c


def hadd(a, b=4, z=0):
    return a + b + z


def hone(a, b, c=1):
    return a * c - b


def hneg(a, m=1, z=0):
    return z - a * m


def hq(a, b, m=3, o=1):
    return a * a - m * b + o

"""
CUSTOM_SRC = {
    34: "def cap3(a, b, c):\n    return hmul(a, b, c)\n\n",
    35: "def aff3(a, b, c):\n    return haff(a, b, c)\n\n",
    36: "def add2(a, b):\n    return hadd(a, b)\n\n",
    37: "def sub2(a, b):\n    return hone(a, b)\n\n",
    38: "def neg1(a):\n    return hneg(a)\n\n",
    39: "def add2full(a, b):\n    return hadd(a, b, 0)\n\n",
    40: "def quad2(a, b):\n    return hq(a, b, 3)\n\n",
}
# (callee parameters, number of defaults, number of arguments passed) of the one nested call of each object
HELPER_CALLS = {34: (4, 2, 3), 35: (4, 2, 3), 36: (3, 2, 2), 37: (3, 1, 2), 38: (3, 2, 1), 39: (3, 2, 3), 40: (4, 2, 3)}
HELPER_OBJS = sorted(CUSTOM_SRC)
# module headers of the generated modules (module "s": SESSION_SRC, one module object per session)
MOD_HEADER = {
    "a": HELPERS_SRC,
    "b": HELPERS_SRC,
    "c": "a = 7.0\nb = 3\nc = 2.0\n\n",
    "d": "w = 5.0\nn = 2\nKONE = 1.0\nKZERO = 0.0\n\n",
}
SHADOW_SRC = {
    44: "def loc_mix(a, b, c):\n    w = a * b\n    return w + c\n\n",
    45: "def loc_poly(a, b):\n    n = a * a\n    w = 3 * b\n    return n - w + 1\n\n",
    46: "def glob_mul(a, b):\n    return KONE * a * b + KZERO\n\n",
}
SHADOW_OBJS = [41, 42, 43, 44, 45, 46]
S0 = 47  # first session id; id = S0 + 3 * caller + version
SESSION_CALLERS = ["sat2", "sat2r", "one1", "lin1", "wsum"]
SESSION_REF = ["hsat", "hsat", "hone", "hone", "kab"]  # what caller j refers to
SESSION_VERSIONS = {
    "hsat": [{"hsat": "hv_mul"}, {"hsat": "hv_add"}, {"hsat": "hv_sub"}],  # module attribute := that function of the module
    "hone": [{"hone": "hu_id"}, {"hone": "hu_neg"}, {"hone": "hu_sq"}],
    "kab": [{"KA": 1.0, "KB": 1.0}, {"KA": 1.0, "KB": -1.0}, {"KA": -1.0, "KB": 1.0}],  # module attribute := that number
}
SESSION_SRC = """# generated by harness/c11.py: helpers and numbers of this module are rebound between two generations
def hv_mul(a, b):
    return a * b


def hv_add(a, b):
    return a + b


def hv_sub(a, b):
    return a - b


def hu_id(a):
    return a


def hu_neg(a):
    return -a


def hu_sq(a):
    return a * a


hsat = hv_mul
hone = hu_id
KA = 1.0
KB = 1.0


def sat2(a, b):
    return hsat(a, b)


def sat2r(a, b):
    return hsat(b, a)


def one1(a):
    return hone(a)


def lin1(a, b):
    return hone(a) + b


def wsum(a, b):
    return KA * a + KB * b
"""
_OK_OBSERVED: dict[int, bool] = {}  # filled by Fns.__init__ for the objects whose entry says None
N_LIB = 11
F_CONSTANT = 22
F_BAD = (20, 21)
CLASH_FAMILY = [11, 12, 13, 14, 15, 16, 17, 18, 19, 31, 32]
TWINS = [(23, 24), (25, 26), (27, 28), (29, 30)]
STD_FORMALS = ["a", "b", "c"]


def _extra(e: tuple) -> tuple[str, str, int, bool, int, list[int]]:
    """-> (module tag, name, sem, ok, arity, selection)"""
    mod, name, sem, ok = e[:4]
    ar, sel = e[4] if len(e) > 4 else (len(BODIES[sem][0]), list(range(len(BODIES[sem][0]))))
    if ok is None:  # observed on the tree under test; refused until observed
        ok = _OK_OBSERVED.get(N_LIB + _EXTRA.index(e), False)
    return mod, name, sem, ok, ar, list(sel)


def table() -> list[tuple[str, int, int, bool]]:
    """[(name, sem, arity, ok)] for every function object id."""
    return [e[:4] for e in table_full()]


def table_full() -> list[tuple[str, int, int, bool, list[int], list[int]]]:
    """[(name, sem, arity, ok, selection, own parameter names as component ids)]"""
    import inspect

    from harness import fnlib

    t = []
    for i in range(N_LIB):
        formals = [FORMAL_IDS[p] for p in inspect.signature(fnlib.FNS[i]).parameters]
        t.append((fnlib.FNS[i].__name__, i, fnlib.ARITY[i], True, list(range(fnlib.ARITY[i])), formals))
    for e in _EXTRA:
        _m, name, sem, ok, ar, sel = _extra(e)
        t.append((name, sem, ar, ok, sel, [FORMAL_IDS[p] for p in STD_FORMALS[:ar]]))
    return t


def obj_sem(f: int, args: list[int]) -> int:
    """exact meaning of function object f"""
    from harness import fnlib

    _n, sem, ar, _ok, sel, _fm = table_full()[f]
    assert len(args) == ar
    return fnlib.fsem(sem, [args[i] for i in sel])


def obj_source(f: int) -> tuple[list[str], str]:
    """(own parameter names, body text) of an object of the generated modules"""
    _n, sem, ar, _ok, sel, _fm = table_full()[f]
    params, body = BODIES[sem]
    own = STD_FORMALS[:ar]
    sub = {p: own[sel[i]] for i, p in enumerate(params)}
    return own, re.sub(r"\b(" + "|".join(map(re.escape, params)) + r")\b", lambda m: sub[m.group(1)], body) if params else body


class Fns:
    """Writes the two clash modules into a scratch dir, imports them, gives the function objects."""

    def __init__(self) -> None:
        from harness import fnlib

        self.dir = common.scratch_dir("c11")
        self.tag = f"c11_{self.dir.name.replace('-', '_')}"
        src = {m: ["# generated by harness/c11.py\n", h] for m, h in MOD_HEADER.items()}
        for i, e in enumerate(_EXTRA):
            mod, name, sem, _ok, _ar, _sel = _extra(e)
            if mod in ("x", "s"):
                continue
            if N_LIB + i in CUSTOM_SRC or N_LIB + i in SHADOW_SRC:
                src[mod].append(CUSTOM_SRC.get(N_LIB + i) or SHADOW_SRC[N_LIB + i])
                continue
            params, body = obj_source(N_LIB + i)
            if name == "bad_index":
                src[mod].append(f"def bad_index({', '.join(params)}):\n    return [{params[0]}][0] * {params[1]}\n\n")
            elif name == "<lambda>":
                src[mod].append(f"lam = lambda {', '.join(params)}: {body}  # noqa: E731\n\n")
            else:
                src[mod].append(f"def {name}({', '.join(params)}):\n    return {body}\n\n")
        self.modnames = {}
        for mod in MOD_HEADER:
            mn = f"{self.tag}_mod{mod}"
            (self.dir / f"{mn}.py").write_text("\n".join(src[mod]))
            self.modnames[mod] = mn
        sys.path.insert(0, str(self.dir))
        importlib.invalidate_caches()
        mods = {k: importlib.import_module(v) for k, v in self.modnames.items()}
        from mxlpy import fns as mfns

        self.n_sessions = 0
        self.session_mod: Any = None
        self.objs: list[Any] = list(fnlib.FNS[:N_LIB])
        for e in _EXTRA:
            mod, name = e[0], e[1]
            if mod == "x":
                self.objs.append(mfns.constant)
            elif mod == "s":
                self.objs.append(None)  # bound by new_session()
            elif name == "<lambda>":
                self.objs.append(mods[mod].lam)
            else:
                self.objs.append(getattr(mods[mod], name))
        # does the translator of the tree under test accept the helper-calling objects?  (asked of fn_to_sympy itself,
        # once per object, with the call _fn_to_symbolic_repr makes; the round-trip oracle then demands: refused => generation
        # raises, accepted => the rebuilt model behaves like the source)
        self.observe_translatable()
        self.new_session()
        # the table and the objects must agree (name, meaning)
        for i, (name, sem, ar, _ok) in enumerate(table()):
            if i >= S0:  # entry = (caller, version of what it refers to)
                j, v = divmod(i - S0, 3)
                self.rebind({SESSION_REF[j]: v})
            assert self.objs[i].__name__ == name, (i, name, self.objs[i].__name__)
            pt = [3, 5, 7][:ar]
            assert self.objs[i](*pt) == obj_sem(i, pt), (i, name)

    def new_session(self) -> None:
        """A FRESH module object holding the callers / helpers / numbers of the `session` stream (its own file, so that
        inspect finds the sources): nothing a translator may have remembered about an earlier module applies to it."""
        self.n_sessions += 1
        mn = f"{self.tag}_s{self.n_sessions}"
        (self.dir / f"{mn}.py").write_text(SESSION_SRC)
        importlib.invalidate_caches()
        self.session_mod = importlib.import_module(mn)
        self.modnames[f"s{self.n_sessions}"] = mn
        for j, caller in enumerate(SESSION_CALLERS):
            for v in range(3):
                self.objs[S0 + 3 * j + v] = getattr(self.session_mod, caller)

    def rebind(self, binding: dict[str, int]) -> None:
        """Rebind helpers / numbers of the current session module: {"hsat": version, "hone": version, "kab": version}."""
        for what, v in binding.items():
            for attr, val in SESSION_VERSIONS[what][v].items():
                setattr(self.session_mod, attr, getattr(self.session_mod, val) if isinstance(val, str) else val)

    def observe_translatable(self) -> None:
        import logging

        import sympy
        from mxlpy.meta.sympy_tools import fn_to_sympy

        prev = logging.root.manager.disable
        logging.disable(logging.CRITICAL)
        try:
            for i, e in enumerate(_EXTRA):
                if e[3] is not None:
                    continue
                f = N_LIB + i
                ar = e[4][0]
                try:
                    expr = fn_to_sympy(self.objs[f], origin="probe", model_args=[sympy.Symbol(f"q{j}") for j in range(ar)])
                except Exception:  # noqa: BLE001
                    expr = None
                _OK_OBSERVED[f] = expr is not None
        finally:
            logging.disable(prev)

    def close(self) -> None:
        try:
            sys.path.remove(str(self.dir))
        except ValueError:
            pass
        for mn in self.modnames.values():
            sys.modules.pop(mn, None)
        shutil.rmtree(self.dir, ignore_errors=True)


# ---------------------------------------------------------------------------------------
# model descriptions
# ---------------------------------------------------------------------------------------
# desc = {"par": [(n, ("plain", v) | ("ia", f, [args]))], "var": [same],
#         "der": [(n, f, [args])], "rxn": [(n, f, [args], [(cpd, ("stat", q) | ("dyn", f, [args]) | ("named", p))])]}
# f = function object id (index into table()); names as in harness/modelgen.py (0 = time)

KINDS = ["plain", "reuse", "same_name", "prefix_init", "prefix_stoich", "dup_args", "untranslatable", "mixed",
         "lookalike", "formals", "twins"]
SPECIAL = ("lookalike", "formals", "twins")


def _place(rng, desc: dict, nxt: list[int], uses: list[tuple[int, list[int]]], variables: list[int], params: list[int]) -> None:
    """Put every (function, argument list) of `uses` into a random kind of slot: derived, rate function,
    computed coefficient, initial assignment of a parameter."""

    def fresh() -> int:
        nxt[0] += 1
        return nxt[0]

    for f, a in uses:
        role = rng.choices(["der", "rxn", "sto", "iapar"], weights=[4, 3, 2, 1.5])[0]
        if role == "iapar" and all(x in variables + params or x == 0 for x in a):
            n = fresh()
            desc["par"].append((n, ("ia", f, a)))
        elif role == "rxn":
            tv = rng.sample(variables, rng.randint(1, min(2, len(variables))))
            desc["rxn"].append((fresh(), f, a, [(c, ("stat", rng.choice([-2, -1, 1, 2, 3]))) for c in tv]))
        elif role == "sto":
            tv = rng.sample(variables, rng.randint(1, min(2, len(variables))))
            st = [(c, ("stat", rng.choice([-1, 1, 2]))) for c in tv]
            st[0] = (st[0][0], ("dyn", f, a))
            desc["rxn"].append((fresh(), 0, [rng.choice(variables)], st))
        else:
            desc["der"].append((fresh(), f, a))


def gen_special(rng, kind: str) -> dict:
    """The three streams aimed at the naming machinery of the generator:
    lookalike  a repeated argument X next to components literally called X_1 / X_2 / X_1_1 (the fresh
               parameter names _parameter_names would pick), at earlier and LATER positions;
    formals    components called like the functions' own parameter names, passed in rotated / swapped /
               chained order (the i-th model argument is named like a later formal parameter);
    twins      two different functions sharing a __name__ whose substituted expressions coincide
               (a - b on [x, y] and b - a on [y, x]; f(a, b) = a and f(a) = a on x; ...)."""
    tab = table()
    nxt = [10]

    def fresh() -> int:
        nxt[0] += 1
        return nxt[0]

    desc: dict[str, list] = {"par": [], "var": [], "der": [], "rxn": []}
    vals = rng.sample([-3, -2, 2, 3, 4, 5, 7], 7)
    variables: list[int] = []
    params: list[int] = []

    def add(n: int, as_var: bool) -> None:
        v = ("plain", vals.pop())
        (desc["var"] if as_var else desc["par"]).append((n, v))
        (variables if as_var else params).append(n)

    uses: list[tuple[int, list[int]]] = []
    if kind == "lookalike":
        x = 0 if rng.random() < 0.15 else fresh()
        if x:
            add(x, rng.random() < 0.7)
        x1, x2, x11 = x + 10000, x + 20000, x + 30000
        add(x1, rng.random() < 0.6)
        for n in (x2, x11):
            if rng.random() < 0.6:
                add(n, rng.random() < 0.5)
        other = fresh()
        add(other, True)
        have = variables + params
        pats3 = [[x, x, x1], [x, x1, x], [x1, x, x], [x, x, other], [x1, x1, x11], [x, x, x2], [x, x1, x1], [x1, x, x1], [other, other, x1]]
        pats2 = [[x, x], [x, x1], [x1, x], [x1, x1]]
        pats3 = [p for p in pats3 if all(n in have or n == 0 for n in p)]
        pats2 = [p for p in pats2 if all(n in have or n == 0 for n in p)]
        for _ in range(rng.randint(1, 3)):
            if rng.random() < 0.75:
                uses.append((rng.choice([5, 5, 9, 10, 25, 26]), list(rng.choice(pats3))))
            else:
                uses.append((rng.choice([2, 3, 4, 7, 23, 24]), list(rng.choice(pats2))))
        if rng.random() < 0.5:  # the same function once more without a repetition (shares / must not share the def)
            f = uses[0][0]
            pool = [n for n in have if n]
            uses.append((f, [rng.choice(pool) for _ in range(tab[f][2])]))
    elif kind == "formals":
        ids = list(FORMAL_NAMES)
        rng.shuffle(ids)
        n_var = rng.randint(2, 3)
        for i, n in enumerate(ids):
            add(n, i < n_var)
        full = table_full()
        for _ in range(rng.randint(2, 4)):
            f = rng.choice([2, 3, 3, 4, 5, 5, 7, 7, 9, 9, 10, 23, 24, 25, 26])
            fm = full[f][5]
            ar = len(fm)
            how = rng.random()
            if how < 0.35:  # rotation of the function's own parameter names
                r = rng.randint(1, ar - 1)
                a = fm[r:] + fm[:r]
            elif how < 0.55:  # swap
                a = list(reversed(fm))
            elif how < 0.85:  # chain: a -> b, b -> c, ... the last one to some other name
                others = [n for n in FORMAL_NAMES if n not in fm]
                a = fm[1:] + [rng.choice(others)]
            else:  # any formal names
                a = [rng.choice(list(FORMAL_NAMES)) for _ in range(ar)]
            uses.append((f, a))
    else:  # twins
        for _ in range(rng.randint(2, 3)):
            add(fresh(), True)
        add(fresh(), False)
        have = variables + params
        for fa, fb in rng.sample(TWINS, rng.randint(1, 2)):
            if (fa, fb) == (23, 24):
                x, y = rng.sample(have, 2)
                pair = [(fa, [x, y]), (fb, [y, x])]
            elif (fa, fb) == (25, 26):
                x, y, z = rng.sample(have, 3)
                pair = [(fa, [x, y, z]), (fb, [z, y, x])]
            elif (fa, fb) == (27, 28):
                x, y = rng.sample(have, 2)
                pair = [(fa, [x, y]), (fb, [x])]
            else:
                x, y = rng.sample(have, 2)
                pair = [(fa, [y, x]), (fb, [x, x])] if rng.random() < 0.5 else [(fa, [x, y]), (fb, [y, y])]
            if rng.random() < 0.5:
                pair.reverse()
            uses += pair
        if rng.random() < 0.4:
            f = rng.choice([23, 24, 33])
            uses.append((f, rng.sample(have, tab[f][2])))
    rng.shuffle(uses) if kind != "twins" or rng.random() < 0.3 else None
    _place(rng, desc, nxt, uses, variables, params)
    if not desc["rxn"] and rng.random() < 0.7:
        desc["rxn"].append((fresh(), 0, [rng.choice(variables)], [(rng.choice(variables), ("stat", 1))]))
    for k in ("par", "var", "der", "rxn"):
        rng.shuffle(desc[k])
    return desc


def gen_helpers(rng) -> dict:
    """Stream `helpers` (own rng): rate / derived / coefficient / initial-assignment functions whose body calls a helper
    with defaulted trailing parameters -- some of the defaults passed, one default, all omitted, all passed, a literal
    passed -- next to ordinary library functions.  Whether such an object is translatable is observed on the tree under
    test (see Fns.observe_translatable): the shipped translator refuses every call that relies on a default."""
    tab = table()
    nxt = [10]

    def fresh() -> int:
        nxt[0] += 1
        return nxt[0]

    desc: dict[str, list] = {"par": [], "var": [], "der": [], "rxn": []}
    vals = rng.sample([-3, -2, -1, 2, 3, 4, 5], 6)
    variables: list[int] = []
    params: list[int] = []
    for _ in range(rng.randint(2, 3)):
        n = fresh()
        desc["var"].append((n, ("plain", vals.pop())))
        variables.append(n)
    for _ in range(rng.randint(1, 2)):
        n = fresh()
        desc["par"].append((n, ("plain", vals.pop())))
        params.append(n)
    have = variables + params
    r = rng.random()
    if r < 0.3:  # only calls that pass every argument: translated by the shipped tree, the rebuilt model is compared
        objs = [39] * rng.randint(1, 2)
    elif r < 0.75:  # one object of the stream
        objs = [rng.choice([34, 34, 35, 35, 36, 36, 37, 38, 40, 40])]
    else:
        objs = rng.sample(HELPER_OBJS, rng.randint(2, 3))
    uses: list[tuple[int, list[int]]] = []
    for f in objs:
        ar = tab[f][2]
        pool = have + ([0] if rng.random() < 0.2 else [])
        a = rng.sample(pool, ar) if rng.random() < 0.8 else [rng.choice(pool) for _ in range(ar)]
        uses.append((f, a))
        if rng.random() < 0.35:  # the same object under a second argument list
            uses.append((f, rng.sample(have, ar)))
    for _ in range(rng.randint(0, 2)):
        f = rng.choice([2, 3, 4, 5, 9])
        uses.append((f, rng.sample(have, tab[f][2])))
    rng.shuffle(uses)
    _place(rng, desc, nxt, uses, variables, params)
    if not desc["rxn"] and rng.random() < 0.7:
        desc["rxn"].append((fresh(), 0, [rng.choice(variables)], [(rng.choice(variables), ("stat", 1))]))
    for k in ("par", "var", "der", "rxn"):
        rng.shuffle(desc[k])
    return desc


def _small_model(rng, objs_uses, lib_extra: int, second_list_p: float) -> dict:
    """2-3 variables, 1-3 parameters, the given function objects each under one or two argument lists (one function serving
    two components with DIFFERENT arguments), a few library functions; placed into random kinds of slots."""
    tab = table()
    nxt = [10]

    def fresh() -> int:
        nxt[0] += 1
        return nxt[0]

    desc: dict[str, list] = {"par": [], "var": [], "der": [], "rxn": []}
    vals = rng.sample([-3, -2, -1, 2, 3, 4, 5, 6], 7)
    variables: list[int] = []
    params: list[int] = []
    for _ in range(rng.randint(2, 3)):
        n = fresh()
        desc["var"].append((n, ("plain", vals.pop())))
        variables.append(n)
    for _ in range(rng.randint(1, 3)):
        n = fresh()
        desc["par"].append((n, ("plain", vals.pop())))
        params.append(n)
    have = variables + params
    uses: list[tuple[int, list[int]]] = []
    for f in objs_uses:
        ar = tab[f][2]
        pool = have + ([0] if rng.random() < 0.15 else [])
        a = rng.sample(pool, ar) if rng.random() < 0.85 else [rng.choice(pool) for _ in range(ar)]
        uses.append((f, a))
        if rng.random() < second_list_p:
            uses.append((f, rng.sample(have, ar)))
    for _ in range(lib_extra):
        f = rng.choice([2, 3, 4, 5, 9])
        uses.append((f, rng.sample(have, tab[f][2])))
    rng.shuffle(uses)
    _place(rng, desc, nxt, uses, variables, params)
    if not desc["rxn"] and rng.random() < 0.7:
        desc["rxn"].append((fresh(), 0, [rng.choice(variables)], [(rng.choice(variables), ("stat", 1))]))
    for k in ("par", "var", "der", "rxn"):
        rng.shuffle(desc[k])
    return desc


def gen_shadow(rng) -> dict:
    """Stream `shadow` (own rng): functions whose PARAMETERS (module c) or LOCAL VARIABLES (module d) are named like a
    module-level int / float of the module that defines them, and one that reads genuine module-level numbers.  In Python the
    parameter / local variable hides the module-level number; the emitted definition has to do the same."""
    r = rng.random()
    if r < 0.5:
        objs = [rng.choice(SHADOW_OBJS[:5])]
    else:
        objs = rng.sample(SHADOW_OBJS, rng.randint(2, 3))
    return _small_model(rng, objs, rng.randint(0, 2), 0.6)


def gen_session(rng) -> dict:
    """Stream `session` (own rng): ONE process, one module; a model whose functions call module-level helpers / read
    module-level numbers is generated, the helpers / numbers are rebound in the module (the function objects of the model
    stay the same), the model -- the same Model object or a newly built one -- is generated again; 2-4 generations.
    -> {"base": desc over the version-0 ids, "binds": [binding per step], "reuse": same Model object for every step}"""
    js = rng.sample(range(len(SESSION_CALLERS)), rng.choice([1, 1, 2, 2, 3]))
    base = _small_model(rng, [S0 + 3 * j for j in js], rng.randint(0, 2), 0.4)
    refs = sorted({SESSION_REF[j] for j in js})
    cur = {w: rng.randrange(3) for w in SESSION_VERSIONS}
    binds = [dict(cur)]
    for _ in range(rng.choice([1, 1, 1, 2, 3])):
        r = rng.random()
        if r < 0.8:  # something the model's functions refer to is rebound
            w = rng.choice(refs)
            cur[w] = rng.choice([v for v in range(3) if v != cur[w]])
        elif r < 0.9:  # something else of the module
            w = rng.choice(sorted(SESSION_VERSIONS))
            cur[w] = rng.randrange(3)
        # else: nothing changes between the two generations
        binds.append(dict(cur))
    return {"base": base, "binds": binds, "reuse": rng.random() < 0.5}


def versioned(desc: dict, binding: dict[str, int]) -> dict:
    """The description of the model AS IT IS under `binding`: every session caller id becomes the id of (caller, version)."""

    def vf(f: int) -> int:
        if f < S0:
            return f
        j = (f - S0) // 3
        return S0 + 3 * j + binding[SESSION_REF[j]]

    def valia(v):
        return v if v[0] == "plain" else ("ia", vf(v[1]), list(v[2]))

    def coef(c):
        return c if c[0] != "dyn" else ("dyn", vf(c[1]), list(c[2]))

    return {
        "par": [(n, valia(v)) for n, v in desc["par"]],
        "var": [(n, valia(v)) for n, v in desc["var"]],
        "der": [(n, vf(f), list(a)) for n, f, a in desc["der"]],
        "rxn": [(n, vf(f), list(a), [(c, coef(cf)) for c, cf in st]) for n, f, a, st in desc["rxn"]],
    }


def gen_desc(rng, kind: str, max_comp: int = 7) -> dict:
    if kind in SPECIAL:
        return gen_special(rng, kind)
    tab = table()
    by_arity: dict[int, list[int]] = {}
    for i, (_n, _s, ar, ok) in enumerate(tab):
        if ok and i != F_CONSTANT:
            by_arity.setdefault(ar, []).append(i)
    lib_by_arity = {ar: [i for i in ids if i < N_LIB] for ar, ids in by_arity.items()}
    nxt = [10]

    def fresh() -> int:
        nxt[0] += 1
        return nxt[0]

    desc: dict[str, list] = {"par": [], "var": [], "der": [], "rxn": []}
    pool: list[int] = [0] if rng.random() < 0.4 else []
    params: list[int] = []
    for _ in range(rng.randint(1, 3)):
        n = fresh()
        desc["par"].append((n, ("plain", rng.randint(-2, 3))))
        pool.append(n)
        params.append(n)
    variables: list[int] = []
    for _ in range(rng.randint(1, 3)):
        n = fresh()
        desc["var"].append((n, ("plain", rng.randint(-2, 3))))
        pool.append(n)
        variables.append(n)
    used: list[int] = []
    allow_dup = kind in ("dup_args", "mixed")
    clash_p = {"plain": 0.0, "reuse": 0.0, "dup_args": 0.0, "untranslatable": 0.1}.get(kind, 0.55)

    def pick_args(ar: int) -> list[int]:
        if allow_dup and rng.random() < 0.6:
            return [rng.choice(pool) for _ in range(ar)]
        if len(pool) >= ar:
            return rng.sample(pool, ar)
        return [rng.choice(pool) for _ in range(ar)]  # unavoidable repetition

    def pick_fn() -> tuple[int, list[int]]:
        if used and kind in ("reuse", "mixed", "dup_args", "same_name") and rng.random() < 0.5:
            f = rng.choice(used)  # one function serving several components
            if kind == "same_name" and rng.random() < 0.5:
                twins = [i for i, e in enumerate(tab) if e[0] == tab[f][0] and e[2] == tab[f][2] and e[3] and i != f]
                if twins:
                    f = rng.choice(twins)
        elif rng.random() < clash_p:
            fam = {
                "same_name": [11, 18, 12, 19, 16, 2, 17, 0, 23, 24, 31, 33],
                "prefix_init": [13, 14, 0, 2],
                "prefix_stoich": [15, 0],
            }.get(kind, CLASH_FAMILY)
            f = rng.choice(fam)
        else:
            ar = rng.choice([0, 1, 1, 2, 2, 2, 3])
            f = rng.choice(lib_by_arity[ar])
        used.append(f)
        return f, pick_args(tab[f][2])

    def pick_coef() -> tuple:
        r = rng.random()
        if r < 0.5:
            return ("stat", rng.choice([-2, -1, 1, 1, 2, 3]))
        if r < 0.62:
            return ("named", rng.choice(params))
        if kind == "prefix_stoich" and rng.random() < 0.6:
            return ("dyn", 0, pick_args(1))
        f, a = pick_fn()
        return ("dyn", f, a)

    late_vars: list[int] = []
    n_comp = rng.randint(2, max_comp)
    for j in range(n_comp):
        ck = rng.choices(["der", "rxn", "iapar", "iavar"], weights=[4, 4, 1.5, 1.2])[0]
        if kind == "prefix_init" and j == 0:
            ck = "iapar"
        if kind == "prefix_stoich" and j == 0:
            ck = "rxn"
        if ck == "der":
            n = fresh()
            f, a = pick_fn()
            desc["der"].append((n, f, a))
            pool.append(n)
        elif ck == "rxn":
            n = STOICH_RXN if (kind == "prefix_stoich" and j == 0) else fresh()
            f, a = pick_fn()
            tv = variables + late_vars
            targets = rng.sample(tv, rng.randint(1 if kind == "prefix_stoich" and j == 0 else 0, min(2, len(tv))))
            st = [(c, pick_coef()) for c in targets]
            if kind == "prefix_stoich" and j == 0:
                st[0] = (st[0][0], ("dyn", 0, pick_args(1)))
            desc["rxn"].append((n, f, a, st))
            pool.append(n)
        elif ck == "iapar":
            n = fresh()
            if kind == "prefix_init" and j == 0:
                f = rng.choice([0, 2])
                a = pick_args(tab[f][2])
                used.append(f)
            else:
                f, a = pick_fn()
            desc["par"].append((n, ("ia", f, a)))
            pool.append(n)
            params.append(n)
        else:
            n = fresh()
            f, a = pick_fn()
            desc["var"].append((n, ("ia", f, a)))
            pool.append(n)
            late_vars.append(n)
    if kind == "untranslatable":
        # replace the function of one random slot by a refused one
        slots = slots_of(desc)
        two = [s for s in slots if tab[s["f"]][2] == 2]
        if two:
            s = rng.choice(two)
            _set_slot_fn(desc, s, rng.choice(F_BAD))
        elif rng.random() < 0.5:
            # wrong number of model arguments: zip(..., strict=True) raises inside fn_to_sympy
            n = fresh()
            desc["der"].append((n, 2, [rng.choice(pool)]))
    for k in ("par", "var", "der", "rxn"):
        rng.shuffle(desc[k])
    return desc


def slots_of(desc: dict) -> list[dict]:
    """Every (component, role) that holds a function, in the order the generator visits them."""
    out = []
    for grp, role in (("var", "init"), ("par", "init")):
        for i, (n, v) in enumerate(desc[grp]):
            if v[0] == "ia":
                out.append({"grp": grp, "i": i, "j": None, "role": role, "comp": n, "f": v[1], "args": list(v[2])})
    for i, (n, f, a) in enumerate(desc["der"]):
        out.append({"grp": "der", "i": i, "j": None, "role": "plain", "comp": n, "f": f, "args": list(a)})
    for i, (n, f, a, st) in enumerate(desc["rxn"]):
        out.append({"grp": "rxn", "i": i, "j": None, "role": "plain", "comp": n, "f": f, "args": list(a)})
        for j, (_c, cf) in enumerate(st):
            if cf[0] == "dyn":
                out.append({"grp": "rxn", "i": i, "j": j, "role": "stoich", "comp": n, "f": cf[1], "args": list(cf[2])})
            elif cf[0] == "named":
                out.append({"grp": "rxn", "i": i, "j": j, "role": "stoich", "comp": n, "f": F_CONSTANT, "args": [cf[1]]})
    return out


def _set_slot_fn(desc: dict, s: dict, f: int) -> None:
    g, i, j = s["grp"], s["i"], s["j"]
    if g in ("var", "par"):
        n, v = desc[g][i]
        desc[g][i] = (n, ("ia", f, v[2]))
    elif g == "der":
        n, _f, a = desc[g][i]
        desc[g][i] = (n, f, a)
    elif j is None:
        n, _f, a, st = desc[g][i]
        desc[g][i] = (n, f, a, st)
    else:
        n, f0, a, st = desc[g][i]
        st = list(st)
        st[j] = (st[j][0], ("dyn", f, st[j][1][2]))
        desc[g][i] = (n, f0, a, st)


def guard_violations(desc: dict) -> set[str]:
    """Which recorded findings' guards this model is outside of (independent of the Coq model):
    the keys are recomputed here from the documented naming scheme."""
    tab = table()
    writes = []
    for s in slots_of(desc):
        name = tab[s["f"]][0]
        key = {"init": f"init_{name}", "plain": name, "stoich": f"{nm(s['comp'])}_stoich_{name}"}[s["role"]]
        writes.append((key, s))
    out: set[str] = set()
    last: dict[str, dict] = {}
    for key, s in writes:
        last[key] = s
    for key, s in writes:
        w = last[key]
        if tab[w["f"]][1] != tab[s["f"]][1]:
            same = w["role"] == s["role"] and (w["role"] != "stoich" or w["comp"] == s["comp"])
            out.add("C11-same-name-collapse" if same else "C11-prefix-collision")
    for key, w in last.items():
        if len(set(w["args"])) != len(w["args"]):
            out.add("C11-duplicate-argument")
    return out


def translatable(desc: dict) -> bool:
    tab = table()
    return all(tab[s["f"]][3] and len(s["args"]) == tab[s["f"]][2] for s in slots_of(desc))


# ---------------------------------------------------------------------------------------
# implementation driver
# ---------------------------------------------------------------------------------------


class _Timeout(Exception):
    pass


def _alarm(signum, frame):  # noqa: ANN001, ARG001
    raise _Timeout


def build(desc: dict, fns: Fns) -> Any:
    from mxlpy import Derived, InitialAssignment, Model

    def valia(v):
        return v[1] if v[0] == "plain" else InitialAssignment(fn=fns.objs[v[1]], args=[nm(a) for a in v[2]])

    def coef(c):
        if c[0] == "stat":
            return c[1]
        if c[0] == "named":
            return nm(c[1])
        return Derived(fn=fns.objs[c[1]], args=[nm(a) for a in c[2]])

    m = Model()
    for n, v in desc["par"]:
        m.add_parameter(nm(n), valia(v))
    for n, v in desc["var"]:
        m.add_variable(nm(n), valia(v))
    for n, f, a in desc["der"]:
        m.add_derived(nm(n), fn=fns.objs[f], args=[nm(x) for x in a])
    for n, f, a, st in desc["rxn"]:
        m.add_reaction(nm(n), fn=fns.objs[f], args=[nm(x) for x in a], stoichiometry={nm(c): coef(cf) for c, cf in st})
    return m


def states_for(desc: dict, rng) -> list[tuple[int, dict[int, int]]]:
    return [(rng.randint(0, 3), {n: rng.randint(-2, 3) for n, _ in desc["var"]}) for _ in range(3)]


def _ival(x: Any) -> int:
    v = common.exact_int(x)
    if abs(v) >= BIG:
        raise OverflowError
    return v


def _series(s) -> list[tuple[int, int]]:
    return [(un(k), _ival(v)) for k, v in s.items()]


def observe_model(m, states) -> dict:
    """Answers of a model through the public API, canonicalised to exact integers."""
    out: dict = {
        "names": [
            [un(k) for k in m.get_variable_names()],
            [un(k) for k in m.get_parameter_names()],
            [un(k) for k in m.get_raw_derived()],
            [un(k) for k in m.get_reaction_names()],
        ],
        "ic": [(un(k), _ival(v)) for k, v in m.get_initial_conditions().items()],
        "pv": [(un(k), _ival(v)) for k, v in m.get_parameter_values().items()],
        "states": [],
    }
    for t, st in states:
        vd = {nm(k): float(v) for k, v in st.items()}
        out["states"].append(
            {
                "t": t,
                "state": sorted(st.items()),
                "args": _series(m.get_args(vd, time=float(t))),
                "fluxes": _series(m.get_fluxes(vd, time=float(t))),
                "rhs": _series(m.get_right_hand_side(vd, time=float(t))),
            }
        )
    return out


class ShapeError(Exception):
    """the emitted text is not of the form the reader understands"""


def _num(node: ast.expr) -> int:
    if isinstance(node, ast.UnaryOp) and isinstance(node.op, ast.USub):
        return -_num(node.operand)
    if isinstance(node, ast.Constant) and isinstance(node.value, (int, float)) and not isinstance(node.value, bool):
        return common.exact_int(node.value)
    raise ShapeError(f"not a number: {ast.unparse(node)}")


def _names(node: ast.expr) -> list[int]:
    if not isinstance(node, ast.List):
        raise ShapeError(f"not a list: {ast.unparse(node)}")
    return [un(_str(e)) for e in node.elts]


def _str(node: ast.expr) -> str:
    if isinstance(node, ast.Constant) and isinstance(node.value, str):
        return node.value
    raise ShapeError(f"not a string: {ast.unparse(node)}")


def _fnref(node: ast.expr) -> str:
    if isinstance(node, ast.Name):
        return node.id
    raise ShapeError(f"not a name: {ast.unparse(node)}")


def _kw(call: ast.Call) -> dict[str, ast.expr]:
    return {k.arg: k.value for k in call.keywords if k.arg}


def _valref(node: ast.expr) -> tuple:
    if isinstance(node, ast.Call) and isinstance(node.func, ast.Name) and node.func.id == "InitialAssignment":
        kw = _kw(node)
        return ("init", _fnref(kw["fn"]), _names(kw["args"]))
    return ("num", _num(node))


def parse_source(src: str) -> tuple[list[tuple[str, list[str]]], list[tuple]]:
    """-> (defs [(name, [param names])], builder chain [op tuples]) read from the emitted TEXT."""
    tree = ast.parse(src)  # a repeated parameter is only rejected by compile(), not by the parser
    defs = []
    chain: list[tuple] = []
    for node in tree.body:
        if isinstance(node, ast.FunctionDef) and node.name != "create_model":
            defs.append((node.name, [a.arg for a in node.args.args]))  # parameter names AS WRITTEN
        elif isinstance(node, ast.FunctionDef):
            ret = node.body[-1]
            if not isinstance(ret, ast.Return) or ret.value is None:
                raise ShapeError("create_model has no return")
            cur = ret.value
            calls = []
            while isinstance(cur, ast.Call) and isinstance(cur.func, ast.Attribute):
                calls.append(cur)
                cur = cur.func.value
            if not (isinstance(cur, ast.Call) and isinstance(cur.func, ast.Name) and cur.func.id == "Model"):
                raise ShapeError("chain does not start at Model()")
            for c in reversed(calls):
                meth = c.func.attr  # type: ignore[union-attr]
                kw = _kw(c)
                if len(c.args) != 1:
                    raise ShapeError(f"{meth}: expected one positional argument")
                k = un(_str(c.args[0]))
                if meth == "add_variable" and set(kw) == {"initial_value"}:
                    chain.append(("var", k, _valref(kw["initial_value"])))
                elif meth == "add_parameter" and set(kw) == {"value"}:
                    chain.append(("par", k, _valref(kw["value"])))
                elif meth == "add_derived" and set(kw) == {"fn", "args"}:
                    chain.append(("der", k, _fnref(kw["fn"]), _names(kw["args"])))
                elif meth == "add_reaction" and set(kw) == {"fn", "args", "stoichiometry"}:
                    d = kw["stoichiometry"]
                    if not isinstance(d, ast.Dict):
                        raise ShapeError("stoichiometry is not a dict display")
                    st = []
                    for kk, vv in zip(d.keys, d.values):
                        cpd = un(_str(kk))  # type: ignore[arg-type]
                        if isinstance(vv, ast.Call) and isinstance(vv.func, ast.Name) and vv.func.id == "Derived":
                            k2 = _kw(vv)
                            st.append((cpd, ("der", _fnref(k2["fn"]), _names(k2["args"]))))
                        elif isinstance(vv, ast.Constant) and isinstance(vv.value, str):
                            st.append((cpd, ("str", un(vv.value))))
                        else:
                            st.append((cpd, ("num", _num(vv))))
                    chain.append(("rxn", k, _fnref(kw["fn"]), _names(kw["args"]), st))
                else:
                    raise ShapeError(f"unexpected call {meth}({sorted(kw)})")
    return defs, chain


SAMPLE_PTS = ([2, 3, 5], [-1, 2, -3])


def run_impl(desc: dict, fns: Fns, states, model: Any = None) -> dict:
    """-> {"tag", "src", "defs", "chain", "pts", "obs", "err"}  (tags as in Corr.v); `model`: generate for THIS Model object
    (a later step of a session) instead of building one from the description"""
    from mxlpy.meta.codegen_mxlpy import generate_mxlpy_code

    out: dict = {"tag": 5, "src": None, "defs": [], "chain": [], "pts": [], "obs": None, "err": None, "rebuilt": None}
    signal.signal(signal.SIGALRM, _alarm)
    signal.setitimer(signal.ITIMER_REAL, 30.0)
    try:
        m = build(desc, fns) if model is None else model
        out["source_model"] = m
        try:
            src = generate_mxlpy_code(m)
        except ValueError as e:
            out["tag"], out["err"] = 1, f"ValueError: {e}"
            return out
        out["src"] = src
        out["defs"], out["chain"] = parse_source(src)
        ns: dict = {}
        try:
            exec(compile(src, "<generated>", "exec"), ns)  # noqa: S102
            m2 = ns["create_model"]()
        except SyntaxError as e:
            out["tag"], out["err"] = 2, f"SyntaxError: {e}"
            return out
        except NameError as e:
            out["tag"], out["err"] = 3, f"NameError: {e}"
            return out
        except KeyError as e:
            out["tag"], out["err"] = 4, f"KeyError: {e}"
            return out
        out["rebuilt"] = m2
        for name, params in out["defs"]:
            pts = []
            for base in SAMPLE_PTS:
                a = base[: len(params)] if len(params) <= 3 else (base * 2)[: len(params)]
                pts.append((a, _ival(ns[name](*[float(x) for x in a]))))
            out["pts"].append(pts)
        out["obs"] = observe_model(m2, states)
        out["tag"] = 0
        return out
    except _Timeout:
        out["err"] = "no answer within 30 s"
        return out
    except OverflowError:
        out["tag"], out["err"] = -1, "value left the exactly representable range (case discarded)"
        return out
    except ShapeError as e:
        out["err"] = f"emitted text not understood: {e}"
        return out
    except Exception as e:  # noqa: BLE001
        out["err"] = f"{type(e).__name__}: {str(e)[:200]}"
        return out
    finally:
        signal.setitimer(signal.ITIMER_REAL, 0)


# ---------------------------------------------------------------------------------------
# (3) independent oracle: the property itself, source model vs rebuilt model, public API only
# ---------------------------------------------------------------------------------------


def oracle(desc: dict, r: dict, states) -> str | None:
    """None if the property holds on this case, else what is wrong.  "discard" for a case whose
    values leave the exact range."""
    can = translatable(desc)
    if r["tag"] == -1:
        return "discard"
    if not can:
        if r["tag"] == 1:
            return None
        return f"a function cannot be translated but generation did not raise ValueError (outcome tag {r['tag']}: {r['err']})"
    if r["tag"] == 1:
        return f"every function is translatable but generation raised: {r['err']}"
    if r["tag"] != 0:
        return f"generation succeeded but the generated source does not rebuild a model: {r['err']}"
    try:
        src_obs = observe_model(r["source_model"], states)
    except OverflowError:
        return "discard"
    except Exception as e:  # noqa: BLE001
        return f"source model cannot be queried ({type(e).__name__}: {e}) although the rebuilt one can"
    got = r["obs"]
    for key, what in (("names", "component names by kind"), ("ic", "initial conditions"), ("pv", "parameter values")):
        if src_obs[key] != got[key]:
            return f"{what} differ: source {src_obs[key]} rebuilt {got[key]}"
    for a, b in zip(src_obs["states"], got["states"]):
        for key, what in (("args", "derived values / arguments"), ("fluxes", "fluxes"), ("rhs", "derivatives")):
            if a[key] != b[key]:
                diff = [(x, y) for x, y in zip(a[key], b[key]) if x != y][:3]
                return f"{what} differ at t={a['t']} state={a['state']}: (source, rebuilt) = {diff}"
    return None


# ---------------------------------------------------------------------------------------
# (2) correspondence
# ---------------------------------------------------------------------------------------


def _eval_many(files: dict[str, str], timeout_s: int) -> dict:
    """common.coq_eval_many; shards that fail with "inconsistent assumptions" (a read-only dependency of the area was rebuilt
    by another process after this area was built) are evaluated once more after a rebuild."""
    res = common.coq_eval_many(AREA, files, timeout_s=timeout_s)
    stale = {n: t for n, t in files.items() if not res[n][0] and "nconsistent assumptions" in res[n][1]}
    if stale:
        common.coq_build(AREA)
        res.update(common.coq_eval_many(AREA, stale, timeout_s=timeout_s))
    return res


def coq_table() -> str:
    return (
        "Definition T : ftab := "
        + clist(
            f"mkFent {cstr(n)} {cn(s)} {cnat(ar)} {cbool(ok)} {clist(map(cnat, sel))} {clist(map(cn, fm))}"
            for n, s, ar, ok, sel, fm in table_full()
        )
        + ".\n"
    )


def coq_model(desc: dict) -> str:
    def valia(v):
        return f"Plain {cz(v[1])}" if v[0] == "plain" else f"IA {cn(v[1])} {clist(map(cn, v[2]))}"

    def coef(c):
        if c[0] == "stat":
            return f"CStat {cz(c[1])}"
        if c[0] == "named":
            return f"CDyn {cn(F_CONSTANT)} {clist([cn(c[1])])}"
        return f"CDyn {cn(c[1])} {clist(map(cn, c[2]))}"

    par = clist(f"({cn(n)}, {valia(v)})" for n, v in desc["par"])
    var = clist(f"({cn(n)}, {valia(v)})" for n, v in desc["var"])
    der = clist(f"({cn(n)}, mkDer {cn(f)} {clist(map(cn, a))})" for n, f, a in desc["der"])
    rxn = clist(
        f"({cn(n)}, mkRxn {cn(f)} {clist(map(cn, a))} {clist('(' + cn(c) + ', ' + coef(cf) + ')' for c, cf in st)})"
        for n, f, a, st in desc["rxn"]
    )
    return f"(mkModel {par} {var} {der} {rxn} [] [] [])"


def coq_pairs(p) -> str:
    return clist(f"({cn(k)}, {cz(v)})" for k, v in p)


def coq_op(op: tuple) -> str:
    def vref(v):
        return f"(VNum {cz(v[1])})" if v[0] == "num" else f"(VInit {cstr(v[1])} {clist(map(cn, v[2]))})"

    def cref(c):
        if c[0] == "num":
            return f"CNum {cz(c[1])}"
        if c[0] == "str":
            return f"CStrRef {cn(c[1])}"
        return f"CDerRef {cstr(c[1])} {clist(map(cn, c[2]))}"

    if op[0] == "var":
        return f"AddVariable {cn(op[1])} {vref(op[2])}"
    if op[0] == "par":
        return f"AddParameter {cn(op[1])} {vref(op[2])}"
    if op[0] == "der":
        return f"AddDerived {cn(op[1])} {cstr(op[2])} {clist(map(cn, op[3]))}"
    return f"AddReaction {cn(op[1])} {cstr(op[2])} {clist(map(cn, op[3]))} {clist('(' + cn(c) + ', ' + cref(cf) + ')' for c, cf in op[4])}"


def coq_case(desc: dict, r: dict) -> str:
    tag = r["tag"] if r["tag"] in (0, 1, 2, 3, 4) else 5
    defs = clist(f"({cstr(n)}, {clist(map(cstr, ps))})" for n, ps in r["defs"])
    ops = clist(coq_op(o) for o in r["chain"])
    pts = clist(clist(f"({clist(map(cz, a))}, {cz(v)})" for a, v in p) for p in r["pts"])
    if r["obs"] is None:
        names, ic, pv, sts = "[]", "[]", "[]", "[]"
    else:
        o = r["obs"]
        names = clist(clist(map(cn, l)) for l in o["names"])
        ic, pv = coq_pairs(o["ic"]), coq_pairs(o["pv"])
        sts = clist(
            f"({cz(s['t'])}, {coq_pairs(s['state'])}, {coq_pairs(s['args'])}, {coq_pairs(s['fluxes'])}, {coq_pairs(s['rhs'])})" for s in o["states"]
        )
    return f"(T, {coq_model(desc)},\n    mkObs {cn(tag)} {defs} {ops} {pts} {names} {ic} {pv} {sts})"


def corr_file(cases: list[str]) -> str:
    defs = "\n".join(f"Definition case_{i} : c11_case := {c}." for i, c in enumerate(cases))
    lst = clist(f"case_{i}" for i in range(len(cases)))
    return (
        "From Coq Require Import ZArith List String.\nFrom MxlBase Require Import ListX.\n"
        "From Core Require Import Model.\nFrom MxlGen Require Import SymRepr MxlGen Corr.\n"
        "Import ListNotations.\nOpen Scope string_scope.\n"
        + coq_table()
        + defs
        + f"\nDefinition cases : list c11_case := {lst}.\n"
        "Definition mismatches := filter_idx (fun c => negb (c11_case_ok c)) cases.\n"
        "Eval vm_compute in mismatches.\n"
    )


# ---------------------------------------------------------------------------------------
# recorded witnesses (known_findings.d/C11.json) and hand-written corpus
# ---------------------------------------------------------------------------------------

WITNESSES = {
    # v1 = moda.rate(x, k1) = x*k1 ; v2 = modb.rate(x, k2) = x+k2 : one def `rate` survives (the last)
    "C11-same-name-collapse": {
        "par": [(11, ("plain", 3)), (12, ("plain", 5))],
        "var": [(13, ("plain", 2))],
        "der": [],
        "rxn": [(14, 11, [13, 11], [(13, ("stat", -1))]), (15, 18, [13, 12], [(13, ("stat", 1))])],
    },
    # parameter n0012 := f_id(x) stored as init_f_id ; derived n0013 uses a function NAMED init_f_id (= -a)
    "C11-prefix-collision": {
        "par": [(12, ("ia", 0, [11]))],
        "var": [(11, ("plain", 2))],
        "der": [(13, 13, [11])],
        "rxn": [],
    },
    # f_sub(x, x): the emitted def repeats a parameter name
    "C11-duplicate-argument": {
        "par": [(11, ("plain", 3))],
        "var": [(12, ("plain", 2))],
        "der": [(13, 3, [12, 12])],
        "rxn": [],
    },
}

CORPUS = [
    # one function, three components, three argument lists (incl. time and a reversed pair)
    {"par": [(11, ("plain", 3))], "var": [(12, ("plain", 2)), (13, ("plain", -1))],
     "der": [(14, 3, [12, 13]), (15, 3, [13, 12]), (16, 3, [0, 11])],
     "rxn": [(17, 3, [14, 15], [(12, ("stat", 1)), (13, ("dyn", 3, [11, 16]))])]},
    # initial assignments on a variable and a parameter sharing a function; str coefficient; zero-argument function
    {"par": [(11, ("plain", 2)), (14, ("ia", 2, [11, 12]))], "var": [(12, ("plain", 1)), (13, ("ia", 2, [12, 11]))],
     "der": [(15, 8, [])],
     "rxn": [(16, 9, [12, 13, 14], [(12, ("named", 11)), (13, ("stat", -2))]), (17, 5, [15, 12, 14], [(13, ("dyn", 6, [14]))])]},
    # same name, same body in two modules: harmless
    {"par": [(11, ("plain", 2))], "var": [(12, ("plain", 3))], "der": [(13, 12, [12, 11]), (14, 19, [11, 12])],
     "rxn": [(15, 17, [13], [(12, ("stat", 1))]), (16, 0, [14], [(12, ("dyn", 0, [11]))])]},
    # <rxn>_stoich_<fn> beside a function of that very name with the same body position-wise different
    {"par": [(11, ("plain", 2))], "var": [(12, ("plain", 3))], "der": [(13, 15, [12])],
     "rxn": [(STOICH_RXN, 4, [12, 11], [(12, ("dyn", 0, [11]))])]},
    # duplicate arguments in an EARLIER use only: the last writer decides, the round trip works
    {"par": [(11, ("plain", 2))], "var": [(12, ("plain", 3))], "der": [(13, 4, [12, 12]), (14, 4, [12, 11])], "rxn": []},
    # refused functions
    {"par": [(11, ("plain", 2))], "var": [(12, ("plain", 3))], "der": [(13, 20, [12, 11])], "rxn": []},
    {"par": [(11, ("plain", 2))], "var": [(12, ("plain", 3))], "der": [], "rxn": [(13, 4, [12, 11], [(12, ("dyn", 21, [11, 11]))])]},
    {"par": [(11, ("plain", 2))], "var": [(12, ("plain", 3))], "der": [(13, 2, [12])], "rxn": []},
    # a repeated argument next to a component called like the first fresh parameter name, at a LATER position
    # (n0011, n0011, n0011_1): the def must not call its second parameter n0011_1   [shape of seeded change C11-1]
    {"par": [(13, ("plain", 2))], "var": [(11, ("plain", 2)), (10011, ("plain", 5)), (12, ("ia", 0, [13]))],
     "der": [(14, 5, [11, 11, 10011]), (15, 5, [12, 11, 10011])],
     "rxn": [(16, 9, [11, 11, 10011], [(11, ("stat", -2)), (12, ("stat", 1))])]},
    # ... also when the candidate after it is taken (n0011_1 and n0011_2 exist) and for "time"
    {"par": [(10011, ("plain", 3)), (20011, ("plain", 7))], "var": [(11, ("plain", 2)), (10000, ("plain", 4))],
     "der": [(14, 10, [11, 11, 20011]), (15, 5, [11, 10011, 11]), (17, 5, [0, 0, 10000])],
     "rxn": [(16, 5, [10011, 10011, 20011], [(11, ("stat", 1))]), (18, 0, [11], [(10000, ("stat", 1))])]},
    # two different functions called `excess` (a - b, b - a) applied to (x, y) and (y, x): the substituted
    # expressions are both x - y, the positional functions differ: two defs   [shape of seeded change C11-2]
    {"par": [(13, ("plain", 3))], "var": [(11, ("plain", 5)), (12, ("plain", 2))],
     "der": [(14, 23, [11, 12]), (15, 24, [12, 11])],
     "rxn": [(16, 4, [13, 14], [(11, ("stat", -1)), (12, ("stat", 1))]), (17, 4, [13, 15], [(11, ("dyn", 27, [13, 12])), (12, ("dyn", 28, [13]))])]},
    # components a, b, c; f_sub(a, b) used with [a, b], [b, c], [c, a]: model names that are the function's own
    # parameter names at OTHER positions must be put in simultaneously   [shape of seeded change C11-3]
    {"par": [(9006, ("plain", 2))], "var": [(9001, ("plain", 2)), (9002, ("plain", 7)), (9003, ("ia", 0, [9006]))],
     "der": [(11, 3, [9001, 9002]), (12, 3, [9002, 9003]), (13, 3, [9003, 9001]), (14, 5, [9002, 9003, 9001])],
     "rxn": [(15, 9, [9002, 9006, 9001], [(9001, ("stat", -1)), (9002, ("dyn", 7, [9002, 9001]))])]},
]


# second corpus (run after the random cases, with the rng of the `helpers` stream, so that the cases and states of the
# older streams stay what they were): the shapes of seeded change C11-6 -- a derived quantity and a rate function calling
# hill-like helpers with TWO defaulted trailing parameters and passing the first of them (objects 34, 35, 36, 40), next to
# the harmless relatives (one default 37, all omitted 38, all passed 39).  The shipped translator refuses all but 39:
# generation must raise; a translator that binds defaults must bind the LAST ones.
CORPUS_HELPERS = [
    {"par": [(11, ("plain", 4)), (12, ("plain", 3))], "var": [(13, ("plain", 3)), (14, ("plain", 2))],
     "der": [(15, 34, [13, 14, 12])],
     "rxn": [(16, 35, [13, 11, 12], [(13, ("stat", -1)), (14, ("stat", 1))]), (17, 4, [14, 12], [(14, ("stat", -1))])]},
    {"par": [(11, ("plain", 2))], "var": [(12, ("plain", 3)), (13, ("plain", 5))],
     "der": [(14, 36, [12, 11])], "rxn": [(15, 40, [13, 12], [(12, ("stat", 1)), (13, ("dyn", 36, [11, 12]))])]},
    {"par": [(11, ("plain", 2)), (14, ("ia", 34, [11, 12, 13]))], "var": [(12, ("plain", 3)), (13, ("plain", -2))],
     "der": [], "rxn": [(15, 0, [14], [(12, ("stat", 1))])]},
    {"par": [(11, ("plain", 2))], "var": [(12, ("plain", 3))], "der": [(13, 37, [12, 11])], "rxn": [(14, 0, [13], [(12, ("stat", 1))])]},
    {"par": [(11, ("plain", 2))], "var": [(12, ("plain", 3))], "der": [(13, 38, [12])], "rxn": [(14, 2, [13, 11], [(12, ("stat", -1))])]},
    {"par": [(11, ("plain", 2))], "var": [(12, ("plain", 3))], "der": [(13, 39, [12, 11]), (14, 39, [11, 13])],
     "rxn": [(15, 39, [14, 12], [(12, ("stat", 2))])]},
]


# third corpus (own streams, after everything else).  Shapes of seeded change C11-8: one function of module c serving two
# components with different arguments (its parameters are named like numbers of the module), a function of module d whose
# local variable is named like a number of the module and is COMPUTED.
CORPUS_SHADOW = [
    {"par": [(11, ("plain", 7)), (12, ("plain", 3)), (13, ("plain", 2)), (14, ("ia", 2, [12, 12]))],
     "var": [(15, ("plain", 2)), (16, ("ia", 2, [15, 15]))],
     "der": [(17, 44, [16, 13, 12])],
     "rxn": [(18, 41, [15, 12], [(15, ("stat", -1)), (16, ("stat", 1))]), (19, 41, [16, 14], [(16, ("stat", -1))])]},
    {"par": [(11, ("plain", 2)), (12, ("plain", 5))], "var": [(13, ("plain", 3)), (14, ("plain", -1))],
     "der": [(15, 45, [13, 11]), (16, 42, [13, 14, 12]), (17, 46, [15, 11])],
     "rxn": [(18, 43, [14, 13], [(13, ("stat", 1)), (14, ("dyn", 42, [11, 12, 13]))])]},
]
# Shapes of seeded change C11-7: generate, rebind the helper the rate function calls, generate again (the same Model object;
# a newly built one), also back to the first helper and with a module-level NUMBER rebound.
CORPUS_SESSION = [
    {"base": {"par": [(11, ("plain", 2)), (12, ("plain", 4))], "var": [(13, ("plain", 3)), (14, ("plain", 5))],
              "der": [(15, S0 + 3, [13, 11])],
              "rxn": [(16, S0, [13, 11], [(13, ("stat", -1)), (14, ("dyn", 2, [15, 12]))]), (17, 4, [14, 12], [(14, ("stat", -1))])]},
     "binds": [{"hsat": 0, "hone": 0, "kab": 0}, {"hsat": 1, "hone": 0, "kab": 0}, {"hsat": 0, "hone": 0, "kab": 0}], "reuse": True},
    {"base": {"par": [(11, ("plain", 3))], "var": [(12, ("plain", 2)), (13, ("plain", -2))],
              "der": [(14, S0 + 9, [12, 11]), (15, S0 + 12, [13, 12])],
              "rxn": [(16, S0 + 6, [14], [(12, ("stat", 1)), (13, ("stat", -2))])]},
     "binds": [{"hsat": 2, "hone": 1, "kab": 1}, {"hsat": 2, "hone": 2, "kab": 1}, {"hsat": 2, "hone": 2, "kab": 2}], "reuse": False},
]


def _tupled(desc: dict) -> dict:
    """JSON round trip turns tuples into lists; normalise back."""

    def valia(v):
        return ("plain", v[1]) if v[0] == "plain" else ("ia", v[1], list(v[2]))

    def coef(c):
        return (c[0], c[1]) if c[0] in ("stat", "named") else ("dyn", c[1], list(c[2]))

    return {
        "par": [(n, valia(v)) for n, v in desc["par"]],
        "var": [(n, valia(v)) for n, v in desc["var"]],
        "der": [(n, f, list(a)) for n, f, a in desc["der"]],
        "rxn": [(n, f, list(a), [(c, coef(cf)) for c, cf in st]) for n, f, a, st in desc["rxn"]],
    }


def _session_tupled(se: dict) -> dict:
    return {"base": _tupled(se["base"]), "binds": [dict(b) for b in se["binds"]], "reuse": bool(se["reuse"])}


def _session_refs(base: dict) -> list[str]:
    """what (helpers / numbers of the session module) the functions of the model refer to"""
    return sorted({SESSION_REF[(s["f"] - S0) // 3] for s in slots_of(base) if s["f"] >= S0})


def _touch(model: Any, base: dict) -> Any:
    """The SAME Model object at a later step of a session: a value-preserving public edit (a plain parameter is set to the
    value it has) makes the model drop what it computed before the rebinding (initial assignments, derived parameters), as
    any further work on the model would."""
    for n, v in base["par"]:
        if v[0] == "plain":
            model.update_parameter(nm(n), v[1])
            break
    return model


def describe(desc: dict) -> dict:
    """Human-readable form of a case for replay files."""
    tab = table()

    def fn(f):
        tag = "" if f < N_LIB else _EXTRA[f - N_LIB][0]
        mod = "harness.fnlib" if f < N_LIB else {"x": "mxlpy.fns"}.get(tag, "mod" + tag)
        if tag == "s":
            j, v = divmod(f - S0, 3)
            caller = SESSION_SRC.split(f"def {SESSION_CALLERS[j]}(")[1].split("\n\n")[0]
            return f"mods: def {SESSION_CALLERS[j]}(" + " ".join(caller.split()) + f"  # with {SESSION_VERSIONS[SESSION_REF[j]][v]}"
        if f in SHADOW_SRC or tag in ("c", "d"):
            own, body = obj_source(f)
            text = SHADOW_SRC.get(f) or f"def {tab[f][0]}({', '.join(own)}): return {body}"
            return f"{mod}: " + " ".join(text.split()) + "  # module-level numbers: " + "; ".join(MOD_HEADER[tag].split("\n")[:-2])
        if f in CUSTOM_SRC:
            return f"{mod}: " + " ".join(CUSTOM_SRC[f].split()) + "  # helpers: " + "; ".join(
                " ".join(h.split()) for h in HELPERS_SRC.strip().split("\n\n\n")
            ) + f"  [translated by this tree: {tab[f][3]}]"
        if f < N_LIB:
            params, body = BODIES[tab[f][1]]
        else:
            params, body = obj_source(f)
        return f"{mod}.{tab[f][0]}({', '.join(params)}) = {body}"

    return {"functions": {str(s["f"]): fn(s["f"]) for s in slots_of(desc)}}


# ---------------------------------------------------------------------------------------
# the check
# ---------------------------------------------------------------------------------------

FINDING_TEXT = {
    "C11-same-name-collapse": "two different functions sharing a __name__ collapse into one emitted def: the rebuilt model silently computes the wrong function",
    "C11-prefix-collision": "a function literally named init_<f> / <rxn>_stoich_<f> collides with the generated key of another slot: the rebuilt model silently computes the wrong function",
    "C11-duplicate-argument": "a component passing the same model name twice makes the emitted def repeat a parameter: generation succeeds, the generated source is a SyntaxError",
    c11_emit.FIND_NUM: "plain numbers are written with 15 significant digits: the rebuilt model has different initial values / parameter values / stoichiometric coefficients",
    c11_emit.FIND_MATH: "a function whose translation refers to the math module is emitted without `import math`: generation succeeds, the rebuilt model raises NameError when queried",
    c11_emit.FIND_UNITS: "a variable / parameter with a unit is emitted as add_variable(.., value=.., unit=<bare name>): generation succeeds, the generated source raises TypeError / NameError",
}


def check(run: Run) -> None:
    thorough = run.tier == "thorough"
    facts = gen()
    run.coverage["gen_facts"] = facts
    run.rule = (
        "models: 2-6 parameters/variables + 2-7 derived/reactions/initial assignments (acyclic, complete), functions drawn "
        "from harness/fnlib.py and two generated modules with clashing __name__s; streams: plain, one function reused under "
        "different argument lists, same-name twins, init_/<rxn>_stoich_ prefix collisions, duplicate arguments, refused "
        "functions (subscript, lambda, wrong arity), mixed; lookalike (a repeated argument next to components literally called "
        "<x>_1 / <x>_2 / <x>_1_1, the fresh parameter names of the generator, at earlier and later positions), formals "
        "(components called like the functions' own parameter names, passed rotated / swapped / chained), twins (different "
        "same-named functions whose substituted expressions coincide: a-b on (x,y) with b-a on (y,x), other arity, equal on a "
        "repeated argument only); hand-written corpus (incl. the shapes of seeded changes C11-1..3) first.  A case is non-trivial "
        "if it has >=1 function slot; distinct by content.  Cases whose values leave |v|<2^40 are discarded and counted.  "
        "Emitted-text stream (own rng, oracle only): models of non-short binary64 numbers (stored values compared with ==), "
        "functions translated to math.* and units (generation raises, or the source rebuilds the same values and units); "
        "non-finite stream (own rng): initial values / parameter values / numeric coefficients equal to inf, -inf, nan in models whose "
        "functions are polynomial or use math.pi (stored numbers and answers compared with NaN = NaN).  Helpers stream (own rng, after "
        "the older cases): rate / derived / coefficient / initial-assignment functions whose body calls a helper with defaulted trailing "
        "parameters (first of two defaults passed, one default omitted, all omitted, all passed, literal passed); whether the tree "
        "translates such an object is observed from fn_to_sympy once per run: refused => generation must raise, accepted => the "
        "rebuilt model must behave like the source.  Shadow stream (own rng): functions of generated modules that keep int / float numbers "
        "under the names of the functions' parameters (a, b, c) or local variables (w, n), one function under one or two argument lists.  "
        "Session stream (own rng): 2-4 generations in this process on a fresh module object; between two generations a helper the model's "
        "functions call (hsat, hone) or a module-level number they read (KA, KB) is rebound while the function objects stay the same; the "
        "same Model object (after a value-preserving update_parameter) or a newly built one; every generation is judged against the model as it "
        "is at that moment.  Names stream (own rng, harness/c11_names.py): generated straight-line functions in modules with numbers under the "
        "functions' own names; one-derived models through generate / exec."
    )
    proofs_ok = run.check_proofs(AREA, PROPS)
    if run.broken_obligations and all(b.startswith("coqchk rejected") and "nconsistent assumptions" in b for b in run.broken_obligations):
        # thorough tier only: coq/core (a read-only dependency, owned by C01/C02/C13) was rebuilt by another process between
        # the build of this area and the independent checker's pass over the .vo files ("Inconsistent assumptions over
        # module Core.GenSortFacts").  A genuine rejection is deterministic: rebuild on the quiescent files, re-run the
        # checker once and keep that verdict.
        import time

        first = list(run.broken_obligations)
        run.broken_obligations.clear()
        time.sleep(3)
        common.coq_build(AREA)
        run._coqchk(AREA, PROPS)  # noqa: SLF001
        proofs_ok = not run.broken_obligations
        run.note(f"coqchk was re-run once after a rebuild, because of: {first[0][:160]} -> {'accepted' if proofs_ok else 'rejected again'}")
    if facts.get("register") == "RegFresh":
        run.note("the tree stores generated definitions with _register_fn (RegFresh): covered by theorem C11_roundtrip (full statement, no guard)")
    elif facts.get("register") == "RegOverwrite":
        run.note(
            "the tree stores generated definitions with functions[key] = ... (RegOverwrite): covered by C11_roundtrip_partial under its "
            "guards; outside them the three recorded findings apply (C11_*_refuted)"
        )
    run.assumptions += [
        "Coq 8.16.1 kernel + vm_compute",
        "SymPy's structural equality of two positional functions (_positional_fn(..) == _positional_fn(..)) implies that they are the "
        "same function: HYPOTHESIS same_fn of C11_roundtrip; the executable instance compares body id + positions of the arguments, "
        "which coincides with SymPy on the polynomial function library used here (checked by the correspondence of the emitted names)",
        "per-function translation soundness (fn_to_sympy + SymPy's printer: the emitted body evaluates to the function's value "
        "at the substituted arguments) is a HYPOTHESIS of the theorems (property C06) and is built into the executable instance; "
        "it is exercised here on polynomial functions only",
        "CPython: exec of a module (def binding, duplicate-argument SyntaxError, name resolution), positional calls -- modelled",
        "Model.add_* as id check + append; queries of the rebuilt model through Core's create_cache/get_args/get_fluxes/get_rhs model (C01/C13)",
        "fact extractor harness/c11_extract.py (fail-closed ast matcher, body shapes in harness/c11_shapes.py)",
        "correspondence harness: reader of the emitted text (ast), literal printer, coqc output parser",
        "not modelled: units, binary64 numbers that are not small integers, math.* in function bodies (the Z-valued model takes a written number "
        "for the number; which printer the tree uses is the regenerated fact gf_emit; these parts are judged by the oracle of harness/c11_emit.py only), "
        "surrogates/readouts/data (not emitted by the real code), names that are not Python identifiers",
        "_parameter_names is modelled on strings (SymRepr.parameter_names) and compared text for text with the emitted parameter lists; "
        "CPython binding the parameters of a def left to right is [sbind]",
        "import lines: the emitted text is modelled as the modules each of its five sections mentions (Imports.v); how a number / unit is "
        "written (math.inf, math.nan, float('-inf'), sympy.physics.units.<name>) is modelled, what SymPy's printer writes into function "
        "bodies is read from the generated file; the substring test f'{module}.' in body is taken as 'the section mentions the module'",
        "binding of nested calls: CPython's positional call with right-aligned defaults is [py_bind] (modelled); translatability of the "
        "helper-calling function objects is observed from fn_to_sympy itself (the translator is external to C11: property C06/C07)",
        "resolution of names: CPython's scoping (a name assigned anywhere in a function is local) is [py_call] of NameScope.v (modelled); the "
        "model covers straight-line bodies over + - * with integer-valued numbers; which module numbers the scan finds (floats / ints too) is "
        "read from the predicate in the source (harness/c11_names.py scan_kind)",
        "several generations in one process: a module state is a `world`, per-function translation soundness is assumed in every world "
        "(C11_every_generation_of_a_session); that the translator looks at the current world is the syntactic fact gen_scan_mode, validated by "
        "the session stream",
    ]

    rng = common.rng_for(run.seed, "c11")
    fns = Fns()
    try:
        _run_cases(run, rng, fns, thorough, proofs_ok)
    finally:
        fns.close()


def _run_cases(run: Run, rng, fns: Fns, thorough: bool, proofs_ok: bool) -> None:
    # hand-written corpus, then the witnesses of the three defects of the snapshot's generator (recorded findings
    # there; after the repair they are ordinary cases, so a reappearance is reported with exactly these inputs)
    cases: list[tuple[str, dict]] = [("corpus", _tupled(d)) for d in CORPUS]
    cases += [("witness", _tupled(d)) for d in WITNESSES.values()]
    n_random = 2800 if thorough else 320
    weights = [3, 3, 2, 1.5, 1.5, 1.5, 1.5, 2, 2, 2, 2]
    for _ in range(n_random):
        kind = rng.choices(KINDS, weights=weights)[0]
        cases.append((kind, gen_desc(rng, kind, max_comp=9 if (thorough and rng.random() < 0.2) else 6)))
    # functions calling helpers with defaulted parameters: own corpus + own stream + own rng, AFTER the older cases
    rng_h = common.rng_for(run.seed, "c11-helpers")
    first_helper_case = len(cases)
    cases += [("corpus_helpers", _tupled(d)) for d in CORPUS_HELPERS]
    for _ in range(260 if thorough else 40):
        cases.append(("helpers", gen_helpers(rng_h)))

    # closing pass 3, again own corpora + own streams + own rngs AFTER the older cases:
    #   shadow   parameters / local variables named like module-level numbers of the defining module (seeded C11-8)
    #   session  several generations in this one process with helpers / numbers of the module rebound in between (seeded C11-7);
    #            every step is an ordinary case (the model AS IT IS at that step), the steps of a session follow each other
    rng_sh = common.rng_for(run.seed, "c11-shadow")
    first_shadow_case = len(cases)
    cases += [("corpus_shadow", _tupled(d)) for d in CORPUS_SHADOW]
    for _ in range(170 if thorough else 30):
        cases.append(("shadow", gen_shadow(rng_sh)))
    rng_se = common.rng_for(run.seed, "c11-session")
    first_session_case = len(cases)
    sessions = [_session_tupled(d) for d in CORPUS_SESSION] + [gen_session(rng_se) for _ in range(130 if thorough else 24)]
    step_of: dict[int, tuple[int, int]] = {}
    for si, se in enumerate(sessions):
        for k, b in enumerate(se["binds"]):
            step_of[len(cases)] = (si, k)
            cases.append(("session", versioned(se["base"], b)))
    session_states: dict[int, list] = {}
    session_model: Any = None
    session_changes = {"generations": 0, "after_a_rebinding_of_something_the_model_uses": 0, "same_model_object": 0}

    kinds: dict[str, int] = {}
    tags: dict[str, int] = {}
    coq_cases: list[str] = []
    coq_idx: list[int] = []  # index into cases for each coq case
    failures: list[tuple[int, str]] = []
    results: dict[int, dict] = {}
    all_states: dict[int, list] = {}
    discarded = 0
    reuse_cases = clash_ok_cases = 0
    for idx, (kind, desc) in enumerate(cases):
        states = states_for(
            desc, rng if idx < first_helper_case else rng_h if idx < first_shadow_case else rng_sh if idx < first_session_case else rng_se
        )
        all_states[idx] = states
        model = None
        if idx in step_of:
            si, k = step_of[idx]
            se = sessions[si]
            if k == 0:
                fns.new_session()
                session_model = None
            fns.rebind(se["binds"][k])
            session_states.setdefault(si, []).append(states)
            session_changes["generations"] += 1
            if k and any(se["binds"][k][w] != se["binds"][k - 1][w] for w in _session_refs(se["base"])):
                session_changes["after_a_rebinding_of_something_the_model_uses"] += 1
            if k and se["reuse"] and session_model is not None:
                model = _touch(session_model, se["base"])
                session_changes["same_model_object"] += 1
        r = run_impl(desc, fns, states, model)
        if idx in step_of and step_of[idx][1] == 0:
            session_model = r.get("source_model")
        bad = oracle(desc, r, states)
        if bad == "discard" or r["tag"] == -1:
            discarded += 1
            continue
        results[idx] = r
        kinds[kind] = kinds.get(kind, 0) + 1
        tname = {0: "rebuilt", 1: "generation-raised", 2: "SyntaxError", 3: "NameError", 4: "KeyError"}.get(r["tag"], "other")
        tags[tname] = tags.get(tname, 0) + 1
        sl = slots_of(desc)
        run.count_case(desc, nontrivial=len(sl) >= 1)
        fcount: dict[int, set] = {}
        for s in sl:
            fcount.setdefault(s["f"], set()).add(tuple(s["args"]))
        if r["tag"] == 0 and bad is None:
            if any(len(v) > 1 for v in fcount.values()):
                reuse_cases += 1
            names = [table()[s["f"]][0] for s in sl]
            if len({s["f"] for s in sl}) > len(set(names)):
                clash_ok_cases += 1
        if bad:
            failures.append((idx, bad))
        coq_cases.append(coq_case(desc, r))
        coq_idx.append(idx)
        if r["tag"] == 0 and len(sl) >= 3:
            run.sample({"desc": desc, "source": r["src"], "rebuilt_args_at_state0": r["obs"]["states"][0]["args"]}, cap=2)
    run.coverage["input_distribution"] = {
        "streams": kinds,
        "impl_outcomes": tags,
        "discarded_out_of_exact_range": discarded,
        "rebuilt_ok_with_one_function_under_several_argument_lists": reuse_cases,
        "rebuilt_ok_with_distinct_function_objects_sharing_a_name": clash_ok_cases,
        "oracle_failures_before_classification": len(failures),
        "helper_calling_objects_translated_by_this_tree": {f"{f}:{table()[f][0]}": table()[f][3] for f in HELPER_OBJS},
        "sessions": {"sessions": len(sessions), **session_changes},
    }

    # correspondence inside Coq
    per = 120
    files = {f"c11_{k:04d}": corr_file(list(chunk)) for k, chunk in enumerate(common.chunks(coq_cases, per))}
    res = _eval_many(files, 900)
    mismatching: set[int] = set()
    evaluated: set[int] = set()
    for k, name in enumerate(sorted(files)):
        ok, out = res[name]
        lists = common.parse_eval_list(out) if ok else None
        chunk_idx = coq_idx[k * per : (k + 1) * per]
        if not ok or not lists:
            run.broken_correspondence.append(f"correspondence shard {name} did not evaluate: {out[-300:]}")
            continue
        evaluated.update(chunk_idx)
        for j in lists[-1]:
            gi = chunk_idx[j]
            mismatching.add(gi)
            if len(run.broken_correspondence) < 5:
                r = results[gi]
                run.broken_correspondence.append(
                    f"model/implementation disagree on case #{gi} ({cases[gi][0]}): desc={cases[gi][1]} impl tag={r['tag']} err={r['err']} defs={r['defs']}"
                )
    run.coverage["traces_validated_against_impl"] = len(evaluated) - len(mismatching)
    run.coverage["correspondence_mismatches"] = len(mismatching)

    # classify oracle failures: a recorded finding iff outside the guard AND the faithful model agrees
    known_counts: dict[str, int] = {}
    n_viol = 0
    n_sess_viol = 0
    recorded = {f.get("id") for f in common.load_known_findings("C11")}
    for idx, bad in failures:
        kind, desc = cases[idx]
        gv = guard_violations(desc)
        if gv and gv <= recorded and translatable(desc) and idx in evaluated and idx not in mismatching:
            for g in gv:
                known_counts[g] = known_counts.get(g, 0) + 1
            continue
        if idx in step_of:
            if n_sess_viol < 3:
                n_sess_viol += 1
                si, k = step_of[idx]
                se = sessions[si]
                run.violation(
                    f"round trip through generate_mxlpy_code, generation {k + 1} of a session in one process "
                    f"(module-level helpers / numbers rebound between the generations: {se['binds'][: k + 1]}): {bad}",
                    {"kind": "session", "base": se["base"], "binds": se["binds"][: k + 1], "reuse": se["reuse"],
                     "states": [[[t, sorted(s.items())] for t, s in sts] for sts in session_states[si][: k + 1]],
                     "what": bad, "failing_generation": k + 1, "readable": describe(desc), "source": results[idx]["src"]},
                )
            continue
        if n_viol < 4:
            n_viol += 1
            run.violation(
                f"round trip through generate_mxlpy_code: {bad}",
                {"kind": "roundtrip", "desc": desc, "stream": kind, "states": [[t, sorted(s.items())] for t, s in all_states[idx]],
                 "what": bad, "outside_recorded_guards": sorted(gv), "readable": describe(desc), "source": results[idx]["src"]},
            )
    # the text around the definitions: plain binary64 numbers, math imports, units (oracle only)
    emod = c11_emit.Mod()
    try:
        erng = common.rng_for(run.seed, "c11-emit")
        especs = [dict(w) for w in c11_emit.WITNESSES.values()] + c11_emit.gen_specs(erng, 500 if thorough else 90)
        # non-finite numbers outside the functions (seeded change C11-5): the demo's shape first, then an own rng stream
        especs += [dict(w) for w in c11_emit.NONFINITE_CORPUS]
        especs += c11_emit.gen_nonfinite(common.rng_for(run.seed, "c11-nonfinite"), 150 if thorough else 30)
        esub: dict[str, int] = {}
        efail = 0
        for spec in especs:
            bad, src = c11_emit.run_spec(spec, emod)
            run.count_case(spec, nontrivial=True)
            esub[spec["sub"]] = esub.get(spec["sub"], 0) + 1
            if not bad:
                continue
            efail += 1
            fid = c11_emit.finding_of(spec)
            if fid in recorded:
                known_counts[fid] = known_counts.get(fid, 0) + 1
                continue
            if n_viol < 6:
                n_viol += 1
                run.violation(
                    f"round trip through generate_mxlpy_code ({spec['sub']}): {bad}",
                    {"kind": "emit", "spec": spec, "what": bad, "source": src},
                )
        run.coverage["input_distribution"]["emitted_text_cases"] = esub
        # correspondence of the import lines and of the binding of nested calls (Imports.v / CallDefaults.v / TextCorr.v)
        icases: list[tuple[dict, str]] = []
        for spec in especs:
            try:
                ic = c11_emit.import_case(spec, emod)
            except Exception as e:  # noqa: BLE001
                run.broken_correspondence.append(f"import lines of {spec}: {type(e).__name__}: {e}")
                continue
            if ic is not None:
                icases.append((spec, ic))
        ccases = [(*HELPER_CALLS[f], bool(table()[f][3])) for f in HELPER_OBJS]
        tres = _eval_many(
            {"c11_imports": c11_emit.imports_corr_file([c for _s, c in icases]), "c11_calls": c11_emit.calls_corr_file(ccases)}, 600
        )
        for name, what in (("c11_imports", icases), ("c11_calls", ccases)):
            ok, out = tres[name]
            lists = common.parse_eval_list(out) if ok else None
            if not ok or not lists:
                run.broken_correspondence.append(f"correspondence shard {name} did not evaluate: {out[-300:]}")
                continue
            for j in lists[-1][:3]:
                if name == "c11_imports":
                    run.broken_correspondence.append(f"import lines: model/implementation disagree on {what[j][0]}: observed {what[j][1]}")
                else:
                    f = HELPER_OBJS[j]
                    run.broken_correspondence.append(
                        f"binding of a nested call: model/implementation disagree on object {f} ({table()[f][0]}): "
                        f"(parameters, defaults, arguments, translated) = {what[j]}"
                    )
            run.coverage[f"{name}_cases"] = len(what)
            run.coverage[f"{name}_mismatches"] = len(lists[-1])
        run.coverage["input_distribution"]["emitted_text_failures_before_classification"] = efail
        for f in common.load_known_findings("C11"):
            w = f.get("witness", {})
            if w.get("kind") != "emit":
                continue
            bad, _src = c11_emit.run_spec(w["spec"], emod)
            if bad:
                run.known(f.get("id"), f"{FINDING_TEXT.get(f.get('id'), f.get('what_fails', ''))} [{bad[:160]}]")
            else:
                run.note(f"recorded finding {f.get('id')} no longer reproduces on its witness")
    finally:
        emod.close()
    # how the translator resolves a NAME (NameScope.v): functions whose parameters / local variables are named like
    # module-level numbers of their module; correspondence shard c11_names + round-trip oracle (harness/c11_names.py)
    nmods = c11_names.Mods()
    try:
        nrng = common.rng_for(run.seed, "c11-names")
        found = c11_names.scan_kind()
        groups = [(list(nums), list(fs)) for nums, fs in c11_names.CORPUS] + [c11_names.gen_module(nrng) for _ in range(60 if thorough else 10)]
        ncases: list[str] = []
        ncnt: dict[str, int] = {}
        n_names_viol = 0
        for nums, fs in groups:
            try:
                cs, bad_n, cnt = c11_names.run_one(nmods, nums, fs, found)
            except Exception as e:  # noqa: BLE001
                run.broken_correspondence.append(f"names stream: {type(e).__name__}: {str(e)[:200]} on module numbers {nums}")
                continue
            ncases += cs
            for k, v in cnt.items():
                ncnt[k] = ncnt.get(k, 0) + v
            for i, fd in enumerate(fs):
                run.count_case({"names": nums, "fn": fd}, nontrivial=True)
            for b in bad_n:
                if n_names_viol < 2:
                    n_names_viol += 1
                    run.violation(
                        f"round trip through generate_mxlpy_code of a function whose names meet module-level numbers {b['numbers']}: "
                        f"{' '.join(b['function'].split())} at {b['args']}: source model {b['source_value']}, rebuilt model {b['rebuilt_value']} ({b['outcome']})",
                        b,
                    )
        ncnt["module_numbers_found_by_the_scan_of_this_tree"] = found  # type: ignore[assignment]
        run.coverage["input_distribution"]["names_stream"] = ncnt
        nres = _eval_many({"c11_names": c11_names.corr_file(ncases)}, 600)
        ok, out = nres["c11_names"]
        lists = common.parse_eval_list(out) if ok else None
        if not ok or not lists:
            run.broken_correspondence.append(f"correspondence shard c11_names did not evaluate: {out[-300:]}")
        else:
            for j in lists[-1][:3]:
                run.broken_correspondence.append(f"resolution of names: model/implementation disagree on {ncases[j][:400]}")
            run.coverage["c11_names_cases"] = len(ncases)
            run.coverage["c11_names_mismatches"] = len(lists[-1])
    finally:
        nmods.close()
    run.coverage["failures_matching_recorded_findings"] = known_counts
    # a correspondence mismatch with no oracle failure: look at the mismatching cases' neighbourhood is
    # already covered (the oracle ran on every case); Run.finish reports it as no-failing-input-found

    # recorded witnesses
    for f in common.load_known_findings("C11"):
        fid = f.get("id")
        w = f.get("witness", {}).get("desc")
        if not w:
            continue
        desc = _tupled(w)
        states = [(0, {n: v[1] if v[0] == "plain" else 1 for n, v in desc["var"]}), (1, {n: 2 for n, _ in desc["var"]})]
        r = run_impl(desc, fns, states)
        bad = oracle(desc, r, states)
        if bad and bad != "discard":
            run.known(fid, f"{FINDING_TEXT.get(fid, f.get('what_fails', ''))} [{bad[:160]}]")
        else:
            run.note(f"recorded finding {fid} no longer reproduces on its witness")
    if not proofs_ok:
        run.note("proof obligations broken; the oracle was applied to every generated model to find a concrete failing input")


def replay(rep: dict) -> int:
    r = rep["replay"]
    if r.get("kind") == "emit":
        common.quiet_impl_logging()
        emod = c11_emit.Mod()
        try:
            bad, src = c11_emit.run_spec(r["spec"], emod)
            print("generated source:\n", src)
            print("oracle:", bad or "property holds on this input")
            return 1 if bad else 0
        finally:
            emod.close()
    if r.get("kind") == "names":
        common.quiet_impl_logging()
        return c11_names.replay(r)
    if r.get("kind") == "session":
        common.quiet_impl_logging()
        base = _tupled(r["base"])
        fns = Fns()
        try:
            fns.new_session()
            model = None
            code = 0
            for k, binding in enumerate(r["binds"]):
                fns.rebind(binding)
                desc = versioned(base, binding)
                states = [(t, {int(n): v for n, v in st}) for t, st in r["states"][k]]
                reuse = model if (k and r.get("reuse") and model is not None) else None
                res = run_impl(desc, fns, states, _touch(reuse, base) if reuse is not None else None)
                if k == 0:
                    model = res.get("source_model")
                bad = oracle(desc, res, states)
                print(f"--- generation {k + 1}, module bindings {binding}; functions: {describe(desc)['functions']}")
                print("generated source:\n", res["src"])
                print("outcome tag:", res["tag"], res["err"] or "")
                print("oracle:", bad or "property holds at this generation")
                if bad and bad != "discard":
                    code = 1
            return code
        finally:
            fns.close()
    if r.get("kind") != "roundtrip":
        print("nothing to replay: ", rep.get("what"))
        return 1
    common.quiet_impl_logging()
    desc = _tupled(r["desc"])
    states = [(t, {int(k): v for k, v in s}) for t, s in r["states"]]
    fns = Fns()
    try:
        res = run_impl(desc, fns, states)
        bad = oracle(desc, res, states)
        print("generated source:\n", res["src"])
        print("outcome tag:", res["tag"], res["err"] or "")
        print("oracle:", bad or "property holds on this input")
        print("outside recorded guards:", sorted(guard_violations(desc)))
        return 1 if bad and bad != "discard" else 0
    finally:
        fns.close()
