"""C01 -- derivatives equal stoichiometry x rates over fully resolved values; all entry points agree.

Tie: (1) GenModelFacts.v regenerated from the source (accumulation shape of __call__ /
_get_right_hand_side / _get_args), pinned in PropsC01.v; (2) in-Coq correspondence of
create_cache + call/get_rhs/get_args/get_fluxes/get_stoichiometries on generated models x states;
(3) independent oracle (harness/modelgen.Oracle: demand-driven recursion over exact integers)."""

from __future__ import annotations

import ast

import numpy as np
import pandas as pd

from harness import common, modelgen
from harness.common import Run, clist, cn, cz
from harness.modelgen import Oracle, Unbounded, nm, un

AREA = "core"
PROPS = "PropsC01.v"
PROOF_AREA = "coreproofs"


# ---------------------------------------------------------------------------------------
# facts
# ---------------------------------------------------------------------------------------

_CALL_SHAPE = """if (cache := self._cache) is None:
    cache = self._create_cache()
vars_d: dict[str, float] = dict(zip(cache.var_names, variables, strict=True))
dependent: dict[str, float] = self._get_args(variables=vars_d, time=time, cache=cache)
dxdt = dict.fromkeys(cache.var_names, 0.0)
for k, stoc in cache.stoich_by_cpds.items():
    for flux, n in stoc.items():
        dxdt[k] += n * dependent[flux]
for k, sd in cache.dyn_stoich_by_cpds.items():
    for flux, dv in sd.items():
        n = dv.calculate(dependent)
        dxdt[k] += n * dependent[flux]
return tuple((dxdt[i] for i in cache.var_names))"""

_RHS_SHAPE = """dxdt = pd.Series(np.zeros(len(var_names), dtype=float), index=var_names)
for k, stoc in cache.stoich_by_cpds.items():
    for flux, n in stoc.items():
        dxdt[k] += n * args[flux]
for k, sd in cache.dyn_stoich_by_cpds.items():
    for flux, dv in sd.items():
        n = dv.fn(*(args[i] for i in dv.args))
        dxdt[k] += n * args[flux]
return dxdt"""

_GETARGS_SHAPE = """args = cache.all_parameter_values | variables | self._data
args['time'] = time
containers = self._derived | self._reactions | self._surrogates
for name in cache.dyn_order:
    containers[name].calculate_inpl(name, args)
for k in self._data:
    args.pop(k)
return cast(dict[str, float], args)"""

# public wrappers (default state = get_initial_conditions() AT THE GIVEN TIME; selections of the one table) and the
# time-course forms (row by row through _get_args / _get_right_hand_side), as modelled in coq/core/QueryTC.v
_PUB_SHAPES = {
    'get_args': 'if (cache := self._cache) is None:\n    cache = self._create_cache()\nraw = self._get_args(variables=self.get_initial_conditions() if variables is None else variables, time=time, cache=cache)\nif include_readouts:\n    for name, ro in self._readouts.items():\n        ro.calculate_inpl(name, raw)\nargs = pd.Series(raw, dtype=float)\nreturn args.loc[self.get_arg_names(include_time=include_time, include_variables=include_variables, include_parameters=include_parameters, include_derived_parameters=include_derived_parameters, include_derived_variables=include_derived_variables, include_reactions=include_reactions, include_surrogate_variables=include_surrogate_variables, include_surrogate_fluxes=include_surrogate_fluxes, include_readouts=include_readouts)]',
    'get_fluxes': 'return self.get_args(variables=variables, time=time, include_time=False, include_variables=False, include_parameters=False, include_derived_parameters=False, include_derived_variables=False, include_reactions=True, include_surrogate_variables=False, include_surrogate_fluxes=True, include_readouts=False)',
    'get_right_hand_side': 'if (cache := self._cache) is None:\n    cache = self._create_cache()\nvar_names = self.get_variable_names()\nargs = self._get_args(variables=self.get_initial_conditions() if variables is None else variables, time=time, cache=cache)\nreturn self._get_right_hand_side(args=args, var_names=var_names, cache=cache)',
    'get_stoichiometries': 'if (cache := self._cache) is None:\n    cache = self._create_cache()\nargs = self.get_args(variables=variables, time=time)\nstoich_by_cpds = copy.deepcopy(cache.stoich_by_cpds)\nfor cpd, stoich in cache.dyn_stoich_by_cpds.items():\n    for rxn, derived in stoich.items():\n        stoich_by_cpds[cpd][rxn] = float(derived.fn(*(args[i] for i in derived.args)))\nreturn pd.DataFrame(stoich_by_cpds).T.fillna(0)',
}
_TC_SHAPES = {
    '_get_args_time_course': 'if (cache := self._cache) is None:\n    cache = self._create_cache()\nargs_by_time = {}\nfor time, values in variables.iterrows():\n    args = self._get_args(variables=values.to_dict(), time=cast(float, time), cache=cache)\n    if include_readouts:\n        for name, ro in self._readouts.items():\n            ro.calculate_inpl(name, args)\n    args_by_time[time] = args\nreturn args_by_time',
    'get_args_time_course': 'args = pd.DataFrame(self._get_args_time_course(variables=variables, include_readouts=include_readouts), dtype=float).T\nreturn args.loc[:, self.get_arg_names(include_time=False, include_variables=include_variables, include_parameters=include_parameters, include_derived_parameters=include_derived_parameters, include_derived_variables=include_derived_variables, include_reactions=include_reactions, include_surrogate_variables=include_surrogate_variables, include_surrogate_fluxes=include_surrogate_fluxes, include_readouts=include_readouts)]',
    'get_fluxes_time_course': 'return self.get_args_time_course(variables=variables, include_variables=False, include_parameters=False, include_derived_parameters=False, include_derived_variables=False, include_reactions=True, include_surrogate_variables=False, include_surrogate_fluxes=True, include_readouts=False)',
    'get_right_hand_side_time_course': "if (cache := self._cache) is None:\n    cache = self._create_cache()\nvar_names = self.get_variable_names()\nrhs_by_time = {}\nfor time, variables in args.iterrows():\n    rhs_by_time[time] = self._get_right_hand_side(args=variables.to_dict() | {'time': time}, var_names=var_names, cache=cache)\nreturn pd.DataFrame(rhs_by_time).T",
}
# the default state: the cache's initial conditions themselves or a copy of them (fixes/C13-query-results-are-copies.diff)
_IC_SHAPES = (
    'if (cache := self._cache) is None:\n    cache = self._create_cache()\nreturn cache.initial_conditions',
    'if (cache := self._cache) is None:\n    cache = self._create_cache()\nreturn dict(cache.initial_conditions)',
)


def _method_body(tree: ast.Module, cls: str, meth: str) -> str | None:
    for n in tree.body:
        if isinstance(n, ast.ClassDef) and n.name == cls:
            for f in n.body:
                if isinstance(f, ast.FunctionDef) and f.name == meth:
                    body = [s for s in f.body if not (isinstance(s, ast.Expr) and isinstance(s.value, ast.Constant))]
                    return "\n".join(ast.unparse(s) for s in body)
    return None


def extract_facts() -> dict[str, str]:
    tree = ast.parse((common.REPO / "src/mxlpy/model.py").read_text())
    return {
        "call_shape": "true" if _method_body(tree, "Model", "__call__") == _CALL_SHAPE else "false",
        "rhs_shape": "true" if _method_body(tree, "Model", "_get_right_hand_side") == _RHS_SHAPE else "false",
        "get_args_shape": "true" if _method_body(tree, "Model", "_get_args") == _GETARGS_SHAPE else "false",
        "public_shape": "true" if all(_method_body(tree, "Model", k) == v for k, v in _PUB_SHAPES.items())
        and _method_body(tree, "Model", "get_initial_conditions") in _IC_SHAPES else "false",
        "time_course_shape": "true" if all(_method_body(tree, "Model", k) == v for k, v in _TC_SHAPES.items()) else "false",
    }


def gen() -> dict[str, str]:
    f = extract_facts()
    text = (
        "(* REGENERATED from src/mxlpy/model.py by harness/c01.py; do not edit.\n"
        "   true = the method body is statement-for-statement the one modelled in Query.v *)\n"
        "Record query_facts := mkQueryFacts { qf_call : bool; qf_rhs : bool; qf_get_args : bool;\n"
        "  qf_public : bool (* get_args / get_fluxes / get_right_hand_side / get_stoichiometries / get_initial_conditions: QueryTC.v *);\n"
        "  qf_time_course : bool (* _get_args_time_course / get_args_time_course / get_fluxes_time_course / get_right_hand_side_time_course *) }.\n"
        f"Definition gen_query_facts : query_facts := mkQueryFacts {f['call_shape']} {f['rhs_shape']} {f['get_args_shape']} {f['public_shape']} {f['time_course_shape']}.\n"
    )
    common.write_if_changed(common.area_dir(AREA) / "GenQueryFacts.v", text)
    return f


# ---------------------------------------------------------------------------------------
# implementation driver: observations for one (model, state)
# ---------------------------------------------------------------------------------------


def _series(s: pd.Series) -> list[tuple[int, int]]:
    return [(un(k), common.exact_int(v)) for k, v in s.items()]


KEY_MODES = ("decl", "rev", "sorted", "rot", "interleave")
FOREIGN = 9001  # a name no generated model declares: an extra key in a supplied state dict is ignored by every entry point


def order_keys(keys: list[int], mode: str) -> list[int]:
    """Deterministic re-orderings of the keys of a supplied state mapping (a mapping has no order the model may use)."""
    if mode == "rev":
        return keys[::-1]
    if mode == "sorted":
        return sorted(keys, reverse=keys == sorted(keys))
    if mode == "rot":
        return keys[1:] + keys[:1]
    if mode == "interleave":
        return keys[1::2] + keys[0::2]
    return list(keys)


def state_pairs(var_order: list[int], state: dict[int, int], mode: str, extra: bool) -> list[tuple[int, int]]:
    ks = order_keys(list(var_order), mode)
    pairs = [(k, state[k]) for k in ks]
    if extra:
        pairs.insert(len(pairs) // 2, (FOREIGN, 7))
    return pairs


def observe(m, desc, t: int, state: dict[int, int] | None, mode: str = "decl", extra: bool = False) -> dict:
    """Every way of asking, canonicalised to exact integers keyed by int names.  The named entry points get the state
    as a mapping whose keys are in the order `mode` (and, with `extra`, one key that is not a variable); only the
    positional call gets the values in declaration order."""
    var_order = [un(k) for k in m.get_variable_names()]
    if state is None:
        mk = lambda: None  # noqa: E731
        y = [dict(m.get_initial_conditions())[nm(k)] for k in var_order]
        pairs = None
    else:
        pairs = state_pairs(var_order, state, mode, extra)
        mk = lambda: {nm(k): float(v) for k, v in pairs}  # noqa: E731  (a fresh dict per call: no entry point may rely on a previous one)
        y = [float(state[k]) for k in var_order]
    out: dict = {"pairs": pairs}
    out["call"] = [common.exact_int(v) for v in m(float(t), y)]
    out["rhs"] = _series(m.get_right_hand_side(mk(), time=float(t)))
    out["args"] = _series(m.get_args(mk(), time=float(t)))
    out["fluxes"] = _series(m.get_fluxes(mk(), time=float(t)))
    st = m.get_stoichiometries(mk(), time=float(t)) if (desc["rxn"] or any(s[4] for s in desc["sur"])) else None
    out["stoich"] = (
        [] if st is None else [(un(c), un(r), common.exact_int(st.loc[c, r])) for c in st.index for r in st.columns]
    )
    # time-course forms on a one-row frame holding the same state at the same time (columns in the order `mode`)
    cols = order_keys(list(var_order), mode if state is not None else "decl")
    yv = dict(zip(var_order, y))
    frame = pd.DataFrame({nm(k): [yv[k]] for k in cols}, index=[float(t)])
    atc = m.get_args_time_course(frame)
    out["args_tc"] = [(un(k), common.exact_int(v)) for k, v in atc.iloc[0].items()]
    out["fluxes_tc"] = [(un(k), common.exact_int(v)) for k, v in m.get_fluxes_time_course(frame).iloc[0].items()]
    out["rhs_tc"] = [(un(k), common.exact_int(v)) for k, v in m.get_right_hand_side_time_course(atc).iloc[0].items()]
    return out


# ---------------------------------------------------------------------------------------
# time-course forms on frames with SEVERAL rows: every row is the single-state query at its own (state, time)
# ---------------------------------------------------------------------------------------


def gen_rows(rng, desc) -> list[tuple[int, dict[int, int]]]:
    """3..6 rows (time label, state): plateaus (the same state at consecutive rows with different times), states that
    come back later, non-monotone times, and sometimes a repeated time label."""
    n = rng.randint(3, 6)
    times = rng.sample(range(0, 9), n)
    if rng.random() < 0.5:
        times.sort()
    rows: list[tuple[int, dict[int, int]]] = []
    pool: list[dict[int, int]] = []
    for i in range(n):
        r = rng.random()
        if rows and r < 0.45:
            s = dict(rows[-1][1])  # plateau
        elif pool and r < 0.6:
            s = dict(rng.choice(pool))  # an earlier state again
        else:
            s = modelgen.gen_state(rng, desc)[1]
            pool.append(s)
        rows.append((times[i], s))
    if rng.random() < 0.2:
        j = rng.randrange(1, n)
        rows[j] = (rows[rng.randrange(j)][0], rows[j][1])  # a repeated time label
    return rows


def observe_tc(m, desc, rows, mode: str = "decl") -> dict:
    var_order = [un(k) for k in m.get_variable_names()]
    cols = order_keys(var_order, mode)
    frame = pd.DataFrame({nm(k): [float(s[k]) for _, s in rows] for k in cols}, index=[float(t) for t, _ in rows])
    atc = m.get_args_time_course(frame)
    ftc = m.get_fluxes_time_course(frame)
    rtc = m.get_right_hand_side_time_course(atc)

    def tab(df):
        return [(common.exact_int(lbl), [(un(k), common.exact_int(v)) for k, v in row.items()]) for lbl, row in df.iterrows()]

    return {"args": tab(atc), "fluxes": tab(ftc), "rhs": tab(rtc), "rows": [(t, [(k, s[k]) for k in cols]) for t, s in rows]}


def judge_tc(desc, orc: Oracle, rows, obs: dict) -> str | None:
    """Each returned row equals the single-state answer (from the independent evaluator) at that row's own state and
    time.  A frame whose time labels repeat comes back with one row per label (pandas/dict semantics of the code as
    it is, not part of the property): then the row must be the answer for SOME input row carrying that label."""
    var_order = [n for n, _ in desc["var"]]
    flux_names = [f for f, _ in orc.flux_entries()]
    labels = [t for t, _ in rows]
    distinct = len(set(labels)) == len(labels)

    def expected(t, s):
        memo: dict[int, int] = {}
        a = {k: orc.value(k, s, t, memo) for k in orc.all_names()}
        f = [(k, a[k]) for k in dict.fromkeys(flux_names)]
        dx = orc.rhs(s, t)
        return a, f, [(n, dx[n]) for n in var_order]

    exp = [expected(t, s) for t, s in rows]
    for form, idx in (("get_args_time_course", 0), ("get_fluxes_time_course", 1), ("get_right_hand_side_time_course", 2)):
        got = obs[("args", "fluxes", "rhs")[idx]]
        if len(got) == len(rows):
            cand = [[i] for i in range(len(rows))]
        elif not distinct and [g[0] for g in got] == list(dict.fromkeys(labels)):
            cand = [[i for i, lb in enumerate(labels) if lb == g[0]] for g in got]
        else:
            return f"{form} returned rows labelled {[g[0] for g in got]} for a frame with time labels {labels}"
        for (lbl, row), cs in zip(got, cand):
            if lbl != labels[cs[0]]:
                return f"{form} row labels {[g[0] for g in got]} do not follow the frame's time labels {labels}"
            ok = False
            why = ""
            for i in cs:
                e = exp[i][idx]
                if idx == 0:
                    d = dict(row)
                    badk = [k for k in orc.all_names() if d.get(k) != e[k]]
                    if not badk and 0 not in d:
                        ok = True
                        break
                    why = f"{nm(badk[0])}={d.get(badk[0])}, its function applied to the values at that row's state {rows[i][1]} and time {rows[i][0]} gives {e[badk[0]]}" if badk else "a time column is present"
                else:
                    if row == e:
                        ok = True
                        break
                    why = f"{row}, the single-state answer at state {rows[i][1]}, time {rows[i][0]} is {e}"
            if not ok:
                return f"{form}, row labelled t={lbl} of a {len(rows)}-row frame (times {labels}): {why}"
    return None


def judge(desc, orc: Oracle, t: int, state: dict[int, int] | None, obs: dict) -> str | None:
    """The property itself, from the independent evaluator."""
    st = orc.initial_conditions() if state is None else state
    exp_dx = orc.rhs(st, t)
    var_order = [n for n, _ in desc["var"]]
    if obs["call"] != [exp_dx[n] for n in var_order]:
        return f"__call__ returned {obs['call']}, stoichiometry x rates gives {[exp_dx[n] for n in var_order]} (variable order {var_order})"
    if obs["rhs"] != [(n, exp_dx[n]) for n in var_order]:
        return f"get_right_hand_side returned {obs['rhs']}, expected {[(n, exp_dx[n]) for n in var_order]}"
    memo: dict[int, int] = {}
    for k, v in obs["args"]:
        if k in orc.dat:
            continue
        ev = orc.value(k, st, t, memo)
        if v != ev:
            return f"get_args reports {nm(k)}={v}, its function applied to the resolved values gives {ev}"
    got_names = {k for k, _ in obs["args"]}
    for k in orc.all_names():
        if k not in got_names:
            return f"get_args lacks component {nm(k)}"
    flux_names = [f for f, _ in orc.flux_entries()]
    exp_flux = {f: orc.value(f, st, t, memo) for f in flux_names}
    if dict(obs["fluxes"]) != exp_flux or len(obs["fluxes"]) != len(set(flux_names)):
        return f"get_fluxes returned {obs['fluxes']}, expected {exp_flux}"
    # stoichiometry matrix
    exp_st: dict[tuple[int, int], int] = {}
    for flux, ent in orc.flux_entries():
        for cpd, c in ent:
            exp_st[(cpd, flux)] = orc.coef(c, st, t, memo)
    for c, r, v in obs["stoich"]:
        if v != exp_st.get((c, r), 0):
            return f"get_stoichiometries[{nm(c)},{nm(r)}]={v}, expected {exp_st.get((c, r), 0)}"
    have = {(c, r) for c, r, _ in obs["stoich"]}
    for key, v in exp_st.items():
        if v != 0 and key not in have:
            return f"get_stoichiometries lacks the entry {key}={v}"
    # the time-course forms return the same numbers
    if dict(obs["args_tc"]) != {k: v for k, v in obs["args"] if k != 0}:
        return f"get_args_time_course row {obs['args_tc']} differs from get_args {obs['args']}"
    if obs["fluxes_tc"] != obs["fluxes"]:
        return f"get_fluxes_time_course row {obs['fluxes_tc']} differs from get_fluxes {obs['fluxes']}"
    if obs["rhs_tc"] != obs["rhs"]:
        return f"get_right_hand_side_time_course row {obs['rhs_tc']} differs from get_right_hand_side {obs['rhs']}"
    return None


# ---------------------------------------------------------------------------------------
# correspondence
# ---------------------------------------------------------------------------------------


def coq_pairs(p) -> str:
    return clist(f"({cn(k)}, {cz(v)})" for k, v in p)


def coq_case(desc, t, state, obs) -> str:
    # the state as the mapping the named entry points were given (key order and foreign key included)
    st = "None" if state is None else f"(Some {coq_pairs(obs.get('pairs') or state.items())})"
    sto = clist(f"({cn(c)}, {cn(r)}, {cz(v)})" for c, r, v in obs["stoich"])
    return (
        f"({modelgen.coq_model(desc)}, {cz(t)}, {st}, {clist(map(cz, obs['call']))}, {coq_pairs(obs['rhs'])}, "
        f"{coq_pairs(obs['args'])}, {coq_pairs(obs['fluxes'])}, {sto})"
    )


CORR_HEADER = """From Coq Require Import ZArith List Bool.
From MxlBase Require Import ListX.
From Core Require Import Sort GenSortFacts FnLib Model Cache Query CorrC01.
Import ListNotations.
"""


def coq_table(tab) -> str:
    return clist(f"({cz(lbl)}, {coq_pairs(row)})" for lbl, row in tab)


def coq_case_tc(desc, obs) -> str:
    """frame rows as the mappings the implementation iterated over + the three tables it returned"""
    return f"({modelgen.coq_model(desc)}, {coq_table(obs['rows'])}, {coq_table(obs['args'])}, {coq_table(obs['fluxes'])}, {coq_table(obs['rhs'])})"


def coq_case_pub(desc, t, obs) -> str:
    """variables=None at time t: get_args / get_fluxes / get_right_hand_side"""
    return f"({modelgen.coq_model(desc)}, {cz(t)}, {coq_pairs(obs['args'])}, {coq_pairs(obs['fluxes'])}, {coq_pairs(obs['rhs'])})"


def corr_file_of(kind: str, cases: list[str]) -> str:
    return (
        CORR_HEADER.replace("CorrC01.", "CorrC01 QueryTC CorrC01tc.")
        + f"Definition cases : list {kind}_case := [\n  "
        + ";\n  ".join(cases)
        + f"\n].\nEval vm_compute in (filter_idx (fun c => negb ({kind}_case_ok c)) cases).\n"
    )


def corr_file(cases: list[str]) -> str:
    return (
        CORR_HEADER
        + "Definition cases : list c01_case := [\n  "
        + ";\n  ".join(cases)
        + "\n].\nEval vm_compute in (filter_idx (fun c => negb (c01_case_ok c)) cases).\n"
    )


# ---------------------------------------------------------------------------------------


def bounded(orc: Oracle, points) -> bool:
    """every value the property speaks about stays exactly representable at all the (time, state) points"""
    try:
        orc.initial_env()
        for t, s in points:
            st = orc.initial_conditions() if s is None else s
            orc.rhs(st, t)
            for k in orc.all_names():
                orc.value(k, st, t)
    except Unbounded:
        return False
    return True


# correspondence cases of the other two case types (public wrappers at the default state; whole frames), filled by
# run_models and evaluated by check()
EXTRA: dict[str, list] = {"c01pub": [], "c01tc": []}


def run_models(run: Run, rng, n_models: int, *, ia_bias: float, tag: str):
    cases, keys = [], []
    dist = {"models": 0, "discarded_unbounded": 0, "with_surrogate": 0, "with_ia": 0, "with_dyn_coef": 0, "with_data": 0,
            "derived_on_reaction": 0, "components": {}, "time_read_only_by": {}, "state_key_order": {}, "extra_key_states": 0,
            "default_state_at_t_nonzero": 0, "tc_frames": 0, "tc_rows": 0, "tc_plateau_rows": 0, "tc_repeated_labels": 0,
            "tc_nonmonotone": 0}
    n_viol = 0
    for i in range(n_models):
        desc = modelgen.gen_model(rng, ia_bias=ia_bias)
        # a third of the models: `time` is read by exactly one kind of component (only a surrogate / only a computed
        # coefficient / only a derived quantity that also reads a data set) or by nothing at all
        where = rng.choice(["sur", "sur", "coef", "data_der", "none"]) if rng.random() < 0.34 else None
        if where is not None:
            desc = modelgen.retime(rng, desc, where)
        orc = Oracle(desc)
        # the declared initial state at t = 0 AND at a later time (variables=None), two supplied states
        states = [(0, None), (rng.randint(1, 4), None)] + [modelgen.gen_state(rng, desc) for _ in range(2)]
        modes = [(rng.choice(KEY_MODES), rng.random() < 0.15) for _ in states]
        rows = gen_rows(rng, desc)
        tc_mode = rng.choice(KEY_MODES)
        if not bounded(orc, states + rows):
            dist["discarded_unbounded"] += 1
            continue
        dist["models"] += 1
        if where is not None:
            dist["time_read_only_by"][where] = dist["time_read_only_by"].get(where, 0) + 1
        ncomp = sum(len(desc[k]) for k in ("par", "var", "der", "rxn", "sur"))
        dist["components"][ncomp] = dist["components"].get(ncomp, 0) + 1
        dist["with_surrogate"] += bool(desc["sur"])
        dist["with_data"] += bool(desc["dat"])
        dist["with_ia"] += any(v[0] == "ia" for _, v in desc["par"] + desc["var"])
        dist["with_dyn_coef"] += any(c[0] == "dyn" for _, _, _, st in desc["rxn"] for _, c in st)
        rx = {n for n, *_ in desc["rxn"]}
        dist["derived_on_reaction"] += any(set(a) & rx for _, _, a in desc["der"])
        try:
            m = modelgen.build(desc)
        except Exception as e:  # noqa: BLE001
            run.broken_correspondence.append(f"could not build generated model #{i} ({tag}): {type(e).__name__}: {e}")
            continue
        for (t, s), (mode, extra) in zip(states, modes):
            key = (tag, repr(desc), t, repr(s), mode, extra)
            run.count_case(key, nontrivial=ncomp >= 3)
            if s is None:
                dist["default_state_at_t_nonzero"] += t != 0
            else:
                dist["state_key_order"][mode] = dist["state_key_order"].get(mode, 0) + 1
                dist["extra_key_states"] += extra
            try:
                obs = observe(m, desc, t, s, mode, extra)
                bad = judge(desc, orc, t, s, obs)
            except Exception as e:  # noqa: BLE001
                obs = None
                bad = f"well-formed model raised {type(e).__name__}: {e}"
            if bad:
                if n_viol < 4:
                    n_viol += 1
                    how = "declared initial state (variables=None)" if s is None else f"state mapping with keys in order '{mode}'{' + one foreign key' if extra else ''}"
                    run.violation(f"C01 [{how}, t={t}] {bad}", {"kind": "c01", "desc": desc, "time": t, "state": s, "key_mode": mode, "extra_key": extra})
                continue
            cases.append(coq_case(desc, t, s, obs))
            keys.append((desc, t, s))
            if s is None:
                EXTRA["c01pub"].append((coq_case_pub(desc, t, obs), (desc, t, "variables=None")))
        # time-course forms on a frame with several rows (plateaus, non-monotone and repeated time labels)
        labels = [t for t, _ in rows]
        dist["tc_frames"] += 1
        dist["tc_rows"] += len(rows)
        dist["tc_plateau_rows"] += sum(1 for a, b in zip(rows, rows[1:]) if a[1] == b[1] and a[0] != b[0])
        dist["tc_repeated_labels"] += len(set(labels)) != len(labels)
        dist["tc_nonmonotone"] += labels != sorted(labels)
        run.count_case((tag, "tc", repr(desc), repr(rows), tc_mode), nontrivial=True)
        try:
            obs_tc = observe_tc(m, desc, rows, tc_mode)
            bad = judge_tc(desc, orc, rows, obs_tc)
            if not bad:
                EXTRA["c01tc"].append((coq_case_tc(desc, obs_tc), (desc, "frame", rows)))
        except Exception as e:  # noqa: BLE001
            bad = f"time-course form of a well-formed model raised {type(e).__name__}: {e}"
        if bad and n_viol < 4:
            n_viol += 1
            run.violation(f"C01 {bad}", {"kind": "c01tc", "desc": desc, "rows": [[t, s] for t, s in rows], "key_mode": tc_mode})
        # the same model after its plain parameters were updated through the public API (the cache was filled
        # by the queries above): it is again "a well-formed model", judged against the updated description
        plain = [n for n, v in desc["par"] if v[0] == "plain"]
        if plain:
            ups = [(n, rng.randint(-3, 3)) for n in rng.sample(plain, min(len(plain), rng.choice([1, 1, 2])))]
            desc2 = apply_updates(desc, ups)
            orc2 = Oracle(desc2)
            j2 = rng.randrange(len(states))
            (t2, s2), (mode2, extra2) = states[j2], modes[j2]
            if not bounded(orc2, [(t2, s2)]):
                dist["discarded_unbounded"] += 1
            else:
                dist["after_update"] = dist.get("after_update", 0) + 1
                run.count_case((tag, "upd", repr(desc), repr(ups), t2, repr(s2)), nontrivial=ncomp >= 3)
                try:
                    for n, v in ups:
                        if rng.random() < 0.5:
                            m.update_parameter(nm(n), float(v))
                        else:
                            m.update_parameters({nm(n): float(v)})
                    obs = observe(m, desc2, t2, s2, mode2, extra2)
                    bad = judge(desc2, orc2, t2, s2, obs)
                except Exception as e:  # noqa: BLE001
                    obs = None
                    bad = f"well-formed model raised {type(e).__name__}: {e}"
                if bad:
                    if n_viol < 4:
                        n_viol += 1
                        run.violation(f"C01 after update_parameter {[(nm(n), v) for n, v in ups]} (queried before): {bad}",
                                      {"kind": "c01", "desc": desc, "time": t2, "state": s2, "updates": ups, "key_mode": mode2, "extra_key": extra2})
                else:
                    cases.append(coq_case(desc2, t2, s2, obs))
                    keys.append((desc2, t2, s2))
        if i == 0:
            run.sample({"model": desc, "states": states, "tc_rows": rows})
    return cases, keys, dist


# ---------------------------------------------------------------------------------------
# data sets exchanged through the public API (closing round, seeded C01-9)
# ---------------------------------------------------------------------------------------


def apply_data_updates(desc, ups):
    d2 = {k: list(v) for k, v in desc.items()}
    new = dict(ups)
    d2["dat"] = [(n, new.get(n, v)) for n, v in desc["dat"]]
    return d2


def seq_data_updates(desc, rounds, points, modes) -> tuple[str | None, list]:
    """Build, ask (the cache exists from then on), then per round: Model.update_data for the listed data sets and
    NOTHING else, ask again at every point.  A model whose data set was exchanged is again a well-formed model: every
    quantity is its function of the values its arguments have NOW, so the answers are judged against the description
    holding the new data (independent evaluator).  -> (what is wrong | None, [(desc_k, t, s, obs)] for the correspondence)"""
    m = modelgen.build(desc)
    seen = []
    cur = desc
    for k, ups in enumerate([[]] + list(rounds)):
        for n, v in ups:
            m.update_data(nm(n), v)
        cur = apply_data_updates(cur, ups)
        orc = Oracle(cur)
        for (t, s), (mode, extra) in zip(points, modes):
            try:
                obs = observe(m, cur, t, s, mode, extra)
                bad = judge(cur, orc, t, s, obs)
            except Exception as e:  # noqa: BLE001
                bad = f"well-formed model raised {type(e).__name__}: {e}"
            if bad:
                if k == 0:
                    return f"[model with data sets, t={t}, state={s}] {bad}", seen
                hist = "; then ".join(f"update_data {[(nm(n), v) for n, v in u]}" for u in rounds[:k])
                return (f"after {hist} on a model that was queried before (no other edit in between), at t={t}, state={s}: {bad} "
                        f"-- data sets now held: {cur['dat']}, data-only derived quantities: {[nm(x) for x in modelgen.data_only_names(cur)]}"), seen
            seen.append((cur, t, s, obs))
    return None, seen


def run_data_updates(run: Run, n_models: int):
    """Own random stream ("c01-data"): the main stream of run_models is untouched."""
    rng = common.rng_for(run.seed, "c01-data")
    cases, keys = [], []
    dist = {"models": 0, "discarded_unbounded": 0, "rounds": 0, "data_only_derived": 0, "chained_data_only": 0,
            "assignment_reads_data": 0, "data_and_state_derived": 0}
    n_viol = 0
    for i in range(n_models):
        desc = modelgen.plant_data_readers(rng, modelgen.gen_model(rng, ia_bias=0.25, max_comp=5))
        points = [(0, None), modelgen.gen_state(rng, desc)]
        if rng.random() < 0.4:
            points.append((rng.randint(1, 4), None))
        modes = [(rng.choice(KEY_MODES), False) for _ in points]
        dats = [n for n, _ in desc["dat"]]
        rounds = []
        cur = dict(desc["dat"])
        for _ in range(rng.choice([1, 1, 2])):
            ups = []
            for n in rng.sample(dats, rng.randint(1, len(dats))):
                v = rng.choice([x for x in range(-3, 4) if x != cur[n]])
                cur[n] = v
                ups.append((n, v))
            rounds.append(ups)
        ok = True
        d = desc
        for ups in [[]] + rounds:
            d = apply_data_updates(d, ups)
            ok = ok and bounded(Oracle(d), points)
        if not ok:
            dist["discarded_unbounded"] += 1
            continue
        dist["models"] += 1
        dist["rounds"] += len(rounds)
        only = modelgen.data_only_names(desc)
        dist["data_only_derived"] += len(only)
        dist["chained_data_only"] += any(set(a) & set(only) for n, _, a in desc["der"] if n in only)
        dset = set(dats)
        dist["assignment_reads_data"] += any(v[0] == "ia" and set(v[2]) & dset for _, v in desc["par"] + desc["var"])
        dist["data_and_state_derived"] += any(set(a) & dset and n not in only for n, _, a in desc["der"])
        run.count_case(("c01data", repr(desc), repr(rounds), repr(points)), nontrivial=True)
        try:
            bad, seen = seq_data_updates(desc, rounds, points, modes)
        except Exception as e:  # noqa: BLE001
            bad, seen = f"data-set sequence on a well-formed model raised {type(e).__name__}: {e}", []
        if bad:
            if n_viol < 3:
                n_viol += 1
                run.violation(f"C01 {bad}", {"kind": "c01data", "desc": desc, "rounds": rounds, "points": points, "modes": modes})
            continue
        for dk, t, s, obs in seen[len(points):]:  # the answers AFTER the exchanges go to the Coq correspondence too
            cases.append(coq_case(dk, t, s, obs))
            keys.append((dk, t, s))
        if i == 0:
            run.sample({"model_with_data": desc, "data_updates": rounds, "points": points})
    return cases, keys, dist


def apply_updates(desc, ups):
    d2 = {k: list(v) for k, v in desc.items()}
    new = dict(ups)
    d2["par"] = [(n, ("plain", new[n])) if n in new else (n, v) for n, v in desc["par"]]
    return d2


def check(run: Run) -> None:
    thorough = run.tier == "thorough"
    from harness import c13  # late import (c13 imports this module): GenCacheFacts.v holds gen_split_seed, pinned by C01 too

    run.coverage["gen_facts"] = c13.gen()
    run.rule = (
        "random well-formed models (parameters, initial-assignment parameters/variables, derived chains, derived on reactions, "
        "reactions with numeric/named/computed coefficients, multi-output MockSurrogates with stoichiometries, scalar data, time) "
        "x 4 states (declared initial state at t=0 and at a later time through variables=None, 2 random states handed to the named "
        "entry points as mappings in permuted key order, sometimes with a foreign key) x 8 entry points; a third of the models has "
        "`time` read by exactly one kind of component (only a surrogate / only a computed coefficient / only a data-dependent derived "
        "quantity) or by none; per model one multi-row frame for the time-course forms (plateaus = same state at different times, "
        "non-monotone and repeated time labels), every row judged at its own (state, time); integer-valued polynomial functions so "
        "all numbers are exact; non-trivial = model has >= 3 components; distinct by (model, state, key order); own stream "
        "'c01-data': models with data sets and derived quantities computed from data sets and parameters only (chained, next to "
        "quantities reading data and state, assignments reading data), queried, then Model.update_data and nothing else, queried "
        "again at the default and a supplied state (judged against the description holding the new data)"
    )
    run.check_proofs(PROOF_AREA, PROPS)
    run.assumptions += [
        "Coq 8.16.1 kernel + vm_compute; theorems closed under the global context (see trusted_base)",
        "CPython's evaluation of rate functions is abstracted as fsem/fsemN (theorems hold for every meaning); floats modelled as Z "
        "(exact for the integer polynomial function library used in the correspondence; reassociation/rounding not modelled)",
        "pandas/NumPy containers modelled as insertion-ordered association lists; arity check and units outside the model",
        "fact extractor (method bodies compared statement-for-statement) and correspondence harness are trusted glue",
    ]
    rng = common.rng_for(run.seed, "c01")
    EXTRA["c01pub"].clear()
    EXTRA["c01tc"].clear()
    cases, keys, dist = run_models(run, rng, 1500 if thorough else 250, ia_bias=0.25, tag="c01")
    cases_d, keys_d, dist_d = run_data_updates(run, 300 if thorough else 60)
    dist["data_set_updates"] = dist_d
    cases += cases_d
    keys += keys_d
    run.coverage["input_distribution"] = dist
    files = {f"c01_{k:04d}": corr_file(chunk) for k, chunk in enumerate(common.chunks(cases, 150))}
    keymap = {f"c01_{k:04d}": keys[k * 150:(k + 1) * 150] for k in range(len(files))}
    for kind in ("c01pub", "c01tc"):
        for k, chunk in enumerate(common.chunks(EXTRA[kind], 150)):
            files[f"{kind}_{k:04d}"] = corr_file_of(kind, [c for c, _ in chunk])
            keymap[f"{kind}_{k:04d}"] = [key for _, key in chunk]
    res = common.coq_eval_many(AREA, files, timeout_s=900)
    mism = 0
    for name in sorted(files):
        ok, out = res[name]
        lists = common.parse_eval_list(out) if ok else None
        if not ok or not lists:
            run.broken_correspondence.append(f"correspondence shard {name} did not evaluate: {out[-400:]}")
            continue
        for j in lists[-1]:
            mism += 1
            if len(run.broken_correspondence) < 4:
                d, t, s = keymap[name][j]
                run.broken_correspondence.append(f"model/implementation disagree ({name.split('_')[0]}): desc={d} time={t} state={s}")
    cases = cases + EXTRA["c01pub"] + EXTRA["c01tc"]
    run.coverage["correspondence_cases"] = {"point_queries": len(keys), "default_state_public_wrappers": len(EXTRA["c01pub"]), "time_course_frames": len(EXTRA["c01tc"])}
    run.coverage["traces_validated_against_impl"] = len(cases) - mism
    run.coverage["correspondence_mismatches"] = mism


def replay(rep: dict) -> int:
    r = rep["replay"]
    if "desc" not in r:
        print("nothing to replay: ", rep.get("what"))
        return 1
    desc = {k: [_tup(x) for x in v] for k, v in r["desc"].items()}
    if r.get("kind") == "c01data":
        rounds = [[tuple(u) for u in ups] for ups in r["rounds"]]
        points = [(t, None if s is None else {int(k): v for k, v in s.items()}) for t, s in r["points"]]
        try:
            bad = seq_data_updates(desc, rounds, points, [tuple(x) for x in r["modes"]])[0]
        except Exception as e:  # noqa: BLE001
            bad = f"raised {type(e).__name__}: {e}"
        print(bad or "property holds on this input")
        return 1 if bad else 0
    if r.get("kind") == "c01tc":
        rows = [(t, {int(k): v for k, v in s.items()}) for t, s in r["rows"]]
        try:
            m = modelgen.build(desc)
            bad = judge_tc(desc, Oracle(desc), rows, observe_tc(m, desc, rows, r.get("key_mode", "decl")))
        except Exception as e:  # noqa: BLE001
            bad = f"raised {type(e).__name__}: {e}"
        print(bad or "property holds on this input")
        return 1 if bad else 0
    state = None if r["state"] is None else {int(k): v for k, v in r["state"].items()}
    ups = [tuple(u) for u in r.get("updates", [])]
    try:
        m = modelgen.build(desc)
        if ups:
            observe(m, desc, 0, None)  # fill the cache first, as the run did
            for n, v in ups:
                m.update_parameter(nm(n), float(v))
            desc = apply_updates(desc, ups)
        orc = Oracle(desc)
        bad = judge(desc, orc, r["time"], state, observe(m, desc, r["time"], state, r.get("key_mode", "decl"), bool(r.get("extra_key", False))))
    except Exception as e:  # noqa: BLE001
        bad = f"raised {type(e).__name__}: {e}"
    print(bad or "property holds on this input")
    return 1 if bad else 0


def _tup(x):
    return tuple(_tup(i) for i in x) if isinstance(x, list) else x
