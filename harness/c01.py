"""C01 -- derivatives equal stoichiometry x rates over fully resolved values; all entry points agree.

Tie: (1) GenModelFacts.v regenerated from the source (accumulation shape of __call__ /
_get_right_hand_side / _get_args), pinned in PropsC01.v; (2) in-Coq correspondence of
create_cache + call/get_rhs/get_args/get_fluxes/get_stoichiometries on generated models x states;
(3) independent oracle (harness/modelgen.Oracle: demand-driven recursion over exact integers)."""

from __future__ import annotations

import ast

import numpy as np
import pandas as pd

from harness import common, modelgen
from harness.common import Run, clist, cn, cz
from harness.modelgen import Oracle, Unbounded, nm, un

AREA = "core"
PROPS = "PropsC01.v"
PROOF_AREA = "coreproofs"


# ---------------------------------------------------------------------------------------
# facts
# ---------------------------------------------------------------------------------------

_CALL_SHAPE = """if (cache := self._cache) is None:
    cache = self._create_cache()
vars_d: dict[str, float] = dict(zip(cache.var_names, variables, strict=True))
dependent: dict[str, float] = self._get_args(variables=vars_d, time=time, cache=cache)
dxdt = dict.fromkeys(cache.var_names, 0.0)
for k, stoc in cache.stoich_by_cpds.items():
    for flux, n in stoc.items():
        dxdt[k] += n * dependent[flux]
for k, sd in cache.dyn_stoich_by_cpds.items():
    for flux, dv in sd.items():
        n = dv.calculate(dependent)
        dxdt[k] += n * dependent[flux]
return tuple((dxdt[i] for i in cache.var_names))"""

_RHS_SHAPE = """dxdt = pd.Series(np.zeros(len(var_names), dtype=float), index=var_names)
for k, stoc in cache.stoich_by_cpds.items():
    for flux, n in stoc.items():
        dxdt[k] += n * args[flux]
for k, sd in cache.dyn_stoich_by_cpds.items():
    for flux, dv in sd.items():
        n = dv.fn(*(args[i] for i in dv.args))
        dxdt[k] += n * args[flux]
return dxdt"""

_GETARGS_SHAPE = """args = cache.all_parameter_values | variables | self._data
args['time'] = time
containers = self._derived | self._reactions | self._surrogates
for name in cache.dyn_order:
    containers[name].calculate_inpl(name, args)
for k in self._data:
    args.pop(k)
return cast(dict[str, float], args)"""


def _method_body(tree: ast.Module, cls: str, meth: str) -> str | None:
    for n in tree.body:
        if isinstance(n, ast.ClassDef) and n.name == cls:
            for f in n.body:
                if isinstance(f, ast.FunctionDef) and f.name == meth:
                    body = [s for s in f.body if not (isinstance(s, ast.Expr) and isinstance(s.value, ast.Constant))]
                    return "\n".join(ast.unparse(s) for s in body)
    return None


def extract_facts() -> dict[str, str]:
    tree = ast.parse((common.REPO / "src/mxlpy/model.py").read_text())
    return {
        "call_shape": "true" if _method_body(tree, "Model", "__call__") == _CALL_SHAPE else "false",
        "rhs_shape": "true" if _method_body(tree, "Model", "_get_right_hand_side") == _RHS_SHAPE else "false",
        "get_args_shape": "true" if _method_body(tree, "Model", "_get_args") == _GETARGS_SHAPE else "false",
    }


def gen() -> dict[str, str]:
    f = extract_facts()
    text = (
        "(* REGENERATED from src/mxlpy/model.py by harness/c01.py; do not edit.\n"
        "   true = the method body is statement-for-statement the one modelled in Query.v *)\n"
        "Record query_facts := mkQueryFacts { qf_call : bool; qf_rhs : bool; qf_get_args : bool }.\n"
        f"Definition gen_query_facts : query_facts := mkQueryFacts {f['call_shape']} {f['rhs_shape']} {f['get_args_shape']}.\n"
    )
    common.write_if_changed(common.area_dir(AREA) / "GenQueryFacts.v", text)
    return f


# ---------------------------------------------------------------------------------------
# implementation driver: observations for one (model, state)
# ---------------------------------------------------------------------------------------


def _series(s: pd.Series) -> list[tuple[int, int]]:
    return [(un(k), common.exact_int(v)) for k, v in s.items()]


def observe(m, desc, t: int, state: dict[int, int] | None) -> dict:
    """Every way of asking, canonicalised to exact integers keyed by int names."""
    var_order = [un(k) for k in m.get_variable_names()]
    if state is None:
        vars_d = None
        y = [m.get_initial_conditions()[nm(k)] for k in var_order]
    else:
        vars_d = {nm(k): float(v) for k, v in state.items()}
        y = [float(state[k]) for k in var_order]
    out: dict = {}
    out["call"] = [common.exact_int(v) for v in m(float(t), y)]
    out["rhs"] = _series(m.get_right_hand_side(vars_d, time=float(t)))
    out["args"] = _series(m.get_args(vars_d, time=float(t)))
    out["fluxes"] = _series(m.get_fluxes(vars_d, time=float(t)))
    st = m.get_stoichiometries(vars_d, time=float(t)) if (desc["rxn"] or any(s[4] for s in desc["sur"])) else None
    out["stoich"] = (
        [] if st is None else [(un(c), un(r), common.exact_int(st.loc[c, r])) for c in st.index for r in st.columns]
    )
    # time-course forms on a one-row frame holding the same state at the same time
    frame = pd.DataFrame({nm(k): [v] for k, v in zip(var_order, y)}, index=[float(t)])
    atc = m.get_args_time_course(frame)
    out["args_tc"] = [(un(k), common.exact_int(v)) for k, v in atc.iloc[0].items()]
    out["fluxes_tc"] = [(un(k), common.exact_int(v)) for k, v in m.get_fluxes_time_course(frame).iloc[0].items()]
    out["rhs_tc"] = [(un(k), common.exact_int(v)) for k, v in m.get_right_hand_side_time_course(atc).iloc[0].items()]
    return out


def judge(desc, orc: Oracle, t: int, state: dict[int, int] | None, obs: dict) -> str | None:
    """The property itself, from the independent evaluator."""
    st = orc.initial_conditions() if state is None else state
    exp_dx = orc.rhs(st, t)
    var_order = [n for n, _ in desc["var"]]
    if obs["call"] != [exp_dx[n] for n in var_order]:
        return f"__call__ returned {obs['call']}, stoichiometry x rates gives {[exp_dx[n] for n in var_order]} (variable order {var_order})"
    if obs["rhs"] != [(n, exp_dx[n]) for n in var_order]:
        return f"get_right_hand_side returned {obs['rhs']}, expected {[(n, exp_dx[n]) for n in var_order]}"
    memo: dict[int, int] = {}
    for k, v in obs["args"]:
        if k in orc.dat:
            continue
        ev = orc.value(k, st, t, memo)
        if v != ev:
            return f"get_args reports {nm(k)}={v}, its function applied to the resolved values gives {ev}"
    got_names = {k for k, _ in obs["args"]}
    for k in orc.all_names():
        if k not in got_names:
            return f"get_args lacks component {nm(k)}"
    flux_names = [f for f, _ in orc.flux_entries()]
    exp_flux = {f: orc.value(f, st, t, memo) for f in flux_names}
    if dict(obs["fluxes"]) != exp_flux or len(obs["fluxes"]) != len(set(flux_names)):
        return f"get_fluxes returned {obs['fluxes']}, expected {exp_flux}"
    # stoichiometry matrix
    exp_st: dict[tuple[int, int], int] = {}
    for flux, ent in orc.flux_entries():
        for cpd, c in ent:
            exp_st[(cpd, flux)] = orc.coef(c, st, t, memo)
    for c, r, v in obs["stoich"]:
        if v != exp_st.get((c, r), 0):
            return f"get_stoichiometries[{nm(c)},{nm(r)}]={v}, expected {exp_st.get((c, r), 0)}"
    have = {(c, r) for c, r, _ in obs["stoich"]}
    for key, v in exp_st.items():
        if v != 0 and key not in have:
            return f"get_stoichiometries lacks the entry {key}={v}"
    # the time-course forms return the same numbers
    if dict(obs["args_tc"]) != {k: v for k, v in obs["args"] if k != 0}:
        return f"get_args_time_course row {obs['args_tc']} differs from get_args {obs['args']}"
    if obs["fluxes_tc"] != obs["fluxes"]:
        return f"get_fluxes_time_course row {obs['fluxes_tc']} differs from get_fluxes {obs['fluxes']}"
    if obs["rhs_tc"] != obs["rhs"]:
        return f"get_right_hand_side_time_course row {obs['rhs_tc']} differs from get_right_hand_side {obs['rhs']}"
    return None


# ---------------------------------------------------------------------------------------
# correspondence
# ---------------------------------------------------------------------------------------


def coq_pairs(p) -> str:
    return clist(f"({cn(k)}, {cz(v)})" for k, v in p)


def coq_case(desc, t, state, obs) -> str:
    st = "None" if state is None else f"(Some {coq_pairs(state.items())})"
    sto = clist(f"({cn(c)}, {cn(r)}, {cz(v)})" for c, r, v in obs["stoich"])
    return (
        f"({modelgen.coq_model(desc)}, {cz(t)}, {st}, {clist(map(cz, obs['call']))}, {coq_pairs(obs['rhs'])}, "
        f"{coq_pairs(obs['args'])}, {coq_pairs(obs['fluxes'])}, {sto})"
    )


CORR_HEADER = """From Coq Require Import ZArith List Bool.
From MxlBase Require Import ListX.
From Core Require Import Sort GenSortFacts FnLib Model Cache Query CorrC01.
Import ListNotations.
"""


def corr_file(cases: list[str]) -> str:
    return (
        CORR_HEADER
        + "Definition cases : list c01_case := [\n  "
        + ";\n  ".join(cases)
        + "\n].\nEval vm_compute in (filter_idx (fun c => negb (c01_case_ok c)) cases).\n"
    )


# ---------------------------------------------------------------------------------------


def run_models(run: Run, rng, n_models: int, *, ia_bias: float, tag: str):
    cases, keys = [], []
    dist = {"models": 0, "discarded_unbounded": 0, "with_surrogate": 0, "with_ia": 0, "with_dyn_coef": 0, "with_data": 0,
            "derived_on_reaction": 0, "components": {}}
    n_viol = 0
    for i in range(n_models):
        desc = modelgen.gen_model(rng, ia_bias=ia_bias)
        orc = Oracle(desc)
        states = [(0, None)] + [modelgen.gen_state(rng, desc) for _ in range(2)]
        try:
            orc.initial_env()
            for t, s in states:
                orc.rhs(orc.initial_conditions() if s is None else s, t)
                for k in orc.all_names():
                    orc.value(k, orc.initial_conditions() if s is None else s, t)
        except Unbounded:
            dist["discarded_unbounded"] += 1
            continue
        dist["models"] += 1
        ncomp = sum(len(desc[k]) for k in ("par", "var", "der", "rxn", "sur"))
        dist["components"][ncomp] = dist["components"].get(ncomp, 0) + 1
        dist["with_surrogate"] += bool(desc["sur"])
        dist["with_data"] += bool(desc["dat"])
        dist["with_ia"] += any(v[0] == "ia" for _, v in desc["par"] + desc["var"])
        dist["with_dyn_coef"] += any(c[0] == "dyn" for _, _, _, st in desc["rxn"] for _, c in st)
        rx = {n for n, *_ in desc["rxn"]}
        dist["derived_on_reaction"] += any(set(a) & rx for _, _, a in desc["der"])
        try:
            m = modelgen.build(desc)
        except Exception as e:  # noqa: BLE001
            run.broken_correspondence.append(f"could not build generated model #{i} ({tag}): {type(e).__name__}: {e}")
            continue
        for t, s in states:
            key = (tag, repr(desc), t, repr(s))
            run.count_case(key, nontrivial=ncomp >= 3)
            try:
                obs = observe(m, desc, t, s)
                bad = judge(desc, orc, t, s, obs)
            except Exception as e:  # noqa: BLE001
                obs = None
                bad = f"well-formed model raised {type(e).__name__}: {e}"
            if bad:
                if n_viol < 4:
                    n_viol += 1
                    run.violation(f"C01 {bad}", {"kind": "c01", "desc": desc, "time": t, "state": s})
                continue
            cases.append(coq_case(desc, t, s, obs))
            keys.append((desc, t, s))
        # the same model after its plain parameters were updated through the public API (the cache was filled
        # by the queries above): it is again "a well-formed model", judged against the updated description
        plain = [n for n, v in desc["par"] if v[0] == "plain"]
        if plain:
            ups = [(n, rng.randint(-3, 3)) for n in rng.sample(plain, min(len(plain), rng.choice([1, 1, 2])))]
            desc2 = apply_updates(desc, ups)
            orc2 = Oracle(desc2)
            t2, s2 = rng.choice(states)
            try:
                orc2.initial_env()
                st2 = orc2.initial_conditions() if s2 is None else s2
                orc2.rhs(st2, t2)
                for k in orc2.all_names():
                    orc2.value(k, st2, t2)
            except Unbounded:
                dist["discarded_unbounded"] += 1
            else:
                dist["after_update"] = dist.get("after_update", 0) + 1
                run.count_case((tag, "upd", repr(desc), repr(ups), t2, repr(s2)), nontrivial=ncomp >= 3)
                try:
                    for n, v in ups:
                        if rng.random() < 0.5:
                            m.update_parameter(nm(n), float(v))
                        else:
                            m.update_parameters({nm(n): float(v)})
                    obs = observe(m, desc2, t2, s2)
                    bad = judge(desc2, orc2, t2, s2, obs)
                except Exception as e:  # noqa: BLE001
                    obs = None
                    bad = f"well-formed model raised {type(e).__name__}: {e}"
                if bad:
                    if n_viol < 4:
                        n_viol += 1
                        run.violation(f"C01 after update_parameter {[(nm(n), v) for n, v in ups]} (queried before): {bad}",
                                      {"kind": "c01", "desc": desc, "time": t2, "state": s2, "updates": ups})
                else:
                    cases.append(coq_case(desc2, t2, s2, obs))
                    keys.append((desc2, t2, s2))
        if i == 0:
            run.sample({"model": desc, "states": states})
    return cases, keys, dist


def apply_updates(desc, ups):
    d2 = {k: list(v) for k, v in desc.items()}
    new = dict(ups)
    d2["par"] = [(n, ("plain", new[n])) if n in new else (n, v) for n, v in desc["par"]]
    return d2


def check(run: Run) -> None:
    thorough = run.tier == "thorough"
    run.coverage["gen_facts"] = gen()
    run.rule = (
        "random well-formed models (parameters, initial-assignment parameters/variables, derived chains, derived on reactions, "
        "reactions with numeric/named/computed coefficients, multi-output MockSurrogates with stoichiometries, scalar data, time) "
        "x 3 states (declared initial state + 2 random) x 8 entry points; integer-valued polynomial functions so all numbers are "
        "exact; non-trivial = model has >= 3 components; distinct by (model, state)"
    )
    run.check_proofs(PROOF_AREA, PROPS)
    run.assumptions += [
        "Coq 8.16.1 kernel + vm_compute; theorems closed under the global context (see trusted_base)",
        "CPython's evaluation of rate functions is abstracted as fsem/fsemN (theorems hold for every meaning); floats modelled as Z "
        "(exact for the integer polynomial function library used in the correspondence; reassociation/rounding not modelled)",
        "pandas/NumPy containers modelled as insertion-ordered association lists; arity check and units outside the model",
        "fact extractor (method bodies compared statement-for-statement) and correspondence harness are trusted glue",
    ]
    rng = common.rng_for(run.seed, "c01")
    cases, keys, dist = run_models(run, rng, 1500 if thorough else 250, ia_bias=0.25, tag="c01")
    run.coverage["input_distribution"] = dist
    files = {f"c01_{k:04d}": corr_file(chunk) for k, chunk in enumerate(common.chunks(cases, 150))}
    res = common.coq_eval_many(AREA, files, timeout_s=900)
    mism = 0
    for k, name in enumerate(sorted(files)):
        ok, out = res[name]
        lists = common.parse_eval_list(out) if ok else None
        if not ok or not lists:
            run.broken_correspondence.append(f"correspondence shard {name} did not evaluate: {out[-400:]}")
            continue
        for j in lists[-1]:
            mism += 1
            if len(run.broken_correspondence) < 4:
                d, t, s = keys[k * 150 + j]
                run.broken_correspondence.append(f"model/implementation disagree: desc={d} time={t} state={s}")
    run.coverage["traces_validated_against_impl"] = len(cases) - mism
    run.coverage["correspondence_mismatches"] = mism


def replay(rep: dict) -> int:
    r = rep["replay"]
    desc = {k: [_tup(x) for x in v] for k, v in r["desc"].items()}
    state = None if r["state"] is None else {int(k): v for k, v in r["state"].items()}
    ups = [tuple(u) for u in r.get("updates", [])]
    try:
        m = modelgen.build(desc)
        if ups:
            observe(m, desc, 0, None)  # fill the cache first, as the run did
            for n, v in ups:
                m.update_parameter(nm(n), float(v))
            desc = apply_updates(desc, ups)
        orc = Oracle(desc)
        bad = judge(desc, orc, r["time"], state, observe(m, desc, r["time"], state))
    except Exception as e:  # noqa: BLE001
        bad = f"raised {type(e).__name__}: {e}"
    print(bad or "property holds on this input")
    return 1 if bad else 0


def _tup(x):
    return tuple(_tup(i) for i in x) if isinstance(x, list) else x
