"""C06 helpers that share NO code with the Coq model:

* `Ex` -- an exact number (a Fraction) that survives CPython's arithmetic, including mixed
  arithmetic with the float/int literals and module constants of the function under test
  (floats are converted exactly).  The oracle calls the REAL Python function on `Ex` arguments,
  so control flow is CPython's and arithmetic is exact.
* `eval_sympy` -- a lazy evaluator of the SymPy expression returned by `fn_to_sympy` at a
  rational point (first true Piecewise condition wins; And is Kleene's strong conjunction).
  SymPy's own `subs` evaluates untaken branches eagerly and raises on `zoo > 2`, so it cannot be
  used for points where an untaken branch is singular; `cross_check_subs` compares the two
  evaluators where SymPy's does answer.
"""

from __future__ import annotations

from fractions import Fraction
from typing import Any

import sympy


class Undefined(Exception):
    pass


class Inexact(Exception):
    """The expression contains a Float that is not a small dyadic (e.g. 1/3.0): discard the case."""


def _fr(x: Any) -> Fraction:
    if isinstance(x, Ex):
        return x.v
    if isinstance(x, bool):
        return Fraction(int(x))
    if isinstance(x, (int, Fraction)):
        return Fraction(x)
    if isinstance(x, float):
        if x != x or x in (float("inf"), float("-inf")):
            raise Undefined
        return Fraction(*x.as_integer_ratio())
    raise TypeError(f"Ex: unsupported operand {type(x).__name__}")


class Ex:
    __slots__ = ("v",)

    def __init__(self, v: Any) -> None:
        self.v = _fr(v)

    def __repr__(self) -> str:
        return f"Ex({self.v})"

    def __add__(self, o):
        return Ex(self.v + _fr(o))

    __radd__ = __add__

    def __sub__(self, o):
        return Ex(self.v - _fr(o))

    def __rsub__(self, o):
        return Ex(_fr(o) - self.v)

    def __mul__(self, o):
        return Ex(self.v * _fr(o))

    __rmul__ = __mul__

    def __truediv__(self, o):
        return Ex(self.v / _fr(o))  # ZeroDivisionError like Python

    def __rtruediv__(self, o):
        return Ex(_fr(o) / self.v)

    def __floordiv__(self, o):
        return Ex(self.v // _fr(o))

    def __rfloordiv__(self, o):
        return Ex(_fr(o) // self.v)

    def __mod__(self, o):
        return Ex(self.v % _fr(o))

    def __rmod__(self, o):
        return Ex(_fr(o) % self.v)

    @staticmethod
    def _pow(b: Fraction, e: Fraction):
        if e.denominator != 1:
            raise Undefined  # non-integral exponent: outside the exact domain
        return Ex(b**e.numerator)  # ZeroDivisionError for 0 ** negative

    def __pow__(self, o):
        return Ex._pow(self.v, _fr(o))

    def __rpow__(self, o):
        return Ex._pow(_fr(o), self.v)

    def __neg__(self):
        return Ex(-self.v)

    def __pos__(self):
        return Ex(self.v)

    def __abs__(self):
        return Ex(abs(self.v))

    def __round__(self, ndigits=None):
        return Ex(round(self.v, ndigits))  # exact: Fraction rounds half to even, as float does

    def __lt__(self, o):
        return self.v < _fr(o)

    def __le__(self, o):
        return self.v <= _fr(o)

    def __gt__(self, o):
        return self.v > _fr(o)

    def __ge__(self, o):
        return self.v >= _fr(o)

    def __eq__(self, o):
        try:
            return self.v == _fr(o)
        except TypeError:
            return False

    def __ne__(self, o):
        return not self.__eq__(o)

    def __hash__(self):
        return hash(self.v)

    def __bool__(self):
        return self.v != 0

    def __float__(self):
        return float(self.v)


def python_value(fn, args: list[Fraction]) -> Fraction | None:
    """Value of the real function on exact arguments; None = not defined there (raises / no number)."""
    try:
        r = fn(*[Ex(a) for a in args])
    except RecursionError:
        return None
    except Exception:  # noqa: BLE001  (ZeroDivisionError, UnboundLocalError, TypeError, Undefined ...)
        return None
    if r is None or isinstance(r, bool):
        return None
    try:
        return _fr(r)
    except (TypeError, Undefined):
        return None


# ---------------------------------------------------------------------------------------
# lazy evaluation of a SymPy expression at an exact point
# ---------------------------------------------------------------------------------------

_MAX_DEN = 2**24


def _float_to_fraction(f: sympy.Float) -> Fraction:
    r = sympy.Rational(f)  # exact value of the binary float
    fr = Fraction(int(r.p), int(r.q))
    if fr.denominator > _MAX_DEN or abs(fr.numerator) > 2**40:
        raise Inexact(str(f))
    return fr


def eval_sympy(e: Any, pt: dict[str, Fraction]) -> Fraction:
    """Exact value; raises Undefined / Inexact / NotImplementedError(unknown node)."""
    if isinstance(e, sympy.Float):
        return _float_to_fraction(e)
    if isinstance(e, sympy.Rational):  # includes Integer
        return Fraction(int(e.p), int(e.q))
    if isinstance(e, sympy.Symbol):
        if e.name not in pt:
            raise Undefined
        return pt[e.name]
    if e in (sympy.zoo, sympy.nan, sympy.oo, -sympy.oo):
        raise Undefined
    if isinstance(e, sympy.Add):
        vals = [eval_sympy(a, pt) for a in e.args]
        return sum(vals, Fraction(0))
    if isinstance(e, sympy.Mul):
        out = Fraction(1)
        for a in e.args:
            out *= eval_sympy(a, pt)
        return out
    if isinstance(e, sympy.Pow):
        b = eval_sympy(e.base, pt)
        x = eval_sympy(e.exp, pt)
        if x.denominator != 1:
            raise Undefined
        if x.numerator < 0 and b == 0:
            raise Undefined
        return b**x.numerator
    if isinstance(e, sympy.floor):
        v = eval_sympy(e.args[0], pt)
        return Fraction(v.numerator // v.denominator)
    if isinstance(e, sympy.Mod):
        p = eval_sympy(e.args[0], pt)
        q = eval_sympy(e.args[1], pt)
        if q == 0:
            raise Undefined
        return p - q * (p // q)
    if isinstance(e, sympy.Piecewise):
        for ex, c in e.args:
            t = eval_cond(c, pt)
            if t is None:
                raise Undefined
            if t:
                return eval_sympy(ex, pt)
        raise Undefined
    raise NotImplementedError(f"sympy node {type(e).__name__}")


def eval_cond(c: Any, pt: dict[str, Fraction]) -> bool | None:
    """True / False / None (undefined)."""
    if c is sympy.true or c is True:
        return True
    if c is sympy.false or c is False:
        return False
    if isinstance(c, sympy.And):
        vals = [eval_cond(a, pt) for a in c.args]
        if any(v is False for v in vals):
            return False
        if all(v is True for v in vals):
            return True
        return None
    if isinstance(c, sympy.Or):
        vals = [eval_cond(a, pt) for a in c.args]
        if any(v is True for v in vals):
            return True
        if all(v is False for v in vals):
            return False
        return None
    if isinstance(c, sympy.ITE):
        # ITE(c, a, b) = (c & a) | (~c & b) in Kleene's strong logic, like And / Or above: SymPy rewrites a
        # conjunction of relationals over a Boolean-valued Piecewise into ITE, and the conjunction it came from is
        # false as soon as one conjunct is false even where the test c is undefined (a singular operand in c)
        t = eval_cond(c.args[0], pt)
        if t is None:
            a, b = eval_cond(c.args[1], pt), eval_cond(c.args[2], pt)
            return a if (a is not None and a == b) else None
        return eval_cond(c.args[1] if t else c.args[2], pt)
    if isinstance(c, sympy.Not):
        v = eval_cond(c.args[0], pt)
        return None if v is None else (not v)
    rels = {
        sympy.StrictGreaterThan: lambda a, b: a > b,
        sympy.GreaterThan: lambda a, b: a >= b,
        sympy.StrictLessThan: lambda a, b: a < b,
        sympy.LessThan: lambda a, b: a <= b,
        sympy.Equality: lambda a, b: a == b,
        sympy.Unequality: lambda a, b: a != b,
    }
    for cls, f in rels.items():
        if isinstance(c, cls):
            try:
                a = eval_sympy(c.args[0], pt)
                b = eval_sympy(c.args[1], pt)
            except Undefined:
                return None
            return bool(f(a, b))
    raise NotImplementedError(f"sympy condition {type(c).__name__}")


def value_at(e: Any, pt: dict[str, Fraction]) -> Fraction | None:
    """Fraction, or None when undefined.  Inexact / NotImplementedError propagate."""
    try:
        return eval_sympy(e, pt)
    except Undefined:
        return None


def cross_check_subs(e: Any, pt: dict[str, Fraction]) -> str | None:
    """Compare the lazy evaluator with SymPy's own exact substitution where SymPy answers."""
    try:
        mine = value_at(e, pt)
        ex = e.xreplace({f: sympy.Rational(f) for f in e.atoms(sympy.Float)})
        r = ex.subs({sympy.Symbol(k): sympy.Rational(v.numerator, v.denominator) for k, v in pt.items()}, simultaneous=True)
    except (Inexact, NotImplementedError):
        return None
    except Exception:  # noqa: BLE001  sympy refuses eager evaluation of a singular untaken branch
        return None
    if isinstance(r, sympy.Rational):
        theirs = Fraction(int(r.p), int(r.q))
        # only where the lazy evaluator HAS a value: SymPy's extended arithmetic answers where the exact-rational
        # meaning is undefined (`Ne(0**(-1.0), -1.0)` is `zoo != -1` = True for SymPy, a division by zero for CPython
        # and for the evaluator).  An evaluator that were wrongly undefined would show up as an oracle alarm
        # (python value defined, expression value None), so nothing is lost by not comparing there.
        if mine is not None and mine != theirs:
            return f"lazy evaluator {mine} != sympy.subs {theirs} for {e} at {pt}"
    return None
