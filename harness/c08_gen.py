"""Generators, printers and the independent MathML evaluator for C08.

Expression trees are nested tuples:
  ("name", s) ("int", n) ("real", Fraction) ("bool", b) ("constother", src)
  ("un", op, a) ("bin", op, l, r) ("cmp", l, [(op, e), ...]) ("if", t, b, o)
  ("callname", f, [args], kw) ("callattr", parent, attr, [args], kw) ("callother", [args])
  ("attr", parent, attr) ("other", src)
Names are strings <letter><number>; the number is the Coq name (p<i> parameters of the function,
n<j> model names, g<k> module globals).
"""

from __future__ import annotations

import math
from fractions import Fraction
from typing import Any

from harness.common import cbool, clist, cn, cq, cstr, cz

UN_SRC = {"USub": "-", "Not": "not ", "UAdd": "+", "Invert": "~"}
UN_COQ = {"USub": "UNeg", "Not": "UNot", "UAdd": "UPos", "Invert": "UInvert"}
BIN_SRC = {"Mult": "*", "Add": "+", "Sub": "-", "Div": "/", "Pow": "**", "FloorDiv": "//", "Mod": "%", "MatMult": "@"}
BIN_COQ = {"Mult": "BMul", "Add": "BAdd", "Sub": "BSub", "Div": "BDiv", "Pow": "BPow", "FloorDiv": "BFloorDiv", "Mod": "BMod", "MatMult": "BOtherBin"}
CMP_SRC = {"Eq": "==", "NotEq": "!=", "Lt": "<", "LtE": "<=", "Gt": ">", "GtE": ">=", "Is": "is", "In": "in"}
CMP_COQ = {"Eq": "CEq", "NotEq": "CNe", "Lt": "CLt", "LtE": "CLe", "Gt": "CGt", "GtE": "CGe", "Is": "CIs", "In": "COtherCmp"}

UNARY_FNS = ["sqrt", "abs", "ceil", "sin", "cos", "tan", "arcsin", "arccos", "arctan", "sinh", "cosh", "tanh",
             "arcsinh", "arccosh", "arctanh", "log", "log10"]  # fmt: skip
MATH_HAS = {"sqrt", "ceil", "sin", "cos", "tan", "sinh", "cosh", "tanh", "log", "log10", "exp", "floor"}
NP_HAS = set(UNARY_FNS) | {"exp", "floor", "power", "remainder"}


def num(name: str) -> int:
    return int(name[1:])


# ---------------------------------------------------------------------------------------
# printers
# ---------------------------------------------------------------------------------------


def py_src(e: tuple) -> str:
    k = e[0]
    if k == "name":
        return e[1]
    if k == "int":
        return str(e[1])
    if k == "real":
        return repr(float(e[1]))
    if k == "bool":
        return "True" if e[1] else "False"
    if k in ("constother", "other"):
        return e[1]
    if k == "un":
        return f"({UN_SRC[e[1]]}{py_src(e[2])})"
    if k == "bin":
        return f"({py_src(e[2])} {BIN_SRC[e[1]]} {py_src(e[3])})"
    if k == "cmp":
        return "(" + py_src(e[1]) + "".join(f" {CMP_SRC[o]} {py_src(x)}" for o, x in e[2]) + ")"
    if k == "if":
        return f"({py_src(e[2])} if {py_src(e[1])} else {py_src(e[3])})"
    if k == "callname":
        a = [py_src(x) for x in e[2]] + (["key=None"] if e[3] else [])
        return f"{e[1]}({', '.join(a)})"
    if k == "callattr":
        a = [py_src(x) for x in e[3]] + (["out=None"] if e[4] else [])
        return f"{e[1]}.{e[2]}({', '.join(a)})"
    if k == "callother":
        return f"(lambda *q: 1.0)({', '.join(py_src(x) for x in e[1])})"
    if k == "attr":
        return f"{e[1]}.{e[2]}"
    raise ValueError(k)


def coq_exprs(es: list) -> str:
    out = "ENil"
    for x in reversed(es):
        out = f"(ECons {coq_expr(x)} {out})"
    return out


def coq_expr(e: tuple) -> str:
    k = e[0]
    if k == "name":
        return f"(EName {cn(num(e[1]))})"
    if k == "int":
        return f"(EInt {cz(e[1])})"
    if k == "real":
        return f"(EReal {cq(e[1])})"
    if k == "bool":
        return f"(EBool {cbool(e[1])})"
    if k == "constother":
        return "EConstOther"
    if k == "other":
        return "EOtherNode"
    if k == "un":
        return f"(EUn {UN_COQ[e[1]]} {coq_expr(e[2])})"
    if k == "bin":
        return f"(EBin {BIN_COQ[e[1]]} {coq_expr(e[2])} {coq_expr(e[3])})"
    if k == "cmp":
        ch = "ChNil"
        for o, x in reversed(e[2]):
            ch = f"(ChCons {CMP_COQ[o]} {coq_expr(x)} {ch})"
        return f"(ECmp {coq_expr(e[1])} {ch})"
    if k == "if":
        return f"(EIf {coq_expr(e[1])} {coq_expr(e[2])} {coq_expr(e[3])})"
    if k == "callname":
        return f"(ECallName {cstr(e[1])} {coq_exprs(e[2])} {cbool(e[3])})"
    if k == "callattr":
        return f"(ECallAttr {cstr(e[1])} {cstr(e[2])} {coq_exprs(e[3])} {cbool(e[4])})"
    if k == "callother":
        return f"(ECallOther {coq_exprs(e[1])})"
    if k == "attr":
        return f"(EAttr {cstr(e[1])} {cstr(e[2])})"
    raise ValueError(k)


def coq_fundef(params: list[str], body: list[tuple]) -> str:
    """body: list of ("return", e) | ("returnnone",) | ("doc",) | ("assign", name, e) | ("otherstmt", src)"""
    ss = []
    for s in body:
        if s[0] == "return":
            ss.append(f"SReturn {coq_expr(s[1])}")
        elif s[0] == "assign":
            ss.append(f"SAssign {cn(num(s[1]))} {coq_expr(s[2])}")
        elif s[0] == "returnnone":
            ss.append("SReturnNone")
        elif s[0] == "doc":
            ss.append("SDoc")
        else:
            ss.append("SOtherStmt")
    return f"(mkFun {clist(cn(num(p)) for p in params)} {clist(ss)})"


def fn_src(fname: str, params: list[str], body: list[tuple]) -> str:
    lines = [f"def {fname}({', '.join(params)}):"]
    for s in body:
        if s[0] == "return":
            lines.append(f"    return {py_src(s[1])}")
        elif s[0] == "assign":
            lines.append(f"    {s[1]} = {py_src(s[2])}")
        elif s[0] == "returnnone":
            lines.append("    return")
        elif s[0] == "doc":
            lines.append('    """docstring."""')
        else:
            lines.append(f"    {s[1]}")
    return "\n".join(lines) + "\n"


MODULE_HEADER = "import math\nimport numpy\nimport numpy as np\nfrom math import sqrt, sin, log\n\ng50 = 2.0\n\n"
# the closing-pass streams (multi-statement bodies, remainder calls): a bare `remainder` is math's
MODULE_HEADER2 = "import math\nimport numpy\nimport numpy as np\nfrom math import sqrt, sin, log, remainder\n\ng50 = 2.0\n\n"


# ---------------------------------------------------------------------------------------
# libsbml AST -> Gallina / python structure
# ---------------------------------------------------------------------------------------

_CODE2NAME: dict[int, str] = {}


def _codes() -> dict[int, str]:
    if not _CODE2NAME:
        import libsbml

        for n in dir(libsbml):
            if n.startswith("AST_") and isinstance(getattr(libsbml, n), int):
                _CODE2NAME.setdefault(getattr(libsbml, n), n[4:])
    return _CODE2NAME


def ast_to_tree(node) -> tuple:  # noqa: ANN001
    """libsbml.ASTNode -> ("name", s) | ("int", n) | ("real", float) | ("const", NAME) | ("app", KIND, [children])"""
    t = _codes().get(node.getType(), "?")
    kids = [ast_to_tree(node.getChild(i)) for i in range(node.getNumChildren())]
    if t == "NAME":
        return ("name", node.getName())
    if t == "INTEGER":
        return ("int", int(node.getInteger()))
    if t in ("REAL", "REAL_E", "RATIONAL"):
        return ("real", float(node.getReal()))
    if t in ("CONSTANT_TRUE", "CONSTANT_FALSE", "CONSTANT_E", "CONSTANT_PI", "UNKNOWN") and not kids:
        return ("const", t)
    return ("app", t, kids)


def tree_to_coq(t: tuple, kinds: list[str]) -> str:
    k = t[0]
    if k == "name":
        s = t[1]
        if len(s) >= 2 and s[0].isalpha() and s[1:].isdigit():
            return f"(MName {cn(int(s[1:]))})"
        return "(MApp K_OTHER MNil)"
    if k == "int":
        return f"(MInt {cz(t[1])})"
    if k == "real":
        v = t[1]
        if v != v:
            return "MNan"
        if v in (math.inf, -math.inf):
            return "MInf"
        return f"(MReal {cq(Fraction(*v.as_integer_ratio()))})"
    if k == "const":
        return {"CONSTANT_TRUE": "MTrue", "CONSTANT_FALSE": "MFalse", "CONSTANT_E": "ME", "CONSTANT_PI": "MPi", "UNKNOWN": "MUnknown"}[t[1]]
    kind = "K_" + t[1] if t[1] in kinds else "K_OTHER"
    out = "MNil"
    for c in reversed(t[2]):
        out = f"(MCons {tree_to_coq(c, kinds)} {out})"
    return f"(MApp {kind} {out})"


ERR_COQ = {
    "ErrNotImpl": "ErrNotImpl", "ErrValue": "ErrValue", "ErrKey": "ErrOther", "ErrType": "ErrType",
    "ErrOther:IndexError": "ErrIndex", "ErrOther:AttributeError": "ErrAttribute",
}  # fmt: skip


def outcome_to_coq(out: tuple, kinds: list[str]) -> str:
    if out[0] == "ok":
        return f"(Ok {tree_to_coq(out[1], kinds)})"
    return f"(Err {ERR_COQ.get(out[1], 'ErrOther')})"


# ---------------------------------------------------------------------------------------
# independent evaluator of the exported MathML (SBML L3V2 semantics, floats)
# ---------------------------------------------------------------------------------------


class Undefined(Exception):
    pass


def _truth(v: Any) -> bool:
    return bool(v != 0)


def eval_mathml(t: tuple, env: dict[str, float]) -> float:
    k = t[0]
    if k == "name":
        if t[1] not in env:
            raise Undefined(f"unbound {t[1]}")
        return env[t[1]]
    if k in ("int", "real"):
        return float(t[1])
    if k == "const":
        return {"CONSTANT_TRUE": 1.0, "CONSTANT_FALSE": 0.0, "CONSTANT_E": math.e, "CONSTANT_PI": math.pi}.get(t[1]) if t[1] != "UNKNOWN" else _undef("empty node")
    op, kids = t[1], t[2]
    if op == "FUNCTION_PIECEWISE":
        i = 0
        while i + 1 < len(kids):
            if _truth(eval_mathml(kids[i + 1], env)):
                return eval_mathml(kids[i], env)
            i += 2
        if i < len(kids):
            return eval_mathml(kids[i], env)
        raise Undefined("no piece applies")
    if op == "LOGICAL_AND":
        for c in kids:
            if not _truth(eval_mathml(c, env)):
                return 0.0
        return 1.0
    if op == "LOGICAL_OR":
        for c in kids:
            if _truth(eval_mathml(c, env)):
                return 1.0
        return 0.0
    vs = [eval_mathml(c, env) for c in kids]
    n = len(vs)
    try:
        if op == "TIMES":
            return math.prod(vs)
        if op == "PLUS":
            return float(sum(vs))
        if op == "MINUS" and n == 1:
            return -vs[0]
        if op == "MINUS" and n == 2:
            return vs[0] - vs[1]
        if op == "DIVIDE" and n == 2:
            return vs[0] / vs[1]
        if op in ("POWER", "FUNCTION_POWER") and n == 2:
            r = vs[0] ** vs[1]
            if isinstance(r, complex):
                raise Undefined("complex power")
            return r
        if op == "FUNCTION_QUOTIENT" and n == 2:
            return float(math.floor(vs[0] / vs[1]))  # sign convention for negative operands: see design/C08.md
        if op == "FUNCTION_REM" and n == 2:
            return vs[0] - vs[1] * math.floor(vs[0] / vs[1])
        if op == "LOGICAL_NOT" and n == 1:
            return 0.0 if _truth(vs[0]) else 1.0
        rel = {"RELATIONAL_EQ": lambda a, b: a == b, "RELATIONAL_NEQ": lambda a, b: a != b, "RELATIONAL_LT": lambda a, b: a < b,
               "RELATIONAL_LEQ": lambda a, b: a <= b, "RELATIONAL_GT": lambda a, b: a > b, "RELATIONAL_GEQ": lambda a, b: a >= b}  # fmt: skip
        if op in rel and n >= 2 and (n == 2 or op != "RELATIONAL_NEQ"):
            return 1.0 if all(rel[op](a, b) for a, b in zip(vs, vs[1:])) else 0.0
        un = {"FUNCTION_ABS": abs, "FUNCTION_CEILING": math.ceil, "FUNCTION_FLOOR": math.floor, "FUNCTION_EXP": math.exp,
              "FUNCTION_SIN": math.sin, "FUNCTION_COS": math.cos, "FUNCTION_TAN": math.tan, "FUNCTION_ARCSIN": math.asin,
              "FUNCTION_ARCCOS": math.acos, "FUNCTION_ARCTAN": math.atan, "FUNCTION_SINH": math.sinh, "FUNCTION_COSH": math.cosh,
              "FUNCTION_TANH": math.tanh, "FUNCTION_ARCSINH": math.asinh, "FUNCTION_ARCCOSH": math.acosh,
              "FUNCTION_ARCTANH": math.atanh, "FUNCTION_LN": math.log, "FUNCTION_LOG": math.log10, "FUNCTION_ROOT": math.sqrt}  # fmt: skip
        if op in un and n == 1:
            return float(un[op](vs[0]))
        if op == "FUNCTION_ROOT" and n == 2:
            return vs[1] ** (1.0 / vs[0])
        if op == "FUNCTION_LOG" and n == 2:
            return math.log(vs[1], vs[0])
        if op == "FUNCTION_MAX" and n >= 1:
            return max(vs)
        if op == "FUNCTION_MIN" and n >= 1:
            return min(vs)
    except (ZeroDivisionError, ValueError, OverflowError) as e:
        raise Undefined(str(e)) from e
    raise Undefined(f"MathML node {op} with {n} children has no meaning")


def _undef(msg: str):
    raise Undefined(msg)


# ---------------------------------------------------------------------------------------
# expression generators
# ---------------------------------------------------------------------------------------

DYADIC = [Fraction(1, 2), Fraction(3, 2), Fraction(1, 4), Fraction(5, 2), Fraction(2), Fraction(3)]


def _numeric(rng, e: tuple) -> tuple:
    return ("int", rng.randint(0, 4)) if maybe_bool(e) else e


def gen_expr(rng, names: list[str], depth: int, wild: bool, flags: set[str]) -> tuple:
    """A random expression over `names`.  wild=True also draws constructs the exporter must refuse
    (flags gets "mayrefuse") and shapes that are not meant to be evaluated."""
    if depth <= 0 or rng.random() < 0.18:
        r = rng.random()
        if names and r < 0.6:
            return ("name", rng.choice(names))
        if r < 0.8:
            return ("int", rng.randint(0, 4))
        if r < 0.95:
            return ("real", rng.choice(DYADIC))
        if r < 0.975:
            return ("attr", rng.choice(["math", "np"]), rng.choice(["pi", "e"]))
        return ("bool", rng.random() < 0.5)
    sub = lambda d=depth - 1: gen_expr(rng, names, d, wild, flags)  # noqa: E731
    kinds = ["bin"] * 6 + ["un", "cmpif", "cmpif", "chainif", "chainif", "if_truthy", "call1", "call1", "calln", "notif", "cmpval", "pow"]
    if wild:
        kinds += ["unsupported"] * 3 + ["badcall"] * 3
    k = rng.choice(kinds)
    if k == "bin":
        op = rng.choice(["Mult", "Mult", "Add", "Add", "Sub", "Div", "FloorDiv"])
        return ("bin", op, sub(), sub())
    if k == "pow":
        return ("bin", "Pow", sub(), ("int", rng.randint(0, 3))) if rng.random() < 0.7 else ("callattr", "np", "power", [_numeric(rng, sub()), ("int", 2)], False)
    if k == "un":
        return ("un", "USub", sub())
    cmpop = lambda: rng.choice(["Eq", "NotEq", "Lt", "LtE", "Gt", "GtE"])  # noqa: E731
    if k == "cmpif":
        flags.add("conditional")
        return ("if", ("cmp", sub(1), [(cmpop(), sub(1))]), sub(), sub())
    if k == "chainif":
        flags.add("chained")
        n = rng.randint(2, 3)
        return ("if", ("cmp", sub(1), [(cmpop(), sub(1)) for _ in range(n)]), sub(), sub())
    if k == "if_truthy":
        flags.add("conditional")
        return ("if", sub(1), sub(), sub())
    if k == "notif":
        flags.add("conditional")
        return ("if", ("un", "Not", ("cmp", sub(1), [(cmpop(), sub(1))])), sub(), sub())
    if k == "cmpval":
        return ("bin", "Mult", ("cmp", sub(1), [(cmpop(), sub(1))]), sub())
    if k == "call1":
        flags.add("function")
        f = rng.choice(UNARY_FNS)
        r = rng.random()
        a = sub()
        if maybe_bool(a):
            a = ("int", rng.randint(0, 4))  # numpy.<fn>(bool) computes in float16: not a property of the exporter
        if r < 0.45 and f in MATH_HAS:
            return ("callattr", "math", f, [a], False)
        if r < 0.55 and f in ("sqrt", "sin", "log", "abs"):
            return ("callname", f, [a], False)
        return ("callattr", rng.choice(["np", "numpy"]), f, [a], False)
    if k == "calln":
        flags.add("function")
        f = rng.choice(["max", "min"])
        return ("callname", f, [sub() for _ in range(rng.randint(2, 3))], False)
    if k == "unsupported":
        flags.add("mayrefuse")
        c = rng.randint(0, 9)
        if c == 0:
            return ("bin", "Mod", sub(), ("int", 2))
        if c == 1:
            return ("other", f"({py_src(sub(0))} and {py_src(sub(0))})")
        if c == 2:
            return ("callattr", "math", rng.choice(["exp", "floor"]), [sub()], False)
        if c == 3:
            return ("un", rng.choice(["UAdd", "Invert"]), sub())
        if c == 4:
            return ("constother", rng.choice(["'s'", "None"]))
        if c == 5:
            return ("callother", [sub()])
        if c == 6:
            return ("attr", rng.choice(["math", "os", "np"]), rng.choice(["tau", "inf", "nan", "sep"]))
        if c == 7:
            return ("if", ("cmp", sub(1), [(rng.choice(["Is", "In"]), sub(1))]), sub(), sub())
        if c == 8:
            return ("callname", rng.choice(["helper", "exp", "float"]), [sub()], False)
        return ("callattr", "scipy", "sqrt", [sub()], False)
    # badcall: arity / keyword abuse of table functions
    flags.add("mayrefuse")
    c = rng.randint(0, 6)
    if c == 0:
        return ("callattr", "math", "log", [sub(), ("int", 2)], False)
    if c == 1:
        return ("callattr", "np", "remainder", [sub(), ("int", 2)], False)
    if c == 2:
        return ("callattr", "np", rng.choice(["max", "sqrt"]), [sub()], True)
    if c == 3:
        return ("callname", rng.choice(["sqrt", "power", "max"]), [], False)
    if c == 4:
        return ("callattr", "np", "power", [sub()], False)
    if c == 5:
        return ("callname", "max", [sub()], True)
    return ("callattr", "np", "sqrt", [sub(), sub()], False)


def _boolean(e: tuple) -> bool:
    return e[0] in ("cmp", "bool") or (e[0] == "un" and e[1] == "Not")


def maybe_bool(e: tuple) -> bool:
    """May the Python value of `e` be a bool object (rather than an int/float)?"""
    if _boolean(e):
        return True
    if e[0] == "if":
        return maybe_bool(e[2]) or maybe_bool(e[3])
    if e[0] == "callname" and e[1] in ("max", "min"):
        return any(maybe_bool(x) for x in e[2])
    return False


def mixes_bool_num(e: tuple, want_bool: bool = False) -> bool:
    """True if a truth value is used as a number or a number as a condition somewhere in `e`."""
    k = e[0]
    if _boolean(e) != want_bool and k not in ("if",):
        return True
    if k == "if":
        return want_bool or mixes_bool_num(e[1], True) or mixes_bool_num(e[2]) or mixes_bool_num(e[3])
    if k == "un":
        return mixes_bool_num(e[2], e[1] == "Not")
    if k == "bin":
        return mixes_bool_num(e[2]) or mixes_bool_num(e[3])
    if k == "cmp":
        return mixes_bool_num(e[1]) or any(mixes_bool_num(x) for _o, x in e[2])
    if k == "callname":
        return any(mixes_bool_num(x) for x in e[2])
    if k == "callattr":
        return any(mixes_bool_num(x) for x in e[3])
    if k == "callother":
        return any(mixes_bool_num(x) for x in e[1])
    return False


def _no_attr(e: tuple) -> tuple:
    """`e` with every math.pi / np.e leaf replaced by 1."""
    k = e[0]
    if k == "attr":
        return ("int", 1)
    if k == "un":
        return (k, e[1], _no_attr(e[2]))
    if k == "bin":
        return (k, e[1], _no_attr(e[2]), _no_attr(e[3]))
    if k == "cmp":
        return (k, _no_attr(e[1]), [(o, _no_attr(x)) for o, x in e[2]])
    if k == "if":
        return (k, _no_attr(e[1]), _no_attr(e[2]), _no_attr(e[3]))
    if k == "callname":
        return (k, e[1], [_no_attr(x) for x in e[2]], e[3])
    if k == "callattr":
        return (k, e[1], e[2], [_no_attr(x) for x in e[3]], e[4])
    return e


CORE_FNS = ["sqrt", "abs", "sin", "cos", "tanh", "arctan", "log", "log10", "ceil", "sinh", "arcsinh"]


def gen_core_expr(rng, names: list[str], depth: int, flags: set[str]) -> tuple:
    """The constructs the property names, numbers kept apart from truth values: arithmetic, powers, unary minus,
    conditional expressions whose test is a single / chained comparison (possibly negated), table functions on
    arguments inside their domain, n-ary max/min.  (Document level: the importer is pysbml + SymPy, which refuses a
    comparison used as a number or a number used as a condition -- recorded finding `boolean-as-number-import`.)"""
    if depth <= 0 or rng.random() < 0.2:
        r = rng.random()
        if names and r < 0.65:
            return ("name", rng.choice(names))
        if r < 0.82:
            return ("int", rng.randint(0, 4))
        if r < 0.97:
            return ("real", rng.choice(DYADIC))
        return ("attr", rng.choice(["math", "np"]), rng.choice(["pi", "e"]))
    sub = lambda d=depth - 1: gen_core_expr(rng, names, d, flags)  # noqa: E731
    cmpop = lambda: rng.choice(["Eq", "NotEq", "Lt", "LtE", "Gt", "GtE"])  # noqa: E731
    k = rng.choice(["bin"] * 6 + ["un", "cmpif", "cmpif", "chainif", "chainif", "notif", "call1", "call1", "calln", "pow", "div"])
    if k == "bin":
        return ("bin", rng.choice(["Mult", "Mult", "Add", "Add", "Sub"]), sub(), sub())
    if k == "div":
        den = rng.choice([("int", 2), ("real", Fraction(1, 2)), ("int", 4), ("bin", "Add", ("callname", "abs", [sub(1)], False), ("int", 1))])
        if den[0] == "bin":
            flags.add("function")
        return ("bin", "Div", sub(), den)
    if k == "pow":
        return ("bin", "Pow", sub(), ("int", rng.randint(0, 3))) if rng.random() < 0.7 else ("callattr", "np", "power", [sub(), ("int", 2)], False)
    if k == "un":
        return ("un", "USub", sub())
    if k == "cmpif":
        flags.add("conditional")
        return ("if", ("cmp", sub(1), [(cmpop(), sub(1))]), sub(), sub())
    if k == "chainif":
        flags.add("chained")
        return ("if", ("cmp", sub(1), [(cmpop(), sub(1)) for _ in range(rng.randint(2, 3))]), sub(), sub())
    if k == "notif":
        flags.add("conditional")
        return ("if", ("un", "Not", ("cmp", sub(1), [(cmpop(), sub(1))])), sub(), sub())
    if k == "call1":
        flags.add("function")
        f = rng.choice(CORE_FNS)
        # no pi/e inside a function: sin(pi) is 1.2e-16 in binary64 and 0 for the importer's SymPy, a comparison flips
        a = _no_attr(sub())
        if f in ("sqrt", "log", "log10"):
            a = ("bin", "Add", ("callname", "abs", [a], False), ("int", 1))
        r = rng.random()
        if r < 0.4 and f in MATH_HAS:
            return ("callattr", "math", f, [a], False)
        if r < 0.5 and f in ("sqrt", "sin", "log", "abs"):
            return ("callname", f, [a], False)
        return ("callattr", rng.choice(["np", "numpy"]), f, [a], False)
    flags.add("function")
    return ("callname", rng.choice(["max", "min"]), [sub() for _ in range(rng.randint(2, 3))], False)


def subst_names(e, mp: dict[str, str]):  # noqa: ANN001
    """`e` (expression tuple / list of them) with every ("name", x) leaf renamed through `mp` (simultaneously)."""
    if isinstance(e, list):
        return [subst_names(x, mp) for x in e]
    if not isinstance(e, tuple):
        return e
    if e and e[0] == "name":
        return ("name", mp.get(e[1], e[1]))
    if e and e[0] in ("constother", "other"):
        return e
    return tuple(subst_names(x, mp) for x in e)


def own_name_binding(rng, pool: list[str], k: int) -> tuple[list[str], list[str], str] | None:
    """A function whose OWN parameter names are model names bound in ANOTHER position: -> (params, args, mode).
    swap / rotation / permutation of the same k names; chain f(a, b) bound to [b, c]; overlap (some parameters are
    model names used elsewhere in the argument list, the others are not); repeat (one model name bound twice)."""
    if k < 1 or len(pool) < 1:
        return None
    modes = ["chain", "overlap"] if len(pool) > k else []
    if k >= 2 and len(pool) >= k:
        modes += ["swap", "rotation", "permutation"]
    if k >= 2 and len(pool) >= k - 1:
        modes += ["repeat"]
    if not modes:
        return None
    mode = rng.choice(modes)
    if mode in ("swap", "rotation", "permutation"):
        params = rng.sample(pool, k)
        if mode == "swap":
            i, j = rng.sample(range(k), 2)
            args = list(params)
            args[i], args[j] = args[j], args[i]
        elif mode == "rotation":
            r = rng.randint(1, k - 1)
            args = params[r:] + params[:r]
        else:
            args = list(params)
            while args == params:
                rng.shuffle(args)
        return params, args, mode
    if mode == "chain":
        xs = rng.sample(pool, k + 1)
        return (xs[:k], xs[1:], mode) if rng.random() < 0.75 else (xs[1:], xs[:k], "chain-reversed")
    if mode == "overlap":
        xs = rng.sample(pool, k + 1)
        args = xs[:k]
        params = list(args)
        rng.shuffle(params)
        params[rng.randrange(k)] = xs[k]  # one parameter is a model name that is not bound at all
        return params, args, mode
    # repeat: one model name is bound to two parameters (the renaming is not injective)
    params = [f"p{i}" for i in range(k)]
    base = rng.sample(pool, k - 1)
    args = base + [rng.choice(base)]
    rng.shuffle(args)
    if rng.random() < 0.5 and len(pool) >= k:
        params = rng.sample(pool, k)
    return params, args, mode


def gen_function(rng, n_params: int, depth: int, wild: bool) -> dict:
    params = [f"p{i}" for i in range(n_params)]
    flags: set[str] = set()
    names = list(params)
    if wild and rng.random() < 0.05:
        names.append("g50")
        flags.add("global")
    body: list[tuple] = []
    if rng.random() < 0.15:
        body.append(("doc",))
    e = gen_expr(rng, names, depth, wild, flags)
    if wild and rng.random() < 0.04:
        flags.add("mayrefuse")
        body.append(rng.choice([("returnnone",), ("otherstmt", "q = 1.0"), ("otherstmt", "pass")]))
        if rng.random() < 0.5:
            body.append(("return", e))
    else:
        body.append(("return", e))
        if wild and rng.random() < 0.03:
            flags.add("deadcode")
            body.append(("return", ("int", 7)))
    return {"params": params, "body": body, "flags": sorted(flags)}


# ---------------------------------------------------------------------------------------
# closing pass: multi-statement bodies and the two remainders
# ---------------------------------------------------------------------------------------


def _mentions(e, name: str) -> bool:  # noqa: ANN001
    if isinstance(e, tuple):
        if e and e[0] == "name":
            return e[1] == name
        return any(_mentions(x, name) for x in e)
    if isinstance(e, list):
        return any(_mentions(x, name) for x in e)
    return False


def gen_multistmt_function(rng) -> dict:  # noqa: ANN001
    """A function whose body has MORE than one statement after the docstring: intermediate assignments that rebind one of
    the function's own parameters (s = s / (km + s); return vmax * s) or introduce a local, an early `if ...: return`,
    an augmented assignment.  The exporter has no SBML counterpart for any of them: it must refuse ("mayrefuse"); what
    Python computes is known by calling the function."""
    k = rng.randint(1, 3)
    params = [f"p{i}" for i in range(k)]
    flags: set[str] = {"mayrefuse"}
    body: list[tuple] = [("doc",)] if rng.random() < 0.2 else []
    r = rng.random()
    visible = list(params)
    if r < 0.75:
        target = None
        for j in range(rng.randint(1, 2)):
            rebinding = rng.random() < 0.6
            target = rng.choice(params) if rebinding else f"t{60 + j}"
            val = gen_core_expr(rng, visible, rng.randint(1, 2), set())
            if rebinding and not _mentions(val, target) and rng.random() < 0.8:
                val = ("bin", rng.choice(["Add", "Mult", "Sub"]), val, ("name", target))
            body.append(("assign", target, val))
            flags.add("multistmt:" + ("rebinding" if rebinding else "local"))
            if target not in visible:
                visible.append(target)
        e = gen_core_expr(rng, visible, rng.randint(1, 2), set())
        if not _mentions(e, target):
            e = ("bin", rng.choice(["Add", "Mult", "Sub"]), e, ("name", target))
        body.append(("return", e))
    elif r < 0.9:
        cond = ("cmp", ("name", rng.choice(params)), [(rng.choice(["Lt", "GtE", "Gt"]), ("int", rng.randint(1, 3)))])
        early = gen_core_expr(rng, params, 1, set())
        body.append(("otherstmt", f"if {py_src(cond)}: return {py_src(early)}"))
        body.append(("return", ("bin", "Add", gen_core_expr(rng, params, 1, set()), ("int", 7))))
        flags.add("multistmt:early-return")
    else:
        target = rng.choice(params)
        body.append(("otherstmt", f"{target} {rng.choice(['+=', '*='])} {rng.randint(2, 3)}"))
        body.append(("return", ("bin", "Mult", ("name", target), gen_core_expr(rng, params, 1, set()))))
        flags.add("multistmt:augmented")
    return {"params": params, "body": body, "flags": sorted(flags)}


def gen_remainder_function(rng) -> dict:  # noqa: ANN001
    """numpy.remainder(a, b) is the floored modulo, math.remainder(a, b) the IEEE 754 remainder (5, 3 -> -1): the call tables
    of the exporter are looked up by name only.  Refusing is always allowed ("mayrefuse")."""
    k = rng.randint(1, 2)
    params = [f"p{i}" for i in range(k)]
    lib = rng.choice(["math", "math", "np", "numpy", None])
    a = ("bin", "Add", gen_core_expr(rng, params, 1, set()) if rng.random() < 0.4 else ("name", params[0]), ("int", rng.choice([1, 2, 3, 5])))
    b = rng.choice([("int", 3), ("int", 4), ("real", Fraction(5, 2)), ("bin", "Add", ("name", params[-1]), ("int", 2))])
    call = ("callname", "remainder", [a, b], False) if lib is None else ("callattr", lib, "remainder", [a, b], False)
    e = call if rng.random() < 0.5 else ("bin", rng.choice(["Mult", "Add"]), ("real", rng.choice(DYADIC)), call)
    return {"params": params, "body": [("return", e)], "flags": sorted({"mayrefuse", "function", "remainder:" + (lib or "bare")})}
