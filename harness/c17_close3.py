"""C17 helper (round-3 closing): three further directed streams with their own states, and the fixed documents of the
seeded shapes C17-7..9 they generalise.  Own rng streams; the older streams are what they were.

  equality conditions  piecewise expressions whose condition is MathML eq / neq between two non-constant quantities
                       (kinetic law, assignment rule, initial assignment), judged at states where the two sides are
                       equal, clearly different and DIFFERENT BY ONE PART IN 2^31 (the document then selects the
                       'not equal' branch: eq / neq compare values, they have no tolerance).  Both operands are exact in
                       binary64 at every chosen state (small dyadics; the perturbed quantity occurs once, linearly), so
                       exact rational reading and floating-point evaluation cannot disagree about the condition.
  guarded singular     a piecewise whose condition guards a term that is singular on the guard (division by a species,
  terms                ln / sqrt of it) and that occurs at least TWICE inside the guarded branch; judged ON the guard
                       (S = 0, S = k), where the document prescribes the finite value of the other branch, and off it.
  file stems           sessions of 3-4 documents read in ONE interpreter (a subprocess: harness/c17_session.py), with
                       file stems that are names of modules the generated code or the library itself imports (math,
                       scipy, mxlpy, sympy, numpy, ...) in every spelling the stem normalisation folds together; every
                       document has math functions in laws / rules / initial assignments; each document is judged
                       when read and AGAIN after every later read of the session.

Documents are the abstract dicts of harness/c17_sbml.py; a stream item is (document, states).
"""

from __future__ import annotations

import copy
from fractions import Fraction

from harness import c17_gen as G
from harness import c17_sbml as S


def num(p: int, q: int = 1) -> list:
    return ["num", p, q]


def sym(s: str) -> list:
    return ["sym", s]


def fr(x: Fraction) -> list[int]:
    return [x.numerator, x.denominator]


NEAR = Fraction(1, 2**31)  # 4.7e-10: well inside a relative tolerance of 1e-9, far above one unit in the last place
VALUES = [Fraction(1, 2), Fraction(1), Fraction(3, 2), Fraction(2), Fraction(3), Fraction(5, 4), Fraction(4)]
POW2 = [Fraction(1, 2), Fraction(1), Fraction(2), Fraction(4)]


def _hdr(rng, species: list[dict], pars: list[dict]) -> dict:  # noqa: ANN001
    return {
        "compartments": [{"id": "c", "size": list(rng.choice(G.DYADIC_SIZES))}],
        "species": species,
        "parameters": pars,
        "functions": [],
        "rules": [],
        "inits": [],
        "reactions": [],
    }


def _sp(i: str, v: Fraction, kind: str) -> dict:
    return {"id": i, "comp": "c", "init": fr(v), "kind": kind}


# ---------------------------------------------------------------------------------------
# equality conditions
# ---------------------------------------------------------------------------------------

EQ_SHAPES = ["law", "law-scaled", "law-shifted", "law-vs-parameter", "rule", "init", "two-laws"]


def eq_doc(rng, shape: str | None = None) -> tuple[dict, list[dict[str, Fraction]]]:  # noqa: ANN001, C901, PLR0912, PLR0915
    """-> (document, states).  The condition is `a REL b` with a = X | c*X | X + c (X a species, c a power of two) and b
    an expression without X; states: a == b, a clearly != b, a = b*(1 +- 2^-31)."""
    shape = shape or rng.choice(EQ_SHAPES)
    rel = rng.choice(["eq", "eq", "ne"])
    kinds = [rng.choice(["amount", "conc"]) for _ in range(3)]
    k1, k2 = rng.sample(VALUES, 2)
    d = _hdr(rng, [_sp("X", rng.choice(VALUES), kinds[0]), _sp("Y", rng.choice(VALUES), kinds[1])], [{"id": "k1", "value": fr(k1)}, {"id": "k2", "value": fr(k2)}])
    coef = lambda: list(rng.choice(G.STOICH))  # noqa: E731
    scale = Fraction(1)
    shift = Fraction(0)
    a: list = sym("X")
    if shape == "law-scaled":
        scale = rng.choice([Fraction(2), Fraction(1, 2), Fraction(4)])
        a = ["mul", num(*fr(scale)), sym("X")]
    if shape == "law-shifted":
        shift = rng.choice([Fraction(1), Fraction(1, 2), Fraction(2)])
        a = ["add", sym("X"), num(*fr(shift))]
    # the other side
    if shape == "law-vs-parameter":
        b: list = rng.choice([sym("k1"), ["add", sym("k1"), sym("k2")], ["mul", num(2), sym("k2")]])
    elif rng.random() < 0.5:
        b = sym("Y")
    else:
        b = rng.choice([["add", sym("Y"), sym("k1")], ["mul", sym("k2"), sym("Y")], ["sub", ["mul", num(2), sym("Y")], num(1, 2)]])
    if rng.random() < 0.5:
        a, b = b, a  # which side carries X does not matter
    cond = [rel, a, b]
    then_v, else_v = ["mul", sym("k1"), sym("Y")], ["mul", sym("k2"), ["add", sym("Y"), num(1)]]
    pw = ["pw", then_v, cond, else_v]
    rx = [
        {"id": "v1", "reactants": [["X", coef()]], "products": [["Y", coef()]], "math": ["mul", sym("k1"), sym("X")]},
        {"id": "v2", "reactants": [["Y", coef()]], "products": [], "math": ["mul", sym("k2"), sym("Y")]},
    ]
    if shape in ("law", "law-scaled", "law-shifted", "law-vs-parameter"):
        rx[rng.randrange(2)]["math"] = pw
    elif shape == "two-laws":
        rx[0]["math"] = pw
        rx[1]["math"] = ["pw", ["mul", sym("k2"), sym("Y")], ["ne" if rel == "eq" else "eq", a, b], ["mul", sym("k1"), sym("Y")]]
    elif shape == "rule":
        d["parameters"].append({"id": "q1", "value": [0, 1]})
        d["rules"].append({"var": "q1", "math": pw})
        rx[0]["math"] = ["mul", sym("q1"), sym("X")] if rng.random() < 0.5 else ["add", sym("q1"), sym("X")]
    d["reactions"] = rx

    if shape == "init":
        # the condition compares two PARAMETER values of the file (evaluated once, when the model is built)
        base = rng.choice(VALUES)
        mode = rng.choice(["equal", "far", "near+", "near-"])
        other = {"equal": base, "far": base + 1, "near+": base * (1 + NEAR), "near-": base * (1 - NEAR)}[mode]
        d["parameters"] += [{"id": "p1", "value": fr(base)}, {"id": "p2", "value": fr(other)}]
        tgt = rng.choice(["k1", "X"])
        d["inits"].append({"sym": tgt, "math": ["pw", num(2), [rel, sym("p1"), sym("p2")], num(5)]})
        d["flavour"] = f"eq:init:{mode}"
        states = [{"X": rng.choice(VALUES), "Y": rng.choice(VALUES)} for _ in range(2)]
        return d, states

    # states: solve a(X) = target for X  (a = scale*X + shift)
    M = S.Meaning(d)  # noqa: N806
    init = M.initial()
    states: list[dict[str, Fraction]] = []
    modes = []
    for mode in ("equal", "far", "near+", "near-", "near+"):
        y = rng.choice(VALUES)
        env = dict(init)
        env["Y"] = y
        side_b = b if S.syms(a) >= {"X"} else a
        bval = S.ev(side_b, env, {})
        target = {"equal": bval, "far": bval + rng.choice([1, 2, Fraction(1, 2)]), "near+": bval * (1 + NEAR), "near-": bval * (1 - NEAR)}[mode]
        x = (target - shift) / scale
        if x < 0:
            continue
        states.append({"X": x, "Y": y})
        modes.append(mode)
    d["flavour"] = f"eq:{shape}"
    return d, states


# ---------------------------------------------------------------------------------------
# guarded singular terms
# ---------------------------------------------------------------------------------------

GUARD_SHAPES = ["ratio-fn", "ln-twice", "inverse-twice", "sqrt-twice", "otherwise-branch", "neq-zero", "rule", "init"]


def guard_doc(rng, shape: str | None = None) -> tuple[dict, list[dict[str, Fraction]]]:  # noqa: ANN001, C901, PLR0912, PLR0915
    shape = shape or rng.choice(GUARD_SHAPES)
    kinds = [rng.choice(["amount", "conc"]) for _ in range(2)]
    k1, k2 = rng.sample(VALUES, 2)
    d = _hdr(rng, [_sp("X", rng.choice(VALUES), kinds[0]), _sp("Y", rng.choice(VALUES), kinds[1])], [{"id": "k1", "value": fr(k1)}, {"id": "k2", "value": fr(k2)}])
    coef = lambda: list(rng.choice(G.STOICH))  # noqa: E731
    other = rng.choice([num(0), sym("k2"), ["mul", sym("k2"), sym("Y")]])
    guard_at = Fraction(0)  # value of X on the guard
    if shape in ("ratio-fn", "rule", "init"):
        d["functions"].append({"id": "hyper", "args": ["k", "r"], "math": ["div", ["mul", sym("k"), sym("r")], ["add", num(1), sym("r")]]})
        pw = ["pw", ["call", "hyper", [sym("k1"), ["div", sym("Y"), sym("X")]]], ["gt", sym("X"), num(0)], other]
    elif shape == "ln-twice":
        ln = ["ln", sym("X")]
        pw = ["pw", ["add", ["mul", ["mul", sym("k2"), ln], ["add", num(1), ln]], sym("k2")], ["gt", sym("X"), num(0)], other]
    elif shape == "inverse-twice":
        pw = ["pw", ["add", ["div", sym("k1"), sym("X")], ["div", sym("Y"), sym("X")]], ["gt", sym("X"), num(0)], other]
    elif shape == "sqrt-twice":
        guard_at = k1 - Fraction(1, 2)  # X < k1: the root's argument is negative
        rt = ["sqrt", ["sub", sym("X"), sym("k1")]]
        pw = ["pw", ["mul", rt, ["add", num(1), rt]], ["ge", sym("X"), sym("k1")], other]
    elif shape == "otherwise-branch":
        inv = ["div", num(1), sym("X")]
        pw = ["pw", other, ["le", sym("X"), num(0)], ["mul", ["mul", sym("k1"), inv], ["add", sym("Y"), inv]]]
    else:  # neq-zero
        pw = ["pw", ["add", ["div", sym("k1"), sym("X")], ["div", ["mul", sym("k2"), sym("Y")], sym("X")]], ["ne", sym("X"), num(0)], other]
    rx = [
        {"id": "v1", "reactants": [["X", coef()]], "products": [["Y", coef()]], "math": ["mul", sym("k1"), sym("X")]},
        {"id": "v2", "reactants": [["Y", coef()]], "products": [], "math": ["mul", sym("k2"), sym("Y")]},
    ]
    if shape == "rule":
        d["parameters"].append({"id": "q1", "value": [0, 1]})
        d["rules"].append({"var": "q1", "math": pw})
        rx[1]["math"] = ["mul", sym("q1"), sym("Y")]
    elif shape == "init":
        # the guard is on a PARAMETER of the file whose value is 0 (or not): evaluated when the model is built
        p0 = rng.choice([Fraction(0), Fraction(0), Fraction(2)])
        d["parameters"].append({"id": "p0", "value": fr(p0)})
        d["inits"].append({"sym": rng.choice(["k2", "Y"]), "math": ["pw", ["call", "hyper", [sym("k1"), ["div", num(3), sym("p0")]]], ["gt", sym("p0"), num(0)], num(5, 4)]})
    else:
        rx[rng.randrange(2)]["math"] = pw
    d["reactions"] = rx
    d["flavour"] = f"guard:{shape}"
    on = {"X": guard_at, "Y": rng.choice(VALUES)}
    off = [{"X": k1 + rng.choice(VALUES), "Y": rng.choice(VALUES)} for _ in range(2)]
    states = [off[0], on, off[1], {"X": guard_at, "Y": Fraction(0)}]
    if shape == "sqrt-twice":
        states.append({"X": k1, "Y": rng.choice(VALUES)})  # root of zero: inside the guarded branch
    return d, states


# ---------------------------------------------------------------------------------------
# file stems: sessions
# ---------------------------------------------------------------------------------------

# modules the generated module imports (math, scipy, mxlpy), modules mxlpy / the evaluation import lazily or that any
# later `import` statement of the session would ask sys.modules for, in the spellings valid_filename folds together
MODULE_STEMS = [
    "math", "Math", "MATH", " math", "math-", "m!a@t#h", "scipy", "SciPy", "sci.py", "mxlpy", "MxlPy", "mxlpy!", "sympy", "numpy", "pandas",
    "os", "sys", "re", "json", "typing", "warnings", "inspect", "pathlib", "importlib", "collections", "functools", "types", "abc",
    "keyword", "fractions", "random", "operator", "itertools", "dataclasses", "copy", "time", "string", "io", "enum", "cmath", "decimal",
]  # fmt: skip
NEUTRAL_STEMS = ["alpha", "beta", "model_1", "glycolysis", "Teusink2000", "BIOMD0000000012", "00001-sbml-l3v2", "my model", "x-1", "case 7", "v2.final"]


def session_doc(rng) -> tuple[dict, list[dict[str, Fraction]]]:  # noqa: ANN001
    """a small document with math functions in its laws (and sometimes in a rule / an initial assignment)"""
    k = rng.sample(VALUES, 2)
    kinds = [rng.choice(["amount", "conc"]) for _ in range(2)]
    d = _hdr(rng, [_sp("S1", rng.choice(VALUES), kinds[0]), _sp("S2", rng.choice(VALUES), kinds[1])], [{"id": "k", "value": fr(k[0])}, {"id": "kd", "value": fr(k[1])}])
    coef = lambda: list(rng.choice(G.STOICH))  # noqa: E731
    f1 = rng.choice([["exp", ["neg", sym("S2")]], ["cos", sym("S2")], ["sqrt", ["add", num(1), sym("S2")]]])
    f2 = rng.choice([["ln", ["add", num(1), sym("S2")]], ["sin", sym("S1")], ["exp", ["neg", ["mul", sym("S1"), sym("S1")]]]])
    d["reactions"] = [
        {"id": "v1", "reactants": [["S1", coef()]], "products": [["S2", coef()]], "math": ["mul", ["mul", sym("k"), sym("S1")], f1]},
        {"id": "v2", "reactants": [["S2", coef()]], "products": [], "math": ["mul", sym("kd"), f2]},
    ]
    r = rng.random()
    if r < 0.3:
        d["parameters"].append({"id": "q1", "value": [0, 1]})
        d["rules"].append({"var": "q1", "math": ["add", ["sqrt", ["add", num(1), ["mul", sym("S1"), sym("S1")]]], sym("k")]})
        d["reactions"][0]["math"] = ["mul", d["reactions"][0]["math"], sym("q1")]
    elif r < 0.5:
        d["inits"].append({"sym": "kd", "math": ["add", ["exp", ["neg", sym("k")]], num(1, 2)]})
    d["flavour"] = "session"
    states = [{"S1": rng.choice(VALUES), "S2": rng.choice(VALUES)} for _ in range(2)]
    return d, states


def stem_session(rng, first: bool = False) -> list[dict]:  # noqa: ANN001
    """steps [{"stem", "doc", "states"}]: neutral and module-named stems mixed; the first session of every run is the one of
    seeded/C17-7/demo.py (alpha, math, beta)"""
    if first:
        stems = ["alpha", "math", "beta"]
    else:
        n = rng.choice([3, 3, 4])
        stems = [rng.choice(MODULE_STEMS) if rng.random() < 0.6 else rng.choice(NEUTRAL_STEMS) for _ in range(n)]
        if not any(s in MODULE_STEMS for s in stems):
            stems[rng.randrange(n)] = rng.choice(MODULE_STEMS)
    steps = []
    for s in stems:
        d, st = session_doc(rng)
        steps.append({"stem": s, "doc": d, "states": [{k: fr(v) for k, v in x.items()} for x in st]})
    return steps


# ---------------------------------------------------------------------------------------
# the documents of the seeded shapes C17-8 / C17-9 (demo.py in the abstract format); run first on every tier
# ---------------------------------------------------------------------------------------


def fixed_documents3() -> list[tuple[str, dict, list[dict[str, Fraction]]]]:
    out = []
    one = Fraction(1)
    # C17-8: v1 = k1*S1 if S1 == S2 else k2*S1 ; v2 = k2*S2 if S1 != S2 else k1*S2
    a = {
        "compartments": [{"id": "c", "size": [1, 1]}],
        "species": [_sp("S1", one, "amount"), _sp("S2", one, "amount")],
        "parameters": [{"id": "k1", "value": [1, 2]}, {"id": "k2", "value": [3, 1]}],
        "functions": [], "rules": [], "inits": [],
        "reactions": [
            {"id": "v1", "reactants": [["S1", [1, 1]]], "products": [["S2", [1, 1]]],
             "math": ["pw", ["mul", sym("k1"), sym("S1")], ["eq", sym("S1"), sym("S2")], ["mul", sym("k2"), sym("S1")]]},
            {"id": "v2", "reactants": [["S2", [1, 1]]], "products": [],
             "math": ["pw", ["mul", sym("k2"), sym("S2")], ["ne", sym("S1"), sym("S2")], ["mul", sym("k1"), sym("S2")]]},
        ],
        "flavour": "fixed:eq_neq_conditions",
    }  # fmt: skip
    p, q = (0.1 + 0.2).as_integer_ratio()
    p3, q3 = (0.3).as_integer_ratio()
    sts = [
        {"S1": one, "S2": one},
        {"S1": Fraction(2), "S2": one},
        {"S1": one, "S2": one + Fraction(1, 2**40)},
        {"S1": Fraction(p, q), "S2": Fraction(p3, q3)},
        {"S1": one, "S2": one - NEAR},
    ]
    out.append(("eq_neq_conditions", a, sts))
    # C17-9: v1 = hyper(k1, S2/S1) if S1 > 0 else 0 ; v2 = k2*ln(S2)*(1+ln(S2)) + k2 if S2 > 0 else k2
    ln = ["ln", sym("S2")]
    b = {
        "compartments": [{"id": "c", "size": [1, 1]}],
        "species": [_sp("S1", Fraction(2), "amount"), _sp("S2", one, "amount")],
        "parameters": [{"id": "k1", "value": [1, 2]}, {"id": "k2", "value": [3, 1]}],
        "functions": [{"id": "hyper", "args": ["k", "r"], "math": ["div", ["mul", sym("k"), sym("r")], ["add", num(1), sym("r")]]}],
        "rules": [], "inits": [],
        "reactions": [
            {"id": "v1", "reactants": [["S1", [1, 1]]], "products": [["S2", [1, 1]]],
             "math": ["pw", ["call", "hyper", [sym("k1"), ["div", sym("S2"), sym("S1")]]], ["gt", sym("S1"), num(0)], num(0)]},
            {"id": "v2", "reactants": [["S2", [1, 1]]], "products": [],
             "math": ["pw", ["add", ["mul", ["mul", sym("k2"), ln], ["add", num(1), ln]], sym("k2")], ["gt", sym("S2"), num(0)], sym("k2")]},
        ],
        "flavour": "fixed:guarded_singular_terms",
    }  # fmt: skip
    sts = [
        {"S1": Fraction(2), "S2": one},
        {"S1": Fraction(1, 4), "S2": Fraction(4)},
        {"S1": Fraction(0), "S2": Fraction(3, 2)},
        {"S1": Fraction(3, 2), "S2": Fraction(0)},
        {"S1": Fraction(0), "S2": Fraction(0)},
    ]
    out.append(("guarded_singular_terms", b, sts))
    # the rational sibling of the above (1/S1 twice inside the guarded branch) -- witness w_guarded of SbmlWitness3.v
    c = {
        "compartments": [{"id": "c", "size": [1, 1]}],
        "species": [_sp("S1", Fraction(2), "amount"), _sp("S2", one, "amount")],
        "parameters": [{"id": "k1", "value": [1, 2]}, {"id": "k2", "value": [3, 1]}],
        "functions": [], "rules": [], "inits": [],
        "reactions": [
            {"id": "v1", "reactants": [["S1", [1, 1]]], "products": [["S2", [1, 1]]],
             "math": ["pw", ["add", ["div", sym("k1"), sym("S1")], ["div", sym("S2"), sym("S1")]], ["gt", sym("S1"), num(0)], sym("k2")]},
        ],
        "flavour": "fixed:guarded_inverse_twice",
    }  # fmt: skip
    out.append(("guarded_inverse_twice", c, [{"S1": Fraction(2), "S2": one}, {"S1": Fraction(0), "S2": Fraction(3, 2)}]))
    return [(n, copy.deepcopy(d), s) for n, d, s in out]
