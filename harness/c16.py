"""C16 -- the linear label model tracks the isotopomer model's positional enrichment.

Tie to the source:
  (1) facts regenerated from src/mxlpy/linear_label_map.py (reading direction used by build_model and
      by _map_substrates_to_labelmap, shapes of the helpers and of the reaction loop) and from
      label_map.py (documented reading of the isotopomer mapper) -- PropsC16.v pins them;
  (2) correspondence: `build_linear` (coq/label/Linear.v) is evaluated inside Coq on the inputs the real
      `LinearLabelMapper.build_model` ran on and must build the SAME model (variables with initial
      enrichments, parameters, per-position reactions with arguments and 1/pool coefficients, in order)
      or fail with the same error class; the model's right-hand side over Q must equal
      `get_right_hand_side` at dyadic labelling states (pools in {1,2,4,8}: everything exact);
  (3) an independent oracle judges the PROPERTY on the two real mappers: on flux-balanced mass-action
      networks (chains, splits, merges, branches, reversible pairs, carrier cycles) with random label
      counts and random bijective maps it compares, exactly in Fractions, the linear model's derivative
      of every position with (sum of the isotopomer model's derivatives over the isotopomers carrying
      that position) / pool at random isotopomer distributions with the steady-state pool sizes; and
      checks that uniform enrichment equal to the external pool is stationary and that no label appears
      from nothing.
"""

from __future__ import annotations

from fractions import Fraction
from typing import Any

from harness import c05_label as L
from harness import c16_session as S
from harness import common
from harness.common import Run, cq

AREA = "label"
PROPS = "PropsC16.v"
PROP = "C16"


def gen() -> dict[str, str]:
    return L.gen()


# ---------------------------------------------------------------------------------------
# flux-balanced mass-action networks (oracle)
# ---------------------------------------------------------------------------------------


def gen_steady(rng) -> dict:
    """-> {"rxns": [(name, [substrates], [products], flux)], "pools": {c: int}, "lv": {c: n}, "maps": {...}}"""
    t = rng.choice(["chain", "chain3", "split", "merge", "branch", "reversible", "carrier"])
    J, K = rng.randint(1, 4), rng.randint(1, 3)
    # roles get their names in random order, so that the order in which a reaction DECLARES several substrates / products is
    # not the alphabetical one (both mappers must concatenate the atom positions in declaration order)
    A, B, C, D = rng.sample(["c1", "c2", "c3", "c4"], 4)
    if t == "chain":
        rx = [([], [A], J), ([A], [B], J), ([B], [], J)]
    elif t == "chain3":
        rx = [([], [A], J), ([A], [B], J), ([B], [C], J), ([C], [], J)]
    elif t == "split":
        rx = [([], [A], J), ([A], [B, C], J), ([B], [], J), ([C], [], J)]
    elif t == "merge":
        rx = [([], [A], J), ([], [B], J), ([A, B], [C], J), ([C], [], J)]
    elif t == "branch":
        rx = [([], [A], J + K), ([A], [B], J), ([A], [C], K), ([B], [], J), ([C], [], K)]
    elif t == "reversible":
        rx = [([], [A], J), ([A], [B], J + K), ([B], [A], K), ([B], [], J)]
    else:  # carrier cycle: A + D -> B ; B -> C + D
        rx = [([], [A], J), ([A, D], [B], J), ([B], [C, D], J), ([C], [], J)]
    cpds = sorted({c for s, p, _ in rx for c in s + p})
    pools = {c: rng.choice([1, 2, 4, 8]) for c in cpds}
    lv = {c: rng.choice([1, 1, 2, 2, 3]) for c in cpds}
    rxns, maps = [], {}
    for j, (s, p, v) in enumerate(rx):
        name = f"v{40 + j}"
        if rng.random() < 0.5:
            s, p = list(reversed(s)), list(reversed(p))
        rxns.append((name, s, p, v))
        n = max(sum(lv[c] for c in s), sum(lv[c] for c in p))
        kind = rng.choice(["perm", "perm", "perm", "id", "invol"])
        m = list(range(n))
        if kind == "perm":
            rng.shuffle(m)
        elif kind == "invol" and n >= 2:
            a, b = rng.sample(range(n), 2)
            m[a], m[b] = m[b], m[a]
        maps[name] = m
    if rng.random() < 0.5:
        items = list(maps.items())
        rng.shuffle(items)
        maps = dict(items)
    return {"template": t, "rxns": rxns, "pools": pools, "lv": lv, "maps": maps}


# templates whose reactions carry stoichiometric coefficients of magnitude >= 2 (2 A -> B, B -> 2 C, 3 A -> B, -> 2 A, 2 A -> ):
# both mappers expand a coefficient k into k copies of the compound's atom positions (k occurrences in the mass-action rate,
# the flux drains a substrate position k times / feeds k product copies).  Drawn from an OWN random stream ("c16-coef"), so the
# unit-coefficient families above see the same inputs as before.
COEF_TEMPLATES = ["dimer", "double", "dimer-double", "dimer-merge", "double-split", "influx2", "efflux2", "triple", "dimer-reversible",
                  "dimer-to-two"]


def gen_coef_steady(rng) -> dict:
    t = rng.choice(COEF_TEMPLATES)
    J, K = rng.randint(1, 3), rng.randint(1, 2)
    A, B, C, D = rng.sample(["c1", "c2", "c3", "c4"], 4)

    def mix(side):
        side = list(side)
        rng.shuffle(side)  # [A, B, A]: the rate names the compounds interleaved, the stoichiometry dict declares them by first mention
        return side

    if t == "dimer":  # 2 A -> B
        rx = [([], [A], 2 * J), ([A, A], [B], J), ([B], [], J)]
    elif t == "double":  # A -> 2 B
        rx = [([], [A], J), ([A], [B, B], J), ([B], [], 2 * J)]
    elif t == "dimer-double":  # 2 A -> B -> 2 C
        rx = [([], [A], 2 * J), ([A, A], [B], J), ([B], [C, C], J), ([C], [], 2 * J)]
    elif t == "dimer-merge":  # 2 A + B -> C
        rx = [([], [A], 2 * J), ([], [B], J), (mix([A, A, B]), [C], J), ([C], [], J)]
    elif t == "double-split":  # A -> 2 B + C
        rx = [([], [A], J), ([A], mix([B, B, C]), J), ([B], [], 2 * J), ([C], [], J)]
    elif t == "influx2":  # -> 2 A (two external molecules per turnover)
        rx = [([], [A, A], J), ([A], [B], 2 * J), ([B], [], 2 * J)]
    elif t == "efflux2":  # 2 A -> (both copies leave)
        rx = [([], [A], 2 * J), ([A, A], [], J)]
    elif t == "triple":  # 3 A -> B
        rx = [([], [A], 3 * J), ([A, A, A], [B], J), ([B], [], J)]
    elif t == "dimer-reversible":  # 2 A <-> B as two reactions
        rx = [([], [A], 2 * J), ([A, A], [B], J + K), ([B], [A, A], K), ([B], [], J)]
    else:  # dimer-to-two: 2 A -> B + C with D as a carrier: 2 A + D -> B ; B -> C + D
        rx = [([], [A], 2 * J), (mix([A, A, D]), [B], J), ([B], mix([C, D]), J), ([C], [], J)]
    cpds = sorted({c for s, p, _ in rx for c in s + p})
    pools = {c: rng.choice([1, 2, 4, 8]) for c in cpds}
    lv = {c: rng.choice([1, 1, 2, 2, 3]) for c in cpds}
    # keep the isotopomer model small: at most 6 substrate atoms per reaction (2^6 patterns)
    while max(sum(lv[c] for c in s) for s, _, _ in rx) > 6:
        c = max(lv, key=lambda k: (lv[k], k))
        lv[c] -= 1
    rxns, maps = [], {}
    for j, (s, p, v) in enumerate(rx):
        name = f"v{40 + j}"
        rxns.append((name, list(s), list(p), v))
        n = max(sum(lv[c] for c in s), sum(lv[c] for c in p))
        kind = rng.choice(["perm", "perm", "perm", "id", "invol"])
        m = list(range(n))
        if kind == "perm":
            rng.shuffle(m)
        elif kind == "invol" and n >= 2:
            a, b = rng.sample(range(n), 2)
            m[a], m[b] = m[b], m[a]
        maps[name] = m
    if rng.random() < 0.5:
        items = list(maps.items())
        rng.shuffle(items)
        maps = dict(items)
    return {"template": "coef-" + t, "rxns": rxns, "pools": pools, "lv": lv, "maps": maps}


# minimised witness of the repaired direction defect (fixes/C16-map-direction.diff): runs first on every run
REGRESSION_NETS = [
    {"template": "regression-3cycle", "rxns": [("v40", [], ["c1"], 1), ("v41", ["c1"], ["c2"], 1), ("v42", ["c2"], [], 1)],
     "pools": {"c1": 1, "c2": 1}, "lv": {"c1": 3, "c2": 3}, "maps": {"v40": [0, 1, 2], "v41": [1, 2, 0], "v42": [0, 1, 2]},
     "dists": [{"c1__000": 0, "c1__001": 0, "c1__010": 0, "c1__011": 0, "c1__100": 1, "c1__101": 0, "c1__110": 0, "c1__111": 0,
                "c2__000": 1, "c2__001": 0, "c2__010": 0, "c2__011": 0, "c2__100": 0, "c2__101": 0, "c2__110": 0, "c2__111": 0}]},
    # corpus: a merge and a split whose compounds are DECLARED in non-alphabetical order with different label counts
    # (c2(1) + c1(2) -> c3(3), c3(3) -> c4(2) + c1'(1)): both mappers concatenate the atom positions in declaration order
    {"template": "corpus-declaration-order",
     "rxns": [("v40", [], ["c2"], 1), ("v41", [], ["c1"], 1), ("v42", ["c2", "c1"], ["c3"], 1), ("v43", ["c3"], ["c5", "c4"], 1),
              ("v44", ["c5"], [], 1), ("v45", ["c4"], [], 1)],
     "pools": {"c1": 1, "c2": 1, "c3": 1, "c4": 1, "c5": 1}, "lv": {"c1": 2, "c2": 1, "c3": 3, "c4": 1, "c5": 2},
     "maps": {"v40": [0], "v41": [0, 1], "v42": [0, 1, 2], "v43": [0, 1, 2], "v44": [0, 1], "v45": [0]},
     "dists": [{"c1__00": 1, "c1__01": 0, "c1__10": 0, "c1__11": 0, "c2__0": 0, "c2__1": 1,
                "c3__000": 0, "c3__001": 0, "c3__010": 0, "c3__011": 0, "c3__100": 1, "c3__101": 0, "c3__110": 0, "c3__111": 0,
                "c4__0": 1, "c4__1": 0, "c5__00": 1, "c5__01": 0, "c5__10": 0, "c5__11": 0}]},
]


# corpus of the coefficient family (runs first in that family on every run): the network of seeded/C16-4 (2 c1 -> c2 -> 2 c3 with
# non-involutive maps, dyadic pools) and the smallest homodimer / doubling reactions
COEF_CORPUS_NETS = [
    {"template": "coef-corpus-dimer-double",
     "rxns": [("v40", [], ["c1"], 2), ("v41", ["c1", "c1"], ["c2"], 1), ("v42", ["c2"], ["c3", "c3"], 1), ("v43", ["c3"], [], 2)],
     "pools": {"c1": 2, "c2": 1, "c3": 2}, "lv": {"c1": 2, "c2": 4, "c3": 2},
     "maps": {"v40": [1, 0], "v41": [2, 0, 3, 1], "v42": [3, 1, 0, 2], "v43": [1, 0]},
     "dists": [{"c1__00": 0, "c1__01": 1, "c1__10": 1, "c1__11": 0,
                **{f"c2__{a}{b}{c}{d}": int((a, b, c, d) == (1, 0, 0, 0)) for a in (0, 1) for b in (0, 1) for c in (0, 1) for d in (0, 1)},
                "c3__00": 1, "c3__01": 0, "c3__10": 1, "c3__11": 0}]},
    {"template": "coef-corpus-dimer",
     "rxns": [("v40", [], ["c1"], 2), ("v41", ["c1", "c1"], ["c2"], 1), ("v42", ["c2"], [], 1)],
     "pools": {"c1": 1, "c2": 1}, "lv": {"c1": 1, "c2": 2}, "maps": {"v40": [0], "v41": [1, 0], "v42": [0, 1]},
     "dists": [{"c1__0": 0, "c1__1": 1, "c2__00": 1, "c2__01": 0, "c2__10": 0, "c2__11": 0}]},
    {"template": "coef-corpus-double",
     "rxns": [("v40", [], ["c2"], 1), ("v41", ["c2"], ["c1", "c1"], 1), ("v42", ["c1"], [], 2)],
     "pools": {"c1": 1, "c2": 1}, "lv": {"c1": 1, "c2": 2}, "maps": {"v40": [0, 1], "v41": [1, 0], "v42": [0]},
     "dists": [{"c1__0": 1, "c1__1": 0, "c2__00": 0, "c2__01": 0, "c2__10": 1, "c2__11": 0}]},
]


def side_counts(side: list[str]) -> dict[str, int]:
    """[A, B, A] -> {A: 2, B: 1}: stoichiometric multiplicity of a reaction side, in order of first mention."""
    d: dict[str, int] = {}
    for c in side:
        d[c] = d.get(c, 0) + 1
    return d


def stoich_of(s: list[str], p: list[str]) -> dict[str, int]:
    """Stoichiometry dict of a reaction whose sides are MULTISETS (a compound named k times has coefficient -k / +k)."""
    return {c: -n for c, n in side_counts(s).items()} | {c: n for c, n in side_counts(p).items()}


def steady_models(net: dict, ext):
    """Build the base model (dyadic rate constants so that flux = k * prod(pools)), both label models.
    A compound listed k times on a side has the stoichiometric coefficient k and enters the mass-action rate k times."""
    import pandas as pd

    from mxlpy import LabelMapper, LinearLabelMapper, Model

    m = Model()
    m.add_variables({c: float(v) for c, v in net["pools"].items()})
    for j, (name, s, p, v) in enumerate(net["rxns"]):
        denom = 1
        for c in s:
            denom *= net["pools"][c]
        k = Fraction(v, denom)
        m.add_parameter(f"p{20 + j}", float(k))
        m.add_reaction(name, fn=L.PROD[len(s) + 1], args=[*s, f"p{20 + j}"], stoichiometry=stoich_of(s, p))
    maps = {k: list(v) for k, v in net["maps"].items()}
    iso = LabelMapper(m, label_variables=dict(net["lv"]), label_maps=maps).build_model()
    lin = LinearLabelMapper(m, label_variables=dict(net["lv"]), label_maps=maps).build_model(
        pd.Series({c: float(v) for c, v in net["pools"].items()}, dtype=float),
        pd.Series({name: float(v) for name, _, _, v in net["rxns"]}, dtype=float),
        external_label=float(ext),
    )
    return m, iso, lin


def gen_distribution(rng, net: dict) -> dict[str, int]:
    """Integer isotopomer amounts whose totals are the pool sizes."""
    st = {}
    for c, n in net["lv"].items():
        names = L.iso_names(c, n)
        for k in names:
            st[k] = 0
        for _ in range(net["pools"][c]):
            st[rng.choice(names)] += 1
    return st


def is_involution(m: list[int]) -> bool:
    return all(0 <= i < len(m) and m[m[i]] == g for g, i in enumerate(m))


def oracle_steady(net: dict, dists: list[dict[str, int]], exts=(Fraction(0), Fraction(1, 2), Fraction(1), Fraction(2)), builder=None) -> list[tuple[str, str | None]]:
    """`builder(net, ext) -> (base, iso, lin)` replaces the three fresh objects of `steady_models` (c16_session: `lin` comes from a
    LIVE mapper with a history, `iso` from a fresh LabelMapper holding the current counts and maps)."""
    bad: list[tuple[str, str | None]] = []
    fid = None if all(is_involution(m) for m in net["maps"].values()) else "c16-direction"

    def build(ext):
        return L.guarded(lambda: (builder or steady_models)(net, ext))

    tag, val = build(1)
    if tag != "ok":
        return [(f"{net.get('template', '?')} maps {net['maps']}: a valid steady-state network with bijective maps is rejected: {val}", None)]
    base, iso, lin = val
    iso_vars, lin_vars = iso.get_variable_names(), lin.get_variable_names()
    for x in dists:
        o_iso = L.rhs_of(iso, x)
        enr = {}
        for c, n in net["lv"].items():
            for i in range(n):
                enr[f"{c}__{i}"] = Fraction(sum(v for k, v in x.items() if k.split("__")[0] == c and k.split("__")[1][i] == "1"), net["pools"][c])
        o_lin = L.rhs_of(lin, enr)
        if o_iso[0] != "ok" or o_lin[0] != "ok":
            bad.append((f"right-hand side not computable: iso {o_iso}, linear {o_lin}", None))
            break
        ri, rl = dict(zip(iso_vars, o_iso[1])), dict(zip(lin_vars, o_lin[1]))
        for c, n in net["lv"].items():
            tot = sum(v for k, v in ri.items() if k.split("__")[0] == c)
            if tot != 0:
                bad.append((f"generated network is not at a metabolic steady state ({c}: {tot}) -- generator error", None))
            for i in range(n):
                want = Fraction(sum(v for k, v in ri.items() if k.split("__")[0] == c and k.split("__")[1][i] == "1"), net["pools"][c])
                got = rl[f"{c}__{i}"]
                if want != got:
                    bad.append(
                        (f"{net['template']} maps {net['maps']}: at isotopomer state {x} the linear model gives d({c}__{i})/dt = {got}, "
                         f"the enrichment of position {i} of {c} in the isotopomer model changes at {want}", fid)
                    )
                    break
            if bad:
                break
        if bad:
            break
    # uniform enrichment equal to the external pool is stationary; no label from nothing
    for ext in exts:
        tag, val = build(ext)
        if tag != "ok":
            bad.append((f"build failed for external label {ext}: {val}", None))
            continue
        lin = val[2]
        o = L.rhs_of(lin, {k: ext for k in lin.get_variable_names()})
        if o[0] != "ok" or any(v != 0 for v in o[1]):
            what = "no external and no initial label, yet label appears" if ext == 0 else f"uniform enrichment {ext} equal to the external pool is not stationary"
            bad.append((f"{net['template']} maps {net['maps']}: {what}: {o}", None))
    return bad


# ---------------------------------------------------------------------------------------
# correspondence cases
# ---------------------------------------------------------------------------------------


def gen_lin_case(rng) -> dict:
    base = L.gen_base(rng)
    lv = L.gen_labels(rng, base, allow_zero=rng.random() < 0.1)
    if rng.random() < 0.7:
        for c in base["vars"]:
            lv.setdefault(c, rng.choice([1, 2, 3]))  # the linear mapper needs every compound of a mapped reaction labelled
    maps: dict[str, list[int]] = {}
    kinds = []
    wellformed = rng.random() < 0.55
    for name, _fk, _args, st in base["rxns"]:
        if rng.random() < 0.15:
            continue
        tsl, tpl = L.label_totals(lv, st)
        m, k = L.gen_map(rng, tsl, tpl, rng.choice(["perm", "perm", "id", "dup"]) if wellformed else None)
        maps[name] = m
        kinds.append(k)
    if rng.random() < 0.04:
        maps["v99"] = [0]
    if rng.random() < 0.5:
        items = list(maps.items())
        rng.shuffle(items)
        maps = dict(items)
    concs = {c: rng.choice([1, 2, 4, 8]) for c in base["vars"]}
    fluxes = {r[0]: rng.randint(0, 4) for r in base["rxns"]}
    ext = rng.choice([Fraction(1), Fraction(1), Fraction(0), Fraction(1, 2), Fraction(2)])
    init: dict[str, Any] | None = None
    if rng.random() < 0.5:
        init = {}
        for c, n in lv.items():
            r = rng.random()
            if r < 0.5 or n == 0:
                continue
            if r < 0.7:
                init[c] = rng.randrange(n)
            elif r < 0.9:
                k = rng.choice([1, 2, 4])
                init[c] = [rng.randrange(n) for _ in range(k)]
            else:
                init[c] = [n + 1, -1]  # stray positions (the mapper adds stray variables)
    return {"base": base, "lv": lv, "maps": maps, "init": init, "concs": concs, "fluxes": fluxes, "ext": ext, "map_kinds": kinds}


def steady_as_case(net: dict, ext=Fraction(1)) -> dict:
    base = {
        "params": {f"p{20 + j}": 1 for j in range(len(net["rxns"]))},
        "dpars": [],
        "vars": dict(net["pools"]),
        "dvars": [],
        "rxns": [(name, "FProd", [*s, f"p{20 + j}"], stoich_of(s, p)) for j, (name, s, p, _v) in enumerate(net["rxns"])],
    }
    return {
        "base": base, "lv": net["lv"], "maps": net["maps"], "init": None, "concs": dict(net["pools"]),
        "fluxes": {name: v for name, _, _, v in net["rxns"]}, "ext": ext, "map_kinds": ["steady"],
    }


def coq_qmap(d: dict) -> str:
    return common.clist(f"({common.cn(L.num(k))}, {cq(Fraction(v))})" for k, v in d.items())


def coq_case(case: dict, out, rhs: list) -> str | None:
    built = L.coq_result(out, "lin", "Q")
    if built is None:
        return None
    base = case["base"]
    rx = common.clist(
        f"mkBR {common.cn(L.num(r[0]))} {r[1]} {common.clist(common.cn(L.num(a)) for a in r[2])} "
        + common.clist(f"({common.cn(L.num(k))}, {common.cz(v)})" for k, v in r[3].items())
        for r in base["rxns"]
    )
    init = "None" if case["init"] is None else f"(Some {L.coq_init(case['init'])})"
    return (
        f"mkLinCase {L.coq_lv(case['lv'])} {L.coq_maps(case['maps'])} {init}\n    {coq_qmap(case['concs'])} {coq_qmap(case['fluxes'])} {cq(Fraction(case['ext']))}\n    {rx}\n    {built}\n    "
        + common.clist(L.coq_rhs(st, o, "lin") for st, o in rhs)
    )


def corr_file(cases: list[str]) -> str:
    defs = "\n".join(f"Definition case_{i} : lin_case :=\n  {c}." for i, c in enumerate(cases))
    return (
        "From Coq Require Import List ZArith NArith QArith.\nFrom MxlBase Require Import ListX.\n"
        "From Label Require Import LModel Iso Linear GenLabelFacts Exec.\nImport ListNotations.\nOpen Scope Q_scope.\n"
        + defs
        + "\nDefinition cases : list lin_case := "
        + common.clist(f"case_{i}" for i in range(len(cases)))
        + ".\nDefinition mismatches := filter_idx (fun c => negb (check_lin (f_lin_expand gen_label_facts) (f_lin_dir gen_label_facts) c)) cases.\n"
        "Eval vm_compute in mismatches.\n"
    )


# ---------------------------------------------------------------------------------------
# the check
# ---------------------------------------------------------------------------------------


def net_from_json(net: dict) -> dict:
    return {**net, "rxns": [tuple(r) for r in net["rxns"]]}


def check(run: Run) -> None:
    thorough = run.tier == "thorough"
    facts = gen()
    run.coverage["gen_facts"] = facts
    run.rule = (
        "oracle: flux-balanced mass-action networks from 7 templates (chain, 3-chain, split, merge, branch, reversible pair, carrier "
        "cycle) x pools in {1,2,4,8} x label counts 1-3 x random bijective maps (random permutation / identity / transposition) x 3 "
        "random integer isotopomer distributions with the steady-state totals x external label in {0,1/2,1,2}; coefficient family (own "
        "stream c16-coef): 3 corpus nets + 10 templates with stoichiometric coefficients 2 and 3 on either side (2A->B, A->2B, 2A->B->2C, "
        "2A+B->C, A->2B+C, ->2A, 2A->, 3A->B, 2A<->B, 2A+D->B->C+D), rate arguments interleaved, same maps / distributions; correspondence: random "
        "networks (as for C05) x arbitrary maps incl. malformed x pools/fluxes/external label x initial labels, right-hand sides at "
        "dyadic states; histories on ONE LinearLabelMapper (own stream c16-session; 3 corpus histories + 60 quick / 400 thorough): build, then 1-3 rounds of "
        "[a map replaced under its key / edited in place, a label count changed with the maps of the affected reactions, a new maps dict, a new "
        "counts dict, another steady state] + build; every build judged like a single build (2 one-hot + 2 random distributions) against a fresh "
        "isotopomer model of the current counts and maps; every build_model call of 40 / 200 histories replayed by lin_session in Coq. "
        "Non-trivial: at least one mapped reaction (histories: at least one edit and two build steps); distinct by content"
    )
    proofs_ok = run.check_proofs(AREA, PROPS)
    run.assumptions += [
        "Coq 8.16.1 kernel + vm_compute; theorems closed under the global context, stated for every commutative ring with a "
        "ring morphism from Z in which the pool sizes are invertible (see trusted_base)",
        "fact extractor harness/c05_label.py::extract_facts (fail-closed ast matcher + pinned shapes)",
        "modelled, not verified: Model.add_* / get_right_hand_side incl. evaluation of Derived stoichiometric coefficients, pandas "
        "Series.to_dict, Python list assignment with negative indices, zip(strict=True)",
        "position maps that are not bijections of range(max(substrate atoms, product atoms)) are outside the judged domain (an atom "
        "cannot be duplicated); merges and splits of COMPOUNDS and stoichiometric coefficients of magnitude 2 and 3 on either side are covered",
        "the keys-only expansion model (fact ExpKeysOnly, lin_rxns_x) is a recognised regression shape: on the tree the fact is ExpDuplicated "
        "and build_linear_x reduces to build_linear, the model of the theorems",
        "binary64 evaluation assumed exact on the dyadic values used (pools are powers of two)",
        "mapper histories: the caller edits the mapper's two public dicts (item assignment, slice assignment of a map, a new dict with new lists) "
        "and never puts an old container back; the base model's stoichiometries do not change during a history; the aliased-cache session model "
        "(fact CacheAliased) is a recognised regression shape, on the tree the fact is CacheNone",
    ]
    rng = common.rng_for(run.seed, "c16")
    known = {f["id"]: f for f in common.load_known_findings(PROP)}

    dist = {"templates": {}, "involutive_only": 0, "with_noninvolutive_map": 0, "map_kinds": {}, "impl_outcomes": {}, "rhs_errors": 0}
    hits: dict[str, int] = {}
    n_viol = 0
    cases: list[dict] = []

    # (a) oracle on steady-state networks
    nets = [dict(n) for n in REGRESSION_NETS]
    for f in known.values():
        if "net" in f.get("witness", {}):
            nets.append(net_from_json(f["witness"]["net"]))
    for _ in range(1200 if thorough else 160):
        nets.append(gen_steady(rng))
    # coefficient family: own random stream, so the unit-coefficient inputs above do not depend on it
    rng2 = common.rng_for(run.seed, "c16-coef")
    coef_nets = [dict(n) for n in COEF_CORPUS_NETS] + [gen_coef_steady(rng2) for _ in range(500 if thorough else 70)]
    dist["coefficient_family"] = {"nets": len(coef_nets), "reactions_with_coefficient_ge_2": 0, "substrate_side": 0, "product_side": 0}
    n_unit = len(nets)
    n_coef_cases = 0
    for pos, net in enumerate(nets + coef_nets):
        is_coef = pos >= n_unit
        r_ = rng2 if is_coef else rng
        if is_coef:
            for _n, s_, p_, _v in net["rxns"]:
                ms, mp = max(side_counts(s_).values(), default=0), max(side_counts(p_).values(), default=0)
                dist["coefficient_family"]["reactions_with_coefficient_ge_2"] += int(max(ms, mp) >= 2)
                dist["coefficient_family"]["substrate_side"] += int(ms >= 2)
                dist["coefficient_family"]["product_side"] += int(mp >= 2)
        dists = list(net.get("dists", [])) + [gen_distribution(r_, net) for _ in range(3)]
        dist["templates"][net.get("template", "?")] = dist["templates"].get(net.get("template", "?"), 0) + 1
        inv = all(is_involution(m) for m in net["maps"].values())
        dist["involutive_only" if inv else "with_noninvolutive_map"] += 1
        run.count_case(("steady", net["rxns"], net["pools"], net["lv"], net["maps"]))
        for what, fid in oracle_steady(net, dists, exts=(Fraction(0), Fraction(1, 2), Fraction(1), Fraction(2)) if thorough else (Fraction(0), Fraction(2))):
            if fid is not None and fid in known:
                hits[fid] = hits.get(fid, 0) + 1
                continue
            if n_viol < 5:
                n_viol += 1
                run.violation(f"LinearLabelMapper vs LabelMapper: {what}", {"kind": "steady", "net": net, "dists": dists})
        if is_coef:
            if n_coef_cases < (200 if thorough else 40):
                n_coef_cases += 1
                cases.append(steady_as_case(net, rng2.choice([Fraction(1), Fraction(1, 2)])))
        elif len(cases) < (400 if thorough else 60):
            cases.append(steady_as_case(net, rng.choice([Fraction(1), Fraction(1, 2)])))
    # (b) correspondence cases
    for _ in range(5000 if thorough else 600):
        cases.append(gen_lin_case(rng))

    # (c) histories of operations on ONE LinearLabelMapper (own random stream "c16-session"): edits of the mapper's public label
    # counts / atom maps between build_model calls; oracle as above against a FRESH isotopomer model of the current values
    rng3 = common.rng_for(run.seed, "c16-session")
    sessions = [dict(x) for x in S.SESSION_CORPUS] + [S.gen_lin_session(rng3, gen_steady, gen_coef_steady) for _ in range(400 if thorough else 60)]
    sdist = {"sessions": 0, "build_steps": 0, "build_model_calls": 0, "edits": 0, "step_kinds": {}, "builds_differing_from_a_fresh_mappers": 0,
             "mapper_fields_changed_by_build": 0, "sessions_in_coq": 0}
    sess_cases: list[str] = []
    sess_index: list[int] = []
    sess_exts = (Fraction(0), Fraction(1, 2), Fraction(2)) if thorough else (Fraction(0), Fraction(2))
    for sidx, sess in enumerate(sessions):
        sbad, slog, safter, sdists, sstats = S.run_lin_session(sess, rng3, oracle_steady, steady_models, gen_distribution, sess_exts)
        sdist["sessions"] += 1
        sdist["build_steps"] += sstats["build_steps"]
        sdist["build_model_calls"] += sstats["builds"]
        sdist["edits"] += sstats["edits"]
        sdist["builds_differing_from_a_fresh_mappers"] += sstats["twin_differs"]
        sdist["mapper_fields_changed_by_build"] += sstats.get("fields_changed", 0)
        for st in sess["steps"]:
            sdist["step_kinds"][st[0]] = sdist["step_kinds"].get(st[0], 0) + 1
        run.count_case(("linsession", sess["net"]["rxns"], sess["net"]["pools"], sess["net"]["lv"], sess["net"]["maps"], sess["steps"]),
                       nontrivial=sstats["edits"] > 0 and sstats["build_steps"] >= 2)
        for what, fid in sbad:
            if fid is not None and fid in known:
                hits[fid] = hits.get(fid, 0) + 1
                continue
            if n_viol < 7:
                n_viol += 1
                run.violation(f"LinearLabelMapper vs LabelMapper: {what}", {"kind": "linsession", "session": sess, "dists": sdists})
        if sstats.get("fields_changed"):
            run.broken_correspondence.append(f"build_model changed the mapper's label_variables / label_maps to {safter} (the model never writes them): session #{sidx} {sess}")
        if sdist["sessions_in_coq"] < (200 if thorough else 40):
            sc = S.coq_lin_session(sess, slog, safter, stoich_of)
            if sc is None:
                run.broken_correspondence.append(f"the outcomes of session #{sidx} have no counterpart in the model: {sess}")
            else:
                sdist["sessions_in_coq"] += 1
                sess_cases.append(sc)
                sess_index.append(sidx)
    dist["mapper_histories"] = sdist

    coq_cases: list[str] = []
    coq_index: list[int] = []
    for idx, case in enumerate(cases):
        out, model = L.run_lin(case["base"], case["lv"], case["maps"], case["init"], case["concs"], case["fluxes"], case["ext"])
        for k in case["map_kinds"]:
            dist["map_kinds"][k] = dist["map_kinds"].get(k, 0) + 1
        okey = out[0] if out[0] == "ok" else out[1]
        dist["impl_outcomes"][okey] = dist["impl_outcomes"].get(okey, 0) + 1
        run.count_case(("lin", case["base"]["rxns"], case["lv"], case["maps"], case["init"], case["concs"], case["fluxes"], case["ext"]), nontrivial=bool(case["maps"]))
        rhs = []
        if out[0] == "ok" and model is not None:
            names = [k for k, _ in out[1]["vars"]]
            for _ in range(3 if thorough else 2):
                st = {k: Fraction(rng.randint(0, 8), 8) for k in names}
                o = L.rhs_of(model, st)
                if o[0] != "ok":
                    dist["rhs_errors"] += 1
                rhs.append((st, o))
        if len(run.samples) < 4 and case["maps"] and idx % 50 == 7:
            run.sample({"lv": case["lv"], "maps": case["maps"], "rxns": case["base"]["rxns"], "outcome": okey})
        cc = coq_case(case, out, rhs)
        if cc is None:
            run.broken_correspondence.append(f"implementation outcome {out} of case #{idx} has no counterpart in the model: {_plain(case)}")
        else:
            coq_cases.append(cc)
            coq_index.append(idx)
    run.coverage["input_distribution"] = dist
    run.coverage["known_finding_hits_in_generated_cases"] = hits

    per = 150
    files = {f"c16_{k:04d}": corr_file(chunk) for k, chunk in enumerate(common.chunks(coq_cases, per))}
    sper = 10
    sfiles = {f"c16s_{k:04d}": S.corr_file(chunk) for k, chunk in enumerate(common.chunks(sess_cases, sper))}
    res = common.coq_eval_many(AREA, files | sfiles, timeout_s=900)
    mism = 0
    for k, name in enumerate(sorted(sfiles)):
        ok, outp = res[name]
        lists = common.parse_eval_list(outp) if ok else None
        if not ok or not lists:
            run.broken_correspondence.append(f"correspondence shard {name} did not evaluate: {outp[-300:]}")
            continue
        for j in lists[-1]:
            mism += 1
            si = sess_index[k * sper + j]
            if len(run.broken_correspondence) < 5:
                run.broken_correspondence.append(f"model/implementation disagree on the history of operations on one mapper #{si}: {sessions[si]}")
    run.coverage["session_histories_validated_against_impl"] = len(sess_cases) - mism
    for k, name in enumerate(sorted(files)):
        ok, outp = res[name]
        lists = common.parse_eval_list(outp) if ok else None
        if not ok or not lists:
            run.broken_correspondence.append(f"correspondence shard {name} did not evaluate: {outp[-300:]}")
            continue
        for j in lists[-1]:
            mism += 1
            ci = coq_index[k * per + j]
            if len(run.broken_correspondence) < 5:
                run.broken_correspondence.append(f"model/implementation disagree on case #{ci}: {_plain(cases[ci])}")
    run.coverage["traces_validated_against_impl"] = len(coq_cases) + len(sess_cases) - mism
    run.coverage["correspondence_mismatches"] = mism

    for fid, f in known.items():
        w = f.get("witness", {})
        if "net" not in w:
            continue
        bad = oracle_steady(net_from_json(w["net"]), w["dists"])
        if any(b[1] == fid for b in bad):
            run.known(fid, f.get("what_fails", ""))
        else:
            run.note(f"known finding {fid} no longer reproduces (fixed?) -- move it to \"fixed\" in known_findings.d/C16.json")
    if not proofs_ok:
        run.note("proof obligations broken; the steady-state networks were searched with the oracle for a concrete failing input")


def _plain(case: dict) -> dict:
    return {k: (str(case[k]) if k == "ext" else case[k]) for k in ("base", "lv", "maps", "init", "concs", "fluxes", "ext")}


def replay(rep: dict) -> int:
    r = rep["replay"]
    if r.get("kind") == "linsession":
        known = {f["id"] for f in common.load_known_findings(PROP)}
        sess = {**r["session"], "net": net_from_json(r["session"]["net"])}
        bad, _log, _after, _d, _st = S.run_lin_session(sess, common.rng_for(1, "c16-replay"), oracle_steady, steady_models, gen_distribution,
                                                       (Fraction(0), Fraction(1, 2), Fraction(2)), stored=r.get("dists"))
        for what, fid in bad:
            print(("known finding " + str(fid) + ": " if fid in known else "FAILS: ") + what)
        if not bad:
            print("property holds on this history")
        return 1 if [b for b in bad if b[1] not in known] else 0
    if r.get("kind") != "steady":
        print("nothing to replay:", rep.get("what"))
        return 1
    known = {f["id"] for f in common.load_known_findings(PROP)}
    bad = oracle_steady(net_from_json(r["net"]), r["dists"])
    for what, fid in bad:
        print(("known finding " + fid + ": " if fid in known else "FAILS: ") + what)
    if not bad:
        print("property holds on this input")
    return 1 if [b for b in bad if b[1] not in known] else 0
