"""C17 helper: three directed document streams (own rng streams, so the older streams are unchanged) and the
fixed documents of the seeded shapes they generalise.

  math-name ids   a legal SBML id equals a name of Python's math module that generated code calls (exp, log, sin,
                  cos, sqrt): as a species / parameter inside an expression that calls that very function, as the id
                  of an assignment rule or of a reaction next to another expression that calls it.  The generated
                  module refers to the functions as `math.<name>`, so none of these ids may capture anything.
  idle reactions  a reaction that changes no variable (no participants, only modifiers, only boundary species),
                  referenced by other math or not: it still is a reaction of the document, the Model has to list it
                  and report its rate.
  precise numbers stoichiometric coefficients / values whose shortest repr needs 16 or 17 significant digits
                  (1/3, 0.1+0.2, e, random doubles): the Model has to hold exactly the doubles the file gives.

Documents are the abstract dicts of harness/c17_sbml.py.  A number [p, q] stands for the double float(p/q); the
precise ones are given as the integer ratio of the double itself, so that the oracle's Fraction IS the double.
"""

from __future__ import annotations

import copy
from fractions import Fraction

from harness import c17_gen as G


def num(p: int, q: int = 1) -> list:
    return ["num", p, q]


def sym(s: str) -> list:
    return ["sym", s]


def dbl(x: float) -> list[int]:
    """[p, q] with p/q == x exactly"""
    p, q = float(x).as_integer_ratio()
    return [p, q]


# python name in the generated code, node kind of the abstract expression
MATH_FUNS = [("exp", "exp"), ("log", "ln"), ("sin", "sin"), ("cos", "cos"), ("sqrt", "sqrt")]
# further names of the math module, used as plain ids next to transcendental math
MATH_PLAIN = ["pi", "e", "tan", "floor", "ceil", "fabs", "pow", "tau", "erf", "gamma", "log10", "log2", "hypot", "trunc"]


def call(node: str, a: list) -> list:
    """f(a) made total: ln / sqrt of 1 + a^2, exp of -(a^2)"""
    if node in ("ln", "sqrt"):
        return [node, ["add", num(1), ["mul", a, a]]]
    if node == "exp":
        return ["exp", ["neg", ["mul", a, a]]]
    return [node, a]


MATHID_SHAPES = ["arg-species", "arg-parameter", "arg-in-rule", "arg-in-init", "rule-id", "reaction-id", "rule-id+arg", "two-names"]


def mathid_doc(rng, shape: str | None = None) -> dict:  # noqa: ANN001, C901, PLR0912, PLR0915
    shape = shape or rng.choice(MATHID_SHAPES)
    pyname, node = rng.choice(MATH_FUNS)
    comp = {"id": "c", "size": list(rng.choice(G.DYADIC_SIZES))}
    kinds = ["amount", "conc", "amount", "conc"]
    rng.shuffle(kinds)
    species = [
        {"id": "S", "comp": "c", "init": list(rng.choice(G.SMALL)), "kind": kinds[0]},
        {"id": "P", "comp": "c", "init": list(rng.choice(G.SMALL)), "kind": kinds[1]},
    ]
    pars = [{"id": "k", "value": list(rng.choice(G.SMALL))}, {"id": "k2", "value": list(rng.choice(G.SMALL))}]
    rules: list[dict] = []
    inits: list[dict] = []
    st = lambda: list(rng.choice(G.STOICH))  # noqa: E731
    rxns = [
        {"id": "r1", "reactants": [["S", st()]], "products": [["P", st()]], "math": ["mul", sym("k"), sym("S")]},
        {"id": "r2", "reactants": [["P", st()]], "products": [], "math": ["mul", sym("k2"), sym("P")]},
    ]
    other = lambda: sym(rng.choice(["S", "P", "k", "k2"]))  # noqa: E731

    if shape in ("arg-species", "two-names"):
        species.append({"id": pyname, "comp": "c", "init": list(rng.choice(G.SMALL)), "kind": rng.choice(["amount", "conc", "boundary"])})
        rxns[0]["math"] = ["mul", sym("k"), call(node, ["add", sym(pyname), other()] if rng.random() < 0.5 else sym(pyname))]
        if rng.random() < 0.6:
            rxns[0]["reactants"].append([pyname, st()])
    if shape == "arg-parameter":
        pars.append({"id": pyname, "value": list(rng.choice(G.SMALL))})
        rxns[1]["math"] = ["mul", sym("P"), call(node, sym(pyname))]
    if shape == "arg-in-rule":
        pars.append({"id": pyname, "value": list(rng.choice(G.SMALL))})
        pars.append({"id": "q1", "value": [0, 1]})
        rules.append({"var": "q1", "math": ["add", call(node, sym(pyname)), sym("S")]})
        rxns[0]["math"] = ["mul", sym("k"), sym("q1")]
    if shape == "arg-in-init":
        pars.append({"id": pyname, "value": list(rng.choice(G.SMALL))})
        tgt = rng.choice(["k", "S"])
        inits.append({"sym": tgt, "math": ["add", call(node, sym(pyname)), num(1, 2)]})
    if shape in ("rule-id", "rule-id+arg"):
        pars.append({"id": pyname, "value": [0, 1]})
        rules.append({"var": pyname, "math": ["mul", num(3), sym("S")] if rng.random() < 0.5 else ["add", ["mul", sym("k"), sym("S")], sym("P")]})
        inner = sym(pyname) if shape == "rule-id+arg" else other()
        rxns[0]["math"] = ["mul", sym("k"), call(node, inner)]
        rxns[1]["math"] = ["mul", sym("k2"), sym(pyname)]
    if shape == "reaction-id":
        rxns[0]["id"] = pyname
        rxns[1]["math"] = ["mul", sym("k2"), call(node, other())]
        if rng.random() < 0.4:
            # SBML L3: the reaction id inside other math is its rate
            rxns[1]["math"] = ["add", rxns[1]["math"], sym(pyname)]
    if shape == "two-names":
        py2, node2 = rng.choice([f for f in MATH_FUNS if f[0] != pyname])
        pars.append({"id": py2, "value": [0, 1]})
        rules.append({"var": py2, "math": ["add", sym("S"), call(node, sym(pyname))]})
        rxns[1]["math"] = ["mul", sym(py2), call(node2, sym("P"))]
    if rng.random() < 0.5:
        extra = rng.choice(MATH_PLAIN)
        pars.append({"id": extra, "value": list(rng.choice(G.SMALL))})
        rxns[1]["math"] = ["mul", rxns[1]["math"], ["add", num(1), sym(extra)]]
    rng.shuffle(pars)
    return {
        "flavour": f"mathid:{shape}",
        "compartments": [comp],
        "species": species,
        "parameters": pars,
        "functions": [],
        "rules": rules,
        "inits": inits,
        "reactions": rxns,
    }


IDLE_IDS = ["sense", "leak", "obs1", "mon", "r_idle", "J9", "probe", "lambda", "exp", "init_v", "v1_stoich"]
IDLE_KINDS = ["modifiers-only", "boundary-only", "no-species", "empty-net"]


def idle_doc(rng, base: dict) -> dict | None:  # noqa: ANN001, C901
    """`base` (a generated document) + 1-2 reactions that change no variable; a third of them referenced from
    other math (a kinetic law or a new assignment rule)"""
    d = copy.deepcopy(base)
    used = set()
    for sec, key in (("compartments", "id"), ("species", "id"), ("parameters", "id"), ("functions", "id"), ("reactions", "id")):
        used |= {x[key] for x in d[sec]}
    for f in d["functions"]:
        used |= set(f["args"])
    consts = [p["id"] for p in d["parameters"] if p["id"] not in {r["var"] for r in d["rules"]}]
    if not consts:
        return None
    kinds = []
    for _ in range(rng.choice([1, 1, 2])):
        free = [x for x in IDLE_IDS if x not in used]
        if not free:
            break
        rid = rng.choice(free)
        used.add(rid)
        kind = rng.choice(IDLE_KINDS)
        kinds.append(kind)
        reactants: list = []
        products: list = []
        sp = rng.choice(d["species"])["id"]
        law = ["mul", sym(rng.choice(consts)), sym(sp)]
        if kind == "boundary-only":
            b = next((s["id"] for s in d["species"] if s["kind"] == "boundary"), None)
            if b is None:
                b = next(x for x in ["Xb", "Xb1", "Xb2"] if x not in used)
                used.add(b)
                d["species"].append({"id": b, "comp": d["compartments"][0]["id"], "init": list(rng.choice(G.SMALL)), "kind": "boundary"})
            (reactants if rng.random() < 0.5 else products).append([b, list(rng.choice(G.STOICH))])
            law = ["mul", law, sym(b)]
        elif kind == "no-species":
            law = ["mul", sym(rng.choice(consts)), ["add", sym(rng.choice(consts)), num(1)]]
        elif kind == "empty-net":
            # no participants and a constant law
            law = ["add", num(*rng.choice(G.SMALL)), num(0)]
        idle = {"id": rid, "reactants": reactants, "products": products, "math": law}
        d["reactions"].insert(rng.randint(0, len(d["reactions"])), idle)
        r = rng.random()
        if r < 0.2:
            tgt = rng.choice([x for x in d["reactions"] if x["id"] != rid])
            tgt["math"] = ["add", tgt["math"], ["mul", num(1, 2), sym(rid)]]
            kinds[-1] += "+read-by-law"
        elif r < 0.35:
            q = next(x for x in ["Jq", "Jq1", "Jq2"] if x not in used)
            used.add(q)
            d["parameters"].append({"id": q, "value": [0, 1]})
            d["rules"].append({"var": q, "math": ["mul", num(3), sym(rid)]})
            tgt = rng.choice([x for x in d["reactions"] if x["id"] != rid])
            tgt["math"] = ["add", tgt["math"], sym(q)]
            kinds[-1] += "+read-by-rule"
    if not kinds:
        return None
    d["flavour"] = "idle:" + ",".join(sorted(kinds))
    return d


PRECISE = [1 / 3, 2 / 3, 0.1 + 0.2, 0.1, 0.7, 1.1, 2.718281828459045, 3.141592653589793, 1 / 7, 0.12345678901234568, 1e-3, 123456.78901234567, 1 / 3 + 1]


def precise_number(rng) -> list[int]:  # noqa: ANN001
    if rng.random() < 0.6:
        return dbl(rng.choice(PRECISE))
    return dbl(rng.uniform(0.05, 4.0))


def precise_doc(rng, base: dict) -> dict:  # noqa: ANN001
    """`base` with coefficients (always at least one on an amount species that occurs once in its reaction) and,
    half of the time, plain values replaced by doubles that need 16/17 digits"""
    d = copy.deepcopy(base)
    dyn = [s for s in d["species"] if s["kind"] != "boundary"]
    what = []
    # the forced one
    rx = rng.choice(d["reactions"])
    parts = [p for p in rx["reactants"] + rx["products"]]
    names = [p[0] for p in parts]
    once = [p for p in parts if names.count(p[0]) == 1 and any(s["id"] == p[0] for s in dyn)]
    if once:
        tgt = rng.choice(once)
    else:
        absent = [s for s in dyn if s["id"] not in names] or dyn
        tgt = [rng.choice(absent)["id"], [1, 1]]
        if tgt[0] in names:
            rx["reactants"] = [p for p in rx["reactants"] if p[0] != tgt[0]]
            rx["products"] = [p for p in rx["products"] if p[0] != tgt[0]]
        (rx["products"] if rng.random() < 0.5 else rx["reactants"]).append(tgt)
    next(s for s in d["species"] if s["id"] == tgt[0])["kind"] = "amount"
    tgt[1] = precise_number(rng)
    what.append("coefficient")
    for r in d["reactions"]:
        for p in r["reactants"] + r["products"]:
            if p is not tgt and rng.random() < 0.3:
                p[1] = precise_number(rng)
    if rng.random() < 0.5:
        rule_targets = {r["var"] for r in d["rules"]}
        for p in d["parameters"]:
            if p["id"] not in rule_targets and rng.random() < 0.5:
                p["value"] = precise_number(rng)
        for s in d["species"]:
            if rng.random() < 0.4:
                s["init"] = precise_number(rng)
        what.append("values")
    d["flavour"] = "precise:" + "+".join(what)
    return d


# ---------------------------------------------------------------------------------------
# the documents of the seeded shapes (seeded/C17-4..6 demo.py, in the abstract format); run first on every tier
# ---------------------------------------------------------------------------------------


def _hdr(species: list, pars: list) -> dict:
    return {"compartments": [{"id": "c", "size": [1, 1]}], "species": species, "parameters": pars, "functions": [], "rules": [], "inits": []}


def _sp(i: str, v: list, kind: str = "amount") -> dict:
    return {"id": i, "comp": "c", "init": v, "kind": kind}


def fixed_documents() -> list[tuple[str, dict]]:
    out: list[tuple[str, dict]] = []
    # C17-4 doc A: species `log`, parameter `exp`, used inside laws that call ln() and exp()
    a = _hdr([_sp("log", [5, 2]), _sp("P", [1, 2])], [{"id": "exp", "value": [3, 4]}, {"id": "k", "value": [5, 4]}])
    a["reactions"] = [
        {"id": "r1", "reactants": [["log", [1, 1]]], "products": [["P", [2, 1]]], "math": ["mul", sym("k"), ["ln", ["add", sym("log"), num(1)]]]},
        {"id": "r2", "reactants": [["P", [1, 1]]], "products": [], "math": ["mul", sym("P"), ["exp", ["neg", sym("exp")]]]},
    ]
    out.append(("math_ids_as_arguments", a))
    # C17-4 doc B: assignment rule called `exp`, another law calls exp()
    b = _hdr([_sp("S", [3, 2]), _sp("P", [1, 4])], [{"id": "k", "value": [1, 2]}, {"id": "exp", "value": [0, 1]}])
    b["rules"] = [{"var": "exp", "math": ["mul", num(3), sym("S")]}]
    b["reactions"] = [
        {"id": "r1", "reactants": [["S", [1, 1]]], "products": [["P", [1, 1]]], "math": ["mul", sym("k"), ["exp", ["neg", sym("P")]]]},
        {"id": "r2", "reactants": [["P", [1, 1]]], "products": [], "math": ["mul", sym("k"), sym("exp")]},
    ]
    out.append(("math_id_as_rule", b))
    # C17-5: reaction `sense` with a modifier only (a boundary species); unread / read by a law / read by a rule
    for tag in ("unread", "read_by_law", "read_by_rule"):
        c = _hdr(
            [_sp("X", [4, 1], "boundary"), _sp("A", [3, 2]), _sp("B", [1, 4])],
            [{"id": "k1", "value": [1, 2]}, {"id": "k2", "value": [2, 1]}, {"id": "J", "value": [9, 1] if tag != "read_by_rule" else [0, 1]}],
        )
        law = sym("J")
        if tag == "read_by_law":
            law = ["mul", num(3), sym("sense")]
        if tag == "read_by_rule":
            c["rules"] = [{"var": "J", "math": ["mul", num(3), sym("sense")]}]
        c["reactions"] = [
            {"id": "sense", "reactants": [], "products": [], "math": ["mul", ["mul", sym("k1"), sym("X")], sym("A")]},
            {"id": "v1", "reactants": [["A", [1, 1]]], "products": [["B", [1, 1]]], "math": ["mul", sym("k2"), law]},
        ]
        out.append((f"idle_reaction_{tag}", c))
    # C17-6: S -> 0.3333333333333333 P + 0.30000000000000004 Q + 2.718281828459045 R, law k*S
    e = _hdr([_sp("S", [1, 1]), _sp("P", [0, 1]), _sp("Q", [0, 1]), _sp("R", [0, 1])], [{"id": "k", "value": [3, 1]}])
    e["reactions"] = [
        {
            "id": "v1",
            "reactants": [["S", [1, 1]]],
            "products": [["P", dbl(1 / 3)], ["Q", dbl(0.1 + 0.2)], ["R", dbl(2.718281828459045)]],
            "math": ["mul", sym("k"), sym("S")],
        }
    ]
    out.append(("coefficients_needing_17_digits", e))
    for name, d in out:
        d["flavour"] = "fixed:" + name
    return out


def is_precise_number(v: list[int]) -> bool:
    x = float(Fraction(*v))
    return float("%.15g" % x) != x
