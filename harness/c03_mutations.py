"""Mutations for the C03 self-test:  MUTNAME=<name> tools/mutate.sh C03 /verif/harness/c03_mutations.py
(run with the scratch copy of /repo as working directory; absolute path needed).

  seeded_c03_5       seeded/C03-5 re-based on the tree after cdd35c9 (containers are copied on the way in): add_reaction /
                     update_reaction keep the caller's stoichiometry mapping when it holds no coefficient given by name
  seeded_c02_6       seeded/C02-6 re-based likewise: update_derived drops the cache only "when the computation changes"
  update_derived_prequery   update_derived looks new args up through get_derived_parameter_names() (third round, the C03-8 shape elsewhere)
  remove_reaction_reads_stoich  remove_reaction looks at get_stoichiometries() before deleting the reaction
  add_parameter_warms_cache    add_parameter builds the cache eagerly AFTER storing the parameter (coherent memo: C03 still
                     holds; reported by the pinned fact and the memo-presence comparison only)"""
import os
import sys
from pathlib import Path

name = os.environ.get("MUTNAME", "")
MODEL = "src/mxlpy/model.py"


def sub(path: str, old: str, new: str, count: int = 1) -> None:
    p = Path(path)
    s = p.read_text()
    if s.count(old) != count:
        sys.exit(f"mutation {name}: expected {count} occurrence(s) of {old!r} in {path}, found {s.count(old)}")
    p.write_text(s.replace(old, new))


_STO_ADD = ("        stoich: dict[str, Derived | float] = {\n"
            "            k: Derived(fn=fns.constant, args=[v]) if isinstance(v, str) else v\n"
            "            for k, v in stoichiometry.items()\n        }\n")
_STO_UPD = ("            stoich = {\n"
            "                k: Derived(fn=fns.constant, args=[v]) if isinstance(v, str) else v\n"
            "                for k, v in stoichiometry.items()\n            }\n"
            "            rxn.stoichiometry = stoich\n")

if name == "seeded_c03_5":
    sub(MODEL, "class ArityMismatchError(Exception):",
        "def _named_to_derived(\n    stoichiometry: Mapping[str, float | str | Derived],\n) -> dict[str, float | Derived]:\n"
        '    """Replace coefficients given by name with a Derived reading that name."""\n'
        "    if not any(isinstance(v, str) for v in stoichiometry.values()):\n        # nothing to replace\n"
        "        return cast(dict, stoichiometry)\n    return {\n"
        "        k: Derived(fn=fns.constant, args=[v]) if isinstance(v, str) else v\n"
        "        for k, v in stoichiometry.items()\n    }\n\n\nclass ArityMismatchError(Exception):")
    sub(MODEL, _STO_ADD, "")
    sub(MODEL, "            stoichiometry=stoich,\n", "            stoichiometry=_named_to_derived(stoichiometry),\n")
    sub(MODEL, _STO_UPD, "            rxn.stoichiometry = _named_to_derived(stoichiometry)\n")
elif name == "seeded_c02_6":
    sub(MODEL, "    @_invalidate_cache\n    def update_derived(", "    def update_derived(")
    sub(MODEL, "        der = self._derived[name]\n        if fn is not None:\n            der.fn = fn\n"
               "        if args is not None:\n            der.args = list(args)\n"
               "        if unit is not None:\n            der.unit = unit\n        return self\n",
        "        der = self._derived[name]\n        changed = False\n        if fn is not None:\n"
        "            changed |= fn is not der.fn\n            der.fn = fn\n        if args is not None:\n"
        "            der.args = list(args)\n            changed |= der.args != list(args)\n"
        "        if unit is not None:\n            der.unit = unit\n        if changed:\n            self._cache = None\n"
        "        return self\n")
elif name == "update_derived_prequery":
    sub(MODEL, "        der = self._derived[name]\n        if fn is not None:\n            der.fn = fn\n",
        "        der = self._derived[name]\n        if args is not None:\n            known = self.get_derived_parameter_names() + self.get_parameter_names()\n"
        "            _ = [a for a in args if a not in known]\n        if fn is not None:\n            der.fn = fn\n")
elif name == "remove_reaction_reads_stoich":
    sub(MODEL, "        self._remove_id(name=name)\n        self._reactions.pop(name)\n",
        "        _affected = [c for c, st in self.get_stoichiometries().iterrows() if st.get(name, 0) != 0]\n"
        "        self._remove_id(name=name)\n        self._reactions.pop(name)\n")
elif name == "add_parameter_warms_cache":
    p = Path(MODEL)
    s = p.read_text()
    i = s.index("    def add_parameter(")
    j = s.index("        return self\n", i)
    p.write_text(s[:j] + "        try:\n            self._create_cache()\n        except Exception:\n            self._cache = None\n" + s[j:])
else:
    sys.exit(f"unknown MUTNAME {name!r}")
