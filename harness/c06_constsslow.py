"""C06 corpus helper: the `consts` submodule of the "slow" library (see c06_corpus.py, local-import witnesses)."""

K = 5.0


def sat(x):
    return x / (5.0 + x)
