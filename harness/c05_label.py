"""Shared helpers of the C05 / C16 checks (label mappers).

* rate functions with fixed arities (real module file; Model checks arities),
* fail-closed fact extractor for src/mxlpy/label_map.py and linear_label_map.py -> coq/label/GenLabelFacts.v,
* generators of base networks, label counts, maps, initial labels,
* drivers of the two real mappers and canonicalisers of what they build,
* printers of Gallina literals for the correspondence files.

Names: every base-model id is a letter + a number that is unique across all kinds
(c<N> compound, p<N> parameter, v<N> reaction, d<N> derived); the Coq model uses the number.
"""

from __future__ import annotations

import ast
import hashlib
import itertools
import re
import signal
from fractions import Fraction
from typing import Any

from harness import common
from harness.common import clist, cn, cq, cz

AREA = "label"

# ---------------------------------------------------------------------------------------
# rate functions (FProd = product of all arguments, FSum = sum of all arguments)
# ---------------------------------------------------------------------------------------


def prod1(a):
    return a


def prod2(a, b):
    return a * b


def prod3(a, b, c):
    return a * b * c


def prod4(a, b, c, d):
    return a * b * c * d


def prod5(a, b, c, d, e):
    return a * b * c * d * e


def sum1(a):
    return a


def sum2(a, b):
    return a + b


def sum3(a, b, c):
    return a + b + c


def rev_1_2(s1, p1, p2, kf, kr):
    return kf * s1 - kr * p1 * p2


def rev_2_2(s1, s2, p1, p2, kf, kr):
    return kf * s1 * s2 - kr * p1 * p2


PROD = {1: prod1, 2: prod2, 3: prod3, 4: prod4, 5: prod5}
SUM = {1: sum1, 2: sum2, 3: sum3}
REV1, REV2 = "(FRev 1)", "(FRev 2)"  # reversible mass action: kf * (first m arguments) - kr * (the following ones); last two = kf, kr


def fn_of(kind: str, arity: int):
    if kind in (REV1, REV2):
        from mxlpy import fns

        return {(REV1, 4): fns.mass_action_1s_1p, (REV1, 5): rev_1_2, (REV2, 5): fns.mass_action_2s_1p, (REV2, 6): rev_2_2}[(kind, arity)]
    return (PROD if kind == "FProd" else SUM)[arity]


def rev_split(kind: str, args: list[str]) -> tuple[list[str], list[str], list[str]]:
    """(substrate arguments, product arguments, [kf, kr]) of a reversible mass-action law."""
    m = 1 if kind == REV1 else 2
    return list(args[:m]), list(args[m:-2]), list(args[-2:])


def fnid_of(fn) -> str:
    n = getattr(fn, "__name__", "?")
    if n.startswith("prod") or n == "_relative_label_flux":
        return "FProd"
    if n.startswith("sum") or n == "_total_concentration":
        return "FSum"
    if n == "_one_div":
        return "FOneDiv"
    if n == "_neg_one_div":
        return "FNegOneDiv"
    if n in ("mass_action_1s_1p", "rev_1_2"):
        return REV1
    if n in ("mass_action_2s_1p", "rev_2_2"):
        return REV2
    return "FUnknown_" + n  # not a constructor: the correspondence file fails to compile -> reported


# ---------------------------------------------------------------------------------------
# fact extraction (fail-closed)
# ---------------------------------------------------------------------------------------


def _fn(tree: ast.AST, name: str) -> ast.FunctionDef | None:
    for n in ast.walk(tree):
        if isinstance(n, ast.FunctionDef) and n.name == name:
            return n
    return None


def _body_src(fn: ast.FunctionDef | None) -> str:
    if fn is None:
        return "<missing>"
    body = [s for s in fn.body if not (isinstance(s, ast.Expr) and isinstance(s.value, ast.Constant))]
    return "\n".join(ast.unparse(s) for s in body)


def _h(s: str) -> str:
    return hashlib.sha256(s.encode()).hexdigest()[:16]


# shapes of the helpers the Coq model mirrors (hash of the docstring-free, ast-normalised body);
# produced from the tree the model was written against -- see design/C05.md
ISO_HELPER_SHAPES = {
    "_generate_binary_labels": "PIN",
    "_split_label_string": "PIN",
    "_unpack_stoichiometries": "PIN",
    "_get_labels_per_variable": "PIN",
    "_repack_stoichiometries": "PIN",
    "_assign_compound_labels": "PIN",
    "_total_concentration": "PIN",
    "get_isotopomers": "PIN",
    "build_model": "PIN",
}
LIN_HELPER_SHAPES = {
    "_generate_isotope_labels": "PIN",
    "_unpack_stoichiometries": "PIN",
    "_stoichiometry_to_duplicate_list": "PIN",
    "_add_label_influx_or_efflux": "PIN",
    "_relative_label_flux": "PIN",
    "_one_div": "PIN",
    "_neg_one_div": "PIN",
}

# build_model of the linear mapper with the reading-direction statement replaced by <DIR> (and the expansion block by <EXP>, below)
_DIR_INVERSE = "subs = _map_substrates_to_labelmap(subs, label_map)"
_DIR_DOCUMENTED = "subs = [subs[i] for i in label_map]"
# build_model of the isotopomer mapper with the two statements that name the initially labelled variable
# replaced by <INIT>
_INIT_RAW = (
    "            suffix = '__' + ''.join(('1' if idx in label_pos else '0' for idx in range(self.label_variables[k])))\n"
    "            variables[f'{k}{suffix}'] = v"
)
_INIT_ISONAME = (
    "            suffix = ''.join(('1' if idx in label_pos else '0' for idx in range(self.label_variables[k])))\n"
    "            variables[f'{k}__{suffix}' if suffix else k] = v"
)
# build_model of the isotopomer mapper: how the reaction loop consults the mapper's own `label_maps` dict, replaced by <MAPS>
# in the pinned shape.  _MAPS_READ = the tree (the dict is only read); _MAPS_POPPED_* = the recognised regression shape
# seeded as C05-9 (`open_maps` IS self.label_maps: every build removes the entries of the base model's reactions, the
# left-overs are logged) -- fact `gen_build_maps`, model coq/label/IsoSession.v
_MAPS_READ = (
    "for rxn_name, rxn in self.model.get_raw_reactions().items():\n"
    "    if (label_map := self.label_maps.get(rxn_name)) is None:\n"
)
_MAPS_POPPED_HEAD = (
    "open_maps = self.label_maps\n"
    "for rxn_name, rxn in self.model.get_raw_reactions().items():\n"
    "    if (label_map := open_maps.pop(rxn_name, None)) is None:\n"
)
_MAPS_POPPED_TAIL = (
    "if open_maps:\n"
    "    _LOGGER.warning('Label map(s) given for unknown reaction(s): %s', ', '.join(open_maps))\n"
    "return m"
)
# the rate-argument renaming block of _create_isotopomer_reactions (inside the pattern loop), both recognised forms
_REPL_DICT = (
    "    replacements = dict(zip(base_substrates, new_substrates, strict=True)) | dict(zip(base_products, new_products, strict=True))\n"
    "    model.add_reaction(name=new_rate_name, fn=function, stoichiometry=new_stoichiometry, args=[replacements.get(k, k) for k in args])"
)
_REPL_POSITIONAL = (
    "    pools: defaultdict[str, list[str]] = defaultdict(list)\n"
    "    for base, new in zip(base_substrates + base_products, new_substrates + new_products, strict=True):\n"
    "        pools[base].append(new)\n"
    "    last: dict[str, str] = {}\n"
    "    new_args = []\n"
    "    for k in args:\n"
    "        if (pool := pools.get(k)):\n"
    "            last[k] = pool.pop(0)\n"
    "        new_args.append(last.get(k, f'{k}__total' if k in label_variables else k))\n"
    "    model.add_reaction(name=new_rate_name, fn=function, stoichiometry=new_stoichiometry, args=new_args)"
)
# build_model of the linear mapper: how the {compound: coefficient} dicts of _unpack_stoichiometries become the lists of atom
# positions, replaced by <EXP> in the pinned shape.  _EXP_DUPLICATED = the tree (a coefficient k gives k copies);
# _EXP_KEYS_ONLY = the recognised regression shape seeded as C16-4 (iterating the dicts: every compound once)
_EXP_DUPLICATED = (
    "    subs = _stoichiometry_to_duplicate_list(subs)\n"
    "    prods = _stoichiometry_to_duplicate_list(prods)\n"
    "    subs = [j for i in subs for j in isotopomers[i]]\n"
    "    prods = [j for i in prods for j in isotopomers[i]]\n"
)
_EXP_KEYS_ONLY = (
    "    subs = [pos for name in subs for pos in isotopomers[name]]\n"
    "    prods = [pos for name in prods for pos in isotopomers[name]]\n"
)
_EXP_CONTEXT_BEFORE = "    subs, prods = _unpack_stoichiometries(rxn.stoichiometry)\n"
_EXP_CONTEXT_AFTER = "    subs, prods = _add_label_influx_or_efflux(subs, prods, label_map)\n"
# the LinearLabelMapper CLASS: what it keeps between build_model calls (fact `gen_lin_cache`, model coq/label/LinSession.v).
# CacheNone = the tree: exactly the three public dataclass fields, the two methods, build_model touches `self` only to READ the three
# fields.  CacheAliased = the recognised regression shape seeded as C16-9: the per-position transfers are computed by
# `_get_label_transfers` and cached on the mapper, validated against a snapshot that holds the very dict objects it is compared with.
_LIN_FIELDS_TREE = ["model", "label_variables", "label_maps"]
_LIN_METHODS_TREE = ["get_isotopomers", "build_model"]
_LIN_SELF_READS_TREE = ["self.label_variables.items()", "self.model.get_raw_reactions()", "self.label_maps.items()"]
_LIN_FIELDS_ALIASED = ["model", "label_variables", "label_maps", "_transfers", "_transfers_source"]
_LIN_METHODS_ALIASED = ["_get_label_transfers", "get_isotopomers", "build_model"]
_LIN_ALIASED_HASHES = {"_get_label_transfers<EXP><DIR>": "95b86591cefb9adb", "build_model": "f980b82aab1e84df"}


def lin_class_shape(lin: ast.AST) -> dict[str, Any]:
    cls = next((n for n in ast.walk(lin) if isinstance(n, ast.ClassDef) and n.name == "LinearLabelMapper"), None)
    if cls is None:
        return {"fields": None, "methods": None}
    fields, methods, other = [], [], 0
    for st in cls.body:
        if isinstance(st, ast.AnnAssign) and isinstance(st.target, ast.Name):
            fields.append(st.target.id)
        elif isinstance(st, ast.FunctionDef):
            methods.append(st.name)
        elif not (isinstance(st, ast.Expr) and isinstance(st.value, ast.Constant)):
            other += 1
    return {"fields": fields, "methods": methods, "other": other, "bases": len(cls.bases) + len(cls.keywords)}


def _exp_dir_normalised(src: str) -> str:
    return src.replace(_DIR_INVERSE, "<DIR>").replace(_DIR_DOCUMENTED, "<DIR>").replace(_EXP_DUPLICATED, "<EXP>\n").replace(_EXP_KEYS_ONLY, "<EXP>\n")


def lin_cache_fact(lin: ast.AST) -> str:
    shape = lin_class_shape(lin)
    if shape.get("other") or shape.get("bases"):
        return "CacheUnknown"
    bm = _body_src(_fn(lin, "build_model"))
    if shape["fields"] == _LIN_FIELDS_TREE and shape["methods"] == _LIN_METHODS_TREE:
        reads = re.findall(r"self\.[A-Za-z_][A-Za-z_0-9.]*(?:\(\))?", bm)
        if reads == _LIN_SELF_READS_TREE and bm.count("self") == 3:
            return "CacheNone"
        return "CacheUnknown"
    if shape["fields"] == _LIN_FIELDS_ALIASED and shape["methods"] == _LIN_METHODS_ALIASED:
        hs = {"_get_label_transfers<EXP><DIR>": _h(_exp_dir_normalised(_body_src(_fn(lin, "_get_label_transfers")))), "build_model": _h(bm)}
        if hs == _LIN_ALIASED_HASHES:
            return "CacheAliased"
    return "CacheUnknown"


_HELPER_INVERSE = (
    "res = ['EXT'] * len(substrates)\n"
    "for substrate, pos in zip(substrates, labelmap, strict=True):\n"
    "    res[pos] = substrate\n"
    "return res"
)


def helper_hashes() -> dict[str, dict[str, str]]:
    iso = ast.parse((common.REPO / "src/mxlpy/label_map.py").read_text())
    lin = ast.parse((common.REPO / "src/mxlpy/linear_label_map.py").read_text())
    out = {"iso": {k: _h(_body_src(_fn(iso, k))) for k in ISO_HELPER_SHAPES if k != "build_model"}, "lin": {k: _h(_body_src(_fn(lin, k))) for k in LIN_HELPER_SHAPES}}
    ibm = _body_src(_fn(iso, "build_model"))
    if ibm.endswith(_MAPS_POPPED_TAIL):
        ibm = ibm[: -len(_MAPS_POPPED_TAIL)] + "return m"
    out["iso"]["build_model<INIT><MAPS>"] = _h(
        ibm.replace(_INIT_RAW, "<INIT>").replace(_INIT_ISONAME, "<INIT>").replace(_MAPS_POPPED_HEAD, "<MAPS>\n").replace(_MAPS_READ, "<MAPS>\n")
    )
    cre = _body_src(_fn(iso, "_create_isotopomer_reactions"))
    out["iso"]["_create_isotopomer_reactions<REPL>"] = _h(cre.replace(_REPL_DICT, "<REPL>").replace(_REPL_POSITIONAL, "<REPL>"))
    bm = _body_src(_fn(lin, "build_model"))
    out["lin"]["build_model<EXP><DIR>"] = _h(
        bm.replace(_DIR_INVERSE, "<DIR>").replace(_DIR_DOCUMENTED, "<DIR>").replace(_EXP_DUPLICATED, "<EXP>\n").replace(_EXP_KEYS_ONLY, "<EXP>\n")
    )
    return out


PINNED = {
    "iso": {
        "_generate_binary_labels": "b6be0308fdc99373",
        "_split_label_string": "ebb6cf0f291a2678",
        "_unpack_stoichiometries": "11c459829ef65043",
        "_get_labels_per_variable": "f7163e75ddba7293",
        "_repack_stoichiometries": "ae4c6844809018ad",
        "_assign_compound_labels": "9a22779e13145c3f",
        "_total_concentration": "5f12d60713e71e1a",
        "get_isotopomers": "35a1af943c3606b5",
        "build_model<INIT><MAPS>": "7e9205d4d70337a7",
        "_create_isotopomer_reactions<REPL>": "6ce78f939f0c319f",
    },
    "lin": {
        "_generate_isotope_labels": "c8e9ade93b2380fc",
        "_unpack_stoichiometries": "23d00f2967029ff8",
        "_stoichiometry_to_duplicate_list": "1dfecf81125b3f6e",
        "_add_label_influx_or_efflux": "21a3847932b12ff8",
        "_relative_label_flux": "fca13087b0e12181",
        "_one_div": "ad7fc52c5e278a1f",
        "_neg_one_div": "ed480faf62f22764",
        "build_model<EXP><DIR>": "ca9b37f92557e3ba",
    },
}


def extract_facts() -> dict[str, str]:
    facts = {
        "iso_dir": "IsoUnknown",
        "ext_bit": "None",
        "short": "ShortUnknown",
        "repl": "ReplUnknown",
        "iso_helpers": "false",
        "lin_dir": "DirUnknown",
        "lin_helpers": "false",
        "init_name": "InitUnknown",
        "lin_expand": "ExpUnknown",
        "build_maps": "MapsUnknown",
        "lin_cache": "CacheUnknown",
    }
    try:
        iso = ast.parse((common.REPO / "src/mxlpy/label_map.py").read_text())
        lin = ast.parse((common.REPO / "src/mxlpy/linear_label_map.py").read_text())
    except (OSError, SyntaxError):
        return facts
    # reading direction of the isotopomer mapper
    if _body_src(_fn(iso, "_map_substrates_to_products")) == "return ''.join([rate_suffix[i] for i in labelmap])":
        facts["iso_dir"] = "IsoDocumented"
    # external label character
    ext = _body_src(_fn(iso, "_get_external_labels"))
    for ch, b in (("1", "true"), ("0", "false")):
        if ext == (
            "n_external_labels = total_product_labels - total_substrate_labels\n"
            "if n_external_labels > 0:\n"
            f"    external_label_string = ['{ch}'] * n_external_labels\n"
            "    return ''.join(external_label_string)\n"
            "return ''"
        ):
            facts["ext_bit"] = f"(Some {b})"
    cre = _fn(iso, "_create_isotopomer_reactions")
    if cre is not None:
        for node in ast.walk(cre):
            if isinstance(node, ast.If) and ast.unparse(node.test) == "len(labelmap) - total_substrate_labels < 0":
                if node.body and isinstance(node.body[-1], ast.Raise) and ast.unparse(node.body[-1].exc).startswith("ValueError"):
                    facts["short"] = "ShortLt0"
        src = _body_src(cre)
        if src.count(_REPL_DICT) == 1 and src.endswith(_REPL_DICT) and "pools" not in src:
            facts["repl"] = "ReplDict"
        elif src.count(_REPL_POSITIONAL) == 1 and src.endswith(_REPL_POSITIONAL) and "replacements" not in src:
            facts["repl"] = "ReplPositional"
    hs = helper_hashes()
    if hs["iso"] == PINNED["iso"]:
        facts["iso_helpers"] = "true"
    if hs["lin"] == PINNED["lin"]:
        facts["lin_helpers"] = "true"
    # name of the variable that receives the amount of an initially labelled compound
    ibm = _body_src(_fn(iso, "build_model"))
    if ibm.count(_INIT_RAW) == 1 and _INIT_ISONAME not in ibm:
        facts["init_name"] = "InitRawSuffix"
    elif ibm.count(_INIT_ISONAME) == 1 and _INIT_RAW not in ibm:
        facts["init_name"] = "InitIsoName"
    # how build_model's reaction loop consults the mapper's label_maps (nothing else in the body mentions the dict)
    if ibm.count(_MAPS_READ) == 1 and ibm.count("label_maps") == 1 and "open_maps" not in ibm and ".pop(" not in ibm:
        facts["build_maps"] = "MapsRead"
    elif (ibm.count(_MAPS_POPPED_HEAD) == 1 and ibm.endswith(_MAPS_POPPED_TAIL) and ibm.count(_MAPS_POPPED_TAIL) == 1
          and ibm.count("open_maps") == 4 and ibm.count("label_maps") == 1 and ibm.count(".pop(") == 1):
        facts["build_maps"] = "MapsPopped"
    # reading direction of the linear mapper: the statement in build_model AND (if used) the helper
    bm = _body_src(_fn(lin, "build_model"))
    facts["lin_cache"] = lin_cache_fact(lin)
    if facts["lin_cache"] == "CacheAliased":
        # recognised regression shape: the per-reaction statements (expansion, reading direction) live in the caching helper
        bm = _body_src(_fn(lin, "_get_label_transfers"))
    helper = _body_src(_fn(lin, "_map_substrates_to_labelmap"))
    if bm.count(_DIR_INVERSE) == 1 and _DIR_DOCUMENTED not in bm and helper == _HELPER_INVERSE:
        facts["lin_dir"] = "DirInverse"
    elif bm.count(_DIR_DOCUMENTED) == 1 and "_map_substrates_to_labelmap" not in bm:
        facts["lin_dir"] = "DirDocumented"
    # expansion of the stoichiometry dicts in the linear mapper's build_model (exactly one of the two blocks, between the
    # unpacking and the EXT padding; the duplicate-list helper itself is pinned in LIN_HELPER_SHAPES)
    if bm.count(_EXP_CONTEXT_BEFORE + _EXP_DUPLICATED + _EXP_CONTEXT_AFTER) == 1 and bm.count("_stoichiometry_to_duplicate_list") == 2 and _EXP_KEYS_ONLY not in bm:
        facts["lin_expand"] = "ExpDuplicated"
    elif bm.count(_EXP_CONTEXT_BEFORE + _EXP_KEYS_ONLY + _EXP_CONTEXT_AFTER) == 1 and "_stoichiometry_to_duplicate_list" not in bm:
        facts["lin_expand"] = "ExpKeysOnly"
    return facts


def gen() -> dict[str, str]:
    f = extract_facts()
    text = (
        "(* REGENERATED from src/mxlpy/label_map.py and src/mxlpy/linear_label_map.py by harness/c05_label.py;\n"
        "   do not edit.  An unrecognised shape yields an *Unknown constructor / None / false, which breaks\n"
        "   C05_facts_pinned or C16_facts_pinned. *)\n"
        "From Label Require Import LModel Iso IsoSession Linear LinSession.\n"
        f"Definition gen_label_facts : label_facts :=\n  mkLabelFacts {f['iso_dir']} {f['ext_bit']} {f['short']} {f['repl']} {f['iso_helpers']} {f['lin_dir']} {f['lin_helpers']} {f['init_name']} {f['lin_expand']}.\n"
        "(* how LabelMapper.build_model's reaction loop consults the mapper's own label_maps dict (IsoSession.v); pinned by C05_build_maps_pinned *)\n"
        f"Definition gen_build_maps : maps_mode := {f['build_maps']}.\n"
        "(* what LinearLabelMapper keeps between build_model calls (LinSession.v); pinned by C16_lin_cache_pinned *)\n"
        f"Definition gen_lin_cache : cache_mode := {f['lin_cache']}.\n"
    )
    common.write_if_changed(common.area_dir(AREA) / "GenLabelFacts.v", text)
    return f


# ---------------------------------------------------------------------------------------
# names
# ---------------------------------------------------------------------------------------


def num(name: str) -> int:
    return int(name[1:])


def lname(s: str, kind: str) -> str:
    """Gallina literal of a name of a generated model (kind = 'iso' | 'lin')."""
    if s == "EXT":
        return "LExt"
    if "__" not in s:
        return f"(LPlain {cn(num(s))})"
    base, suf = s.split("__", 1)
    if suf == "total":
        return f"(LTotal {cn(num(base))})"
    if kind == "iso":
        assert set(suf) <= {"0", "1"}, s
        return f"(LIso {cn(num(base))} {clist('true' if ch == '1' else 'false' for ch in suf)})"
    return f"(LPos {cn(num(base))} {cz(int(suf))})"


# ---------------------------------------------------------------------------------------
# base networks
# ---------------------------------------------------------------------------------------
# base = {"params": {name: int}, "dpars": [(name, fnkind, [args])], "vars": {name: int},
#         "dvars": [(name, fnkind, [args])], "rxns": [(name, fnkind, [args], {cpd: int})]}


def build_base(base: dict):
    from mxlpy import Model

    m = Model()
    m.add_parameters(dict(base["params"]))
    m.add_variables(dict(base["vars"]))
    for name, fk, args in base["dpars"] + base["dvars"]:
        m.add_derived(name, fn=fn_of(fk, len(args)), args=list(args))
    for name, fk, args, st in base["rxns"]:
        m.add_reaction(name, fn=fn_of(fk, len(args)), args=list(args), stoichiometry=dict(st))
    return m


def coq_base(base: dict) -> str:
    def der(d):
        return f"mkBD {cn(num(d[0]))} {d[1]} {clist(cn(num(a)) for a in d[2])}"

    def rx(r):
        st = clist(f"({cn(num(k))}, {cz(v)})" for k, v in r[3].items())
        return f"mkBR {cn(num(r[0]))} {r[1]} {clist(cn(num(a)) for a in r[2])} {st}"

    return (
        "(mkBM "
        + clist(f"({cn(num(k))}, {cz(v)})" for k, v in base["params"].items())
        + " "
        + clist(der(d) for d in base["dpars"])
        + " "
        + clist(f"({cn(num(k))}, {cz(v)})" for k, v in base["vars"].items())
        + " "
        + clist(der(d) for d in base["dvars"])
        + " "
        + clist(rx(r) for r in base["rxns"])
        + ")"
    )


def coq_lv(lv: dict[str, int]) -> str:
    return clist(f"({cn(num(k))}, {common.cnat(v)})" for k, v in lv.items())


def coq_maps(maps: dict[str, list[int]]) -> str:
    return clist(f"({cn(num(k))}, {clist(cz(i) for i in v)})" for k, v in maps.items())


def coq_init(init: dict[str, Any]) -> str:
    def il(v):
        return f"IInt {cz(v)}" if isinstance(v, int) else f"IList {clist(cz(i) for i in v)}"

    return clist(f"({cn(num(k))}, {il(v)})" for k, v in init.items())


def subs_prods(st: dict[str, int]) -> tuple[list[str], list[str]]:
    """Independent re-statement of the documented expansion (oracle side)."""
    s, p = [], []
    for k, v in st.items():
        (s if v < 0 else p).extend([k] * abs(v))
    return s, p


def gen_base(rng, *, steady: bool = False) -> dict:
    """Random small network: 2-5 compounds, 1-4 reactions (influx, efflux, uni, bi, split, homodimer,
    unlabelled bystanders), derived quantities, some non-mass-action unmapped reactions."""
    ncpd = rng.randint(2, 5)
    cpds = [f"c{i + 1}" for i in range(ncpd)]
    params = {f"p{20 + i}": rng.randint(1, 3) for i in range(rng.randint(1, 3))}
    pnames = list(params)
    vars_ = {c: rng.randint(0, 4) for c in cpds}
    dpars, dvars, rxns = [], [], []
    if rng.random() < 0.4 and len(pnames) >= 2:
        dpars.append(("d60", "FProd", [pnames[0], pnames[1]]))
    if rng.random() < 0.5:
        a = rng.sample(cpds, 2)
        dvars.append(("d61", rng.choice(["FSum", "FProd"]), a))
    if dvars and rng.random() < 0.4:
        dvars.append(("d62", "FSum", ["d61", rng.choice(pnames)]))
    nrx = rng.randint(1, 4)
    for j in range(nrx):
        name = f"v{40 + j}"
        kind = rng.choice(["in", "out", "uni", "uni", "bi", "split", "homo", "uni2", "weird", "tri", "trisplit", "modifier", "modifier",
                           "rev11", "rev11", "rev21", "rev12", "rev22", "revhomo"])
        k = rng.choice(pnames + [d[0] for d in dpars])
        k2 = rng.choice(pnames)  # reverse rate constant of the reversible laws
        if kind == "in":
            x = rng.choice(cpds)
            rxns.append((name, "FProd", [k], {x: 1}))
        elif kind == "out":
            x = rng.choice(cpds)
            rxns.append((name, "FProd", [x, k], {x: -1}))
        elif kind == "uni":
            x, y = rng.sample(cpds, 2)
            rxns.append((name, "FProd", [x, k], {x: -1, y: 1}))
        elif kind == "uni2":  # product with coefficient 2
            x, y = rng.sample(cpds, 2)
            rxns.append((name, "FProd", [x, k], {x: -1, y: 2}))
        elif kind == "bi" and ncpd >= 3:
            x, y, z = rng.sample(cpds, 3)
            args = [x, y, k] if rng.random() < 0.7 else [y, k, x]
            rxns.append((name, "FProd", args, {x: -1, y: -1, z: 1}))
        elif kind == "split" and ncpd >= 3:
            x, y, z = rng.sample(cpds, 3)
            st = {x: -1, y: 1, z: 1} if rng.random() < 0.5 else {y: 1, x: -1, z: 1}
            rxns.append((name, "FProd", [x, k], st))
        elif kind == "tri" and ncpd >= 4:  # three substrates: exercises every split point of the label string
            x, y, z, w = rng.sample(cpds, 4)
            rxns.append((name, "FProd", [x, y, z, k], {x: -1, y: -1, z: -1, w: 1}))
        elif kind == "trisplit" and ncpd >= 4:
            x, y, z, w = rng.sample(cpds, 4)
            rxns.append((name, "FProd", [x, k], {x: -1, y: 1, z: 1, w: 1}))
        elif kind == "modifier" and ncpd >= 3:  # a third compound enters the rate only (unmapped: read through its total)
            x, y, z = rng.sample(cpds, 3)
            rxns.append((name, "FProd", [x, z, k], {x: -1, y: 1}))
        elif kind == "homo":
            x, y = rng.sample(cpds, 2)
            rxns.append((name, "FProd", [x, x, k], {x: -2, y: 1}))
        # reversible mass action written as ONE reaction: the rate takes the products as arguments (kf*S.. - kr*P..)
        elif kind == "rev11":
            x, y = rng.sample(cpds, 2)
            rxns.append((name, REV1, [x, y, k, k2], {x: -1, y: 1} if rng.random() < 0.7 else {y: 1, x: -1}))
        elif kind == "rev21" and ncpd >= 3:
            x, y, z = rng.sample(cpds, 3)
            rxns.append((name, REV2, [x, y, z, k, k2], {x: -1, y: -1, z: 1}))
        elif kind == "rev12" and ncpd >= 3:
            x, y, z = rng.sample(cpds, 3)
            rxns.append((name, REV1, [x, y, z, k, k2], {x: -1, y: 1, z: 1}))
        elif kind == "rev22" and ncpd >= 4:
            x, y, z, w = rng.sample(cpds, 4)
            rxns.append((name, REV2, [x, y, z, w, k, k2], {x: -1, y: -1, z: 1, w: 1}))
        elif kind == "revhomo":  # 2X <-> Y (kf*X*X - kr*Y) or X <-> 2Y (kf*X - kr*Y*Y)
            x, y = rng.sample(cpds, 2)
            if rng.random() < 0.5:
                rxns.append((name, REV2, [x, x, y, k, k2], {x: -2, y: 1}))
            else:
                rxns.append((name, REV1, [x, y, y, k, k2], {x: -1, y: 2}))
        else:  # non-mass-action: additive rate, maybe a derived variable or a product as argument
            x, y = rng.sample(cpds, 2)
            extra = rng.choice([d[0] for d in dvars] + pnames + [y])
            rxns.append((name, "FSum", [x, extra], {x: -1, y: 1}))
    return {"params": params, "dpars": dpars, "vars": vars_, "dvars": dvars, "rxns": rxns}


def gen_labels(rng, base: dict, *, allow_zero: bool = True) -> dict[str, int]:
    lv = {}
    for c in base["vars"]:
        r = rng.random()
        if r < 0.2:
            continue  # unlabelled bystander
        if r < 0.27 and allow_zero:
            lv[c] = 0
        else:
            lv[c] = rng.choice([1, 1, 2, 2, 3])
    if rng.random() < 0.3:
        items = list(lv.items())
        rng.shuffle(items)
        lv = dict(items)
    return lv


def label_totals(lv: dict[str, int], st: dict[str, int]) -> tuple[int, int]:
    s, p = subs_prods(st)
    return sum(lv.get(c, 0) for c in s), sum(lv.get(c, 0) for c in p)


def gen_map(rng, tsl: int, tpl: int, kind: str | None = None) -> tuple[list[int], str]:
    n = max(tsl, tpl)
    kind = kind or rng.choice(["perm", "perm", "perm", "id", "dup", "short", "long", "oor", "neg", "midshort"])
    if kind == "id":
        return list(range(n)), kind
    if kind == "perm":
        m = list(range(n))
        rng.shuffle(m)
        return m, kind
    if kind == "dup":
        return [rng.randrange(n) for _ in range(n)] if n else [], kind
    if kind == "short":
        if tsl == 0:
            return list(range(n)), "id"
        return [rng.randrange(n) for _ in range(rng.randrange(tsl))], kind
    if kind == "midshort":  # long enough for the substrates, too short for the products
        if tpl <= tsl:
            return list(range(n)), "id"
        return [rng.randrange(n) for _ in range(rng.randint(tsl, tpl - 1))], kind
    if kind == "long":
        return [rng.randrange(n) if n else 0 for _ in range(n + rng.randint(1, 2))] if n else [0], kind
    if kind == "oor":
        m = list(range(n))
        rng.shuffle(m)
        if m:
            m[rng.randrange(len(m))] = n + rng.randint(0, 2)
        return m, kind
    # neg
    m = list(range(n))
    rng.shuffle(m)
    if m:
        m[rng.randrange(len(m))] = -rng.randint(1, n + 1)
    return m, kind


# ---------------------------------------------------------------------------------------
# drivers of the real mappers
# ---------------------------------------------------------------------------------------


class Timeout(Exception):
    pass


def _alarm(signum, frame):  # noqa: ANN001, ARG001
    raise Timeout


def guarded(fn, seconds: float = 20.0):
    signal.signal(signal.SIGALRM, _alarm)
    signal.setitimer(signal.ITIMER_REAL, seconds)
    try:
        return "ok", fn()
    except Timeout:
        return "err", "Timeout"
    except Exception as e:  # noqa: BLE001
        return "err", common.classify_exception(e)
    finally:
        signal.setitimer(signal.ITIMER_REAL, 0)


ERR_COQ = {"ErrValue": "ErrValue", "ErrKey": "ErrKey", "ErrName": "ErrName", "ErrOther:IndexError": "ErrIndex"}


def canon_model(m) -> dict:
    """Structured content of a generated model (order preserved)."""
    from mxlpy.model import Derived

    def coef(v):
        if isinstance(v, Derived):
            return ("der", fnid_of(v.fn), list(v.args))
        return ("z", common.exact_int(v))

    return {
        # raw accessors: no model cache is created (a generated model may name things that do not exist)
        "params": [(k, common.to_fraction(v.value)) for k, v in m.get_raw_parameters(as_copy=False).items()],
        "vars": [(k, common.to_fraction(v.initial_value)) for k, v in m.get_raw_variables(as_copy=False).items()],
        "derived": [(k, fnid_of(d.fn), list(d.args)) for k, d in m.get_raw_derived(as_copy=False).items()],
        "rxns": [
            (k, fnid_of(r.fn), list(r.args), [(c, coef(v)) for c, v in r.stoichiometry.items()])
            for k, r in m.get_raw_reactions(as_copy=False).items()
        ],
    }


def coq_lmodel(cm: dict, kind: str, values: str) -> str:
    val = (lambda v: cz(common.exact_int(v))) if values == "Z" else cq

    def coef(c):
        if c[0] == "z":
            return f"CZ {cz(c[1])}"
        return f"CDer {c[1]} {clist(lname(a, kind) for a in c[2])}"

    return (
        "(mkLM "
        + clist(f"({lname(k, kind)}, {val(v)})" for k, v in cm["params"])
        + " "
        + clist(f"({lname(k, kind)}, {val(v)})" for k, v in cm["vars"])
        + " "
        + clist(f"mkLD {lname(k, kind)} {f} {clist(lname(a, kind) for a in args)}" for k, f, args in cm["derived"])
        + " "
        + clist(
            f"mkLR {lname(k, kind)} {f} {clist(lname(a, kind) for a in args)} {clist('(' + lname(c, kind) + ', ' + coef(v) + ')' for c, v in st)}"
            for k, f, args, st in cm["rxns"]
        )
        + ")"
    )


def coq_result(out, kind: str, values: str) -> str | None:
    """None if the outcome has no counterpart in the model's outcome type (always a mismatch)."""
    tag, val = out
    if tag == "ok":
        return f"(Ok {coq_lmodel(val, kind, values)})"
    e = ERR_COQ.get(val)
    return f"(Err {e})" if e else None


def rhs_of(m, state: dict[str, Any]):
    """('ok', [Fraction per variable in model order]) | ('err', class)."""

    def go():
        r = m.get_right_hand_side({k: float(v) for k, v in state.items()}, time=0.0)
        return [common.to_fraction(r[k]) for k in m.get_variable_names()]

    return guarded(go)


def coq_rhs(state: dict[str, Any], out, kind: str) -> str:
    st = clist(f"({lname(k, kind)}, {cq(Fraction(v))})" for k, v in state.items())
    if out[0] == "ok":
        return f"({st}, Some {clist(cq(x) for x in out[1])})"
    return f"({st}, None)"


def run_iso(base: dict, lv: dict, maps: dict, init: dict | None):
    """-> (outcome, model or None).  outcome = ('ok', canon) | ('err', class)"""
    from mxlpy import LabelMapper

    holder: dict[str, Any] = {}

    def go():
        m = LabelMapper(build_base(base), label_variables=dict(lv), label_maps={k: list(v) for k, v in maps.items()}).build_model(
            initial_labels=None if init is None else {k: (list(v) if isinstance(v, list) else v) for k, v in init.items()}
        )
        holder["m"] = m
        return canon_model(m)

    out = guarded(go)
    return out, holder.get("m")


def poke_model(m) -> None:
    """What a caller may do to a model it was handed: edit its containers in place (raw accessors hand out the live objects)."""
    for r in m.get_raw_reactions(as_copy=False).values():
        r.args.append("poked")
        r.stoichiometry.clear()
    for d in m.get_raw_derived(as_copy=False).values():
        d.args.reverse()
        d.args.append("poked")


def run_iso_session(base: dict, lv: dict, maps: dict, inits: list, *, poke: bool = False, judge=None, reuse: list | None = None):
    """ONE LabelMapper, one build_model call per entry of `inits` (None = no initial labels), in order.
    `reuse[k]` true: the k-th call is handed the very dict OBJECT the previous call was handed (a caller keeping its
    tracer specification in one variable); its content as the caller wrote it is `inits[k]`.

    -> (outcomes, mapper.label_maps afterwards or None if unreadable, mapper.label_variables afterwards).
    `judge(k, outcome, model)` is called right after the k-th call (before the returned model is poked: with `poke` the
    caller edits every returned model's containers in place before the next call -- inputs and results are values)."""
    from mxlpy import LabelMapper

    mapper = LabelMapper(build_base(base), label_variables=dict(lv), label_maps={k: list(v) for k, v in maps.items()})
    outs = []
    arg = None
    for k, init in enumerate(inits):
        holder: dict[str, Any] = {}
        if not (reuse and k > 0 and reuse[k] and arg is not None):
            arg = None if init is None else {c: (list(v) if isinstance(v, list) else v) for c, v in init.items()}

        def go(arg=arg, holder=holder):
            m = mapper.build_model(initial_labels=arg)
            holder["m"] = m
            return canon_model(m)

        out = guarded(go)
        outs.append(out)
        if judge is not None:
            judge(k, out, holder.get("m"))
        if poke and holder.get("m") is not None:
            try:
                poke_model(holder["m"])
            except Exception:  # noqa: BLE001
                pass
    try:
        after = {k: [common.exact_int(i) for i in v] for k, v in mapper.label_maps.items()}
    except Exception:  # noqa: BLE001
        after = None
    try:
        lv_after = dict(mapper.label_variables)
    except Exception:  # noqa: BLE001
        lv_after = None
    return outs, after, lv_after


def run_lin(base: dict, lv: dict, maps: dict, init: dict | None, concs: dict, fluxes: dict, ext):
    import pandas as pd

    from mxlpy import LinearLabelMapper

    holder: dict[str, Any] = {}

    def go():
        m = LinearLabelMapper(build_base(base), label_variables=dict(lv), label_maps={k: list(v) for k, v in maps.items()}).build_model(
            pd.Series({k: float(v) for k, v in concs.items()}, dtype=float),
            pd.Series({k: float(v) for k, v in fluxes.items()}, dtype=float),
            external_label=float(ext),
            initial_labels=None if init is None else {k: (list(v) if isinstance(v, list) else v) for k, v in init.items()},
        )
        holder["m"] = m
        return canon_model(m)

    out = guarded(go)
    return out, holder.get("m")


def iso_names(c: str, n: int) -> list[str]:
    if n == 0:
        return [c]
    return [c + "__" + "".join(b) for b in itertools.product("01", repeat=n)]
