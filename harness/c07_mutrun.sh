#!/bin/bash
# harness/c07_mutrun.sh [-t tier] <mutation name>...   -- C07 mutation self-test: per name a scratch copy of /repo,
# harness/c07_mutations.py applied, ./check C07 against the copy; afterwards ONLY coq/codegen/GenCodegenFacts.v is
# regenerated from /repo (tools/mutate.sh ends with `./check --regen`, which rewrites every area's Gen files).
TIER=quick
if [ "$1" = "-t" ]; then TIER="$2"; shift 2; fi
for NAME in "$@"; do
  D=/var/tmp/mxlpy-C07-mut-$$; rm -rf "$D"; mkdir -p "$D"
  rsync -a --exclude .git --exclude docs --exclude publication-figures /repo/ "$D/"
  (cd "$D" && MUTNAME="$NAME" python3 /verif/harness/c07_mutations.py) || { echo "== $NAME: mutation failed"; rm -rf "$D"; continue; }
  OUT=$(MXLPY_VERIF_REPO="$D" /verif/check C07 --tier "$TIER" 2>&1); RC=$?
  echo "== $NAME exit=$RC $(echo "$OUT" | grep -c '^VIOLATION') violation line(s), $(echo "$OUT" | grep '^VIOLATION' | grep -vc no-failing-input-found) concrete"
  echo "$OUT" | grep -E "^\[C07\] generate_model_code|disagree|^\[C07\] tier" | cut -c1-330 | head -4
  R=$(echo "$OUT" | grep -m1 -oE "replay=[^ ]+" | cut -d= -f2)
  if [ -n "$R" ] && [ -f "$R" ]; then MXLPY_VERIF_REPO="$D" /verif/check C07 --replay "$R" >/dev/null 2>&1; echo "   replay exit=$?"; fi
  rm -rf "$D"
done
(cd /verif && PYTHONPATH=/repo/src:/verif MXLPY_VERIF_REPO=/repo PYTHONDONTWRITEBYTECODE=1 /venv/bin/python -c "import harness.c07 as m; m.gen()" >/dev/null 2>&1)
