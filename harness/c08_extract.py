"""Fail-closed fact extractor for C08: src/mxlpy/sbml/_export.py -> coq/sbmlexp/GenSbmlFacts.v.

What is read from the CURRENT source (ast, not text):
  * the dict literals UNARY / BINARY / NARY  (name -> libsbml.AST_* constant);
  * the operator `match` tables of _convert_unaryop / _convert_binop / _convert_compare(_op);
  * the order of the three addChild calls of _convert_ifexp;
  * which species reference _create_sbml_reactions creates for a Derived coefficient, and the
    sign/abs rule for numeric coefficients;
  * the libSBML setter used for initial assignments;
  * for every other modelled function the *shape*: its unparsed source with the parts above replaced
    by placeholders must equal one of the shapes recorded in harness/c08_shapes.json (variant 0 = the
    code as first read, variant 1 = the repaired code).  Which variant matched decides the
    compare / call facts.  Anything unrecognised yields an *Unknown constructor or
    f_shapes_ok = false, and C08_facts_pinned no longer proves.
"""

from __future__ import annotations

import ast
import copy
import json
from pathlib import Path

from harness import common

SHAPES_FILE = Path(__file__).with_name("c08_shapes.json")

KINDS = [
    "TIMES", "PLUS", "MINUS", "DIVIDE", "POWER", "FUNCTION_POWER", "FUNCTION_QUOTIENT",
    "LOGICAL_NOT", "LOGICAL_AND", "LOGICAL_OR", "LOGICAL_XOR",
    "RELATIONAL_EQ", "RELATIONAL_NEQ", "RELATIONAL_LT", "RELATIONAL_LEQ", "RELATIONAL_GT", "RELATIONAL_GEQ",
    "FUNCTION_PIECEWISE", "FUNCTION",
    "FUNCTION_ROOT", "FUNCTION_REM", "FUNCTION_ABS", "FUNCTION_CEILING", "FUNCTION_FLOOR", "FUNCTION_EXP",
    "FUNCTION_SIN", "FUNCTION_COS", "FUNCTION_TAN", "FUNCTION_ARCSIN", "FUNCTION_ARCCOS", "FUNCTION_ARCTAN",
    "FUNCTION_SINH", "FUNCTION_COSH", "FUNCTION_TANH", "FUNCTION_ARCSINH", "FUNCTION_ARCCOSH", "FUNCTION_ARCTANH",
    "FUNCTION_LN", "FUNCTION_LOG", "FUNCTION_MAX", "FUNCTION_MIN",
]  # fmt: skip
UNOPS = {"USub": "UNeg", "Not": "UNot", "UAdd": "UPos", "Invert": "UInvert"}
BINOPS = {"Mult": "BMul", "Add": "BAdd", "Sub": "BSub", "Div": "BDiv", "Pow": "BPow", "FloorDiv": "BFloorDiv", "Mod": "BMod"}
CMPOPS = {"Eq": "CEq", "NotEq": "CNe", "Lt": "CLt", "LtE": "CLe", "Gt": "CGt", "GtE": "CGe", "Is": "CIs"}

# functions / classes whose shape is pinned
SHAPED = [
    "IdentifierReplacer", "DocstringRemover", "_convert_unaryop", "_convert_binop", "_convert_attribute",
    "_convert_constant", "_convert_ifexp", "_unary_call", "_convert_direct_call", "_convert_library_call", "_convert_call",
    "_convert_compare_op", "_convert_compare", "_convert_node", "_handle_body", "_tree_to_sbml", "_sbmlify_fn",
    "_escape_non_alphanumeric", "_convert_id_to_sbml", "_create_sbml_variables", "_create_sbml_derived_variables",
    "_create_derived_parameter", "_create_sbml_parameters", "_create_sbml_derived_parameters",
    "_create_sbml_reactions", "_model_to_sbml", "write", "RE_TO_SBML", "SBML_DOT", "_sbml_ids",
]  # fmt: skip

# functions that differ between "the math uses the model's names" (variant 0) and "the math uses the ids under which the
# components are written" (variant 1, fixes/C08-escaped-names-in-math.diff; `_sbml_ids` exists only then)
NAME_SENSITIVE = ["_sbmlify_fn", "_create_sbml_variables", "_create_sbml_derived_variables", "_create_derived_parameter",
                  "_create_sbml_parameters", "_create_sbml_derived_parameters", "_create_sbml_reactions"]  # fmt: skip


def kind_of(node: ast.expr) -> str:
    if (
        isinstance(node, ast.Attribute)
        and isinstance(node.value, ast.Name)
        and node.value.id == "libsbml"
        and node.attr.startswith("AST_")
        and node.attr[4:] in KINDS
    ):
        return "K_" + node.attr[4:]
    return "K_OTHER"


def _strip_doc(body: list[ast.stmt]) -> list[ast.stmt]:
    return [s for s in body if not (isinstance(s, ast.Expr) and isinstance(s.value, ast.Constant) and isinstance(s.value.value, str))]


class _Norm(ast.NodeTransformer):
    """Replaces the extracted parts by placeholders and records them."""

    def __init__(self, fname: str) -> None:
        self.fname = fname
        self.tables: list[list[tuple[str, str]] | None] = []
        self.ifexp_children: list[str] = []
        self.derived_role: list[str] = []
        self.ia_setters: list[str] = []
        self.in_derived_case = False
        self.rename_modes: list[str] = []
        self.ref_ids: list[str] = []
        self.ref_counter_init = 0

    RENAME_SIMULTANEOUS = ["argmap = dict(zip(fn_args, args, strict=True))", "IdentifierReplacer(argmap).visit(tree)"]
    REF_PER_SPECIES = ["reference = f'{compound_id}ref'"]
    REF_COUNTED = [
        "n_references[compound_id] = n_references.get(compound_id, 0) + 1",
        "reference = f'{compound_id}ref'",
        "if n_references[compound_id] > 1:\n    reference = f'{reference}{n_references[compound_id]}'",
    ]
    REF_COUNTER_INIT = "n_references: dict[str, int] = {}"

    @staticmethod
    def _rename_mode(stmts: list[ast.stmt]) -> str:
        """How the statements after `fn_args = [...]` rename the parameters: one pass with the whole map, or one
        single-pair pass per (parameter, model name) pair (with or without skipping equal pairs)."""
        src = [ast.unparse(x) for x in stmts]
        if src == _Norm.RENAME_SIMULTANEOUS:
            return "RenSimultaneous"
        if len(stmts) == 1 and isinstance(stmts[0], ast.For) and not stmts[0].orelse:
            loop = stmts[0]
            if isinstance(loop.target, ast.Tuple) and len(loop.target.elts) == 2 and all(isinstance(e, ast.Name) for e in loop.target.elts) \
                    and ast.unparse(loop.iter) == "zip(fn_args, args, strict=True)":  # fmt: skip
                a, b = (e.id for e in loop.target.elts)
                body = loop.body
                if len(body) == 1 and isinstance(body[0], ast.If) and not body[0].orelse and ast.unparse(body[0].test) in (f"{a} != {b}", f"{b} != {a}"):
                    body = body[0].body
                if len(body) == 1 and ast.unparse(body[0]) == f"IdentifierReplacer({{{a}: {b}}}).visit(tree)":
                    return "RenSequential"
        return "RenUnknown"

    def visit_If(self, node: ast.If):  # noqa: N802
        if self.fname == "_tree_to_sbml" and ast.unparse(node.test) == "args is not None" and not node.orelse and node.body \
                and ast.unparse(node.body[0]) == "fn_args = [i.arg for i in tree.args.args]":  # fmt: skip
            self.rename_modes.append(self._rename_mode(node.body[1:]))
            node.body = [node.body[0], ast.Expr(ast.Name("RENAME_PARAMETERS", ast.Load()))]
            return node
        self.generic_visit(node)
        return node

    def visit_FunctionDef(self, node: ast.FunctionDef):  # noqa: N802
        node.body = _strip_doc(node.body)
        if self.fname == "_create_sbml_reactions":
            keep = []
            for st in node.body:
                if ast.unparse(st) == self.REF_COUNTER_INIT:
                    self.ref_counter_init += 1
                else:
                    keep.append(st)
            node.body = keep
        node.returns = None
        for a in node.args.args + node.args.kwonlyargs:
            a.annotation = None
        self.generic_visit(node)
        return node

    def visit_Match(self, node: ast.Match):  # noqa: N802
        subj = ast.unparse(node.subject)
        if subj in ("node.op", "op", "node.ops[0]"):
            self.tables.append(self._table(node))
            return ast.Expr(ast.Name("MATCH_OPERATOR_TABLE", ast.Load()))
        if self.fname == "_create_sbml_reactions" and subj == "factor":
            for case in node.cases:
                self.in_derived_case = ast.unparse(case.pattern) == "Derived()"
                if self.in_derived_case:
                    # the statements that compute the reference id, up to the creation of its assignment rule
                    srcs = [ast.unparse(x) for x in case.body]
                    calls = [c for c in ("_create_derived_parameter(sbml_model, reference, factor)", "_create_derived_parameter(sbml_model, reference, factor, ids)") if c in srcs]
                    if len(calls) == 1:
                        k = srcs.index(calls[0])
                        self.ref_ids.append("RefPerSpecies" if srcs[:k] == self.REF_PER_SPECIES else "RefCounted" if srcs[:k] == self.REF_COUNTED else "RefUnknown")
                        case.body = [ast.Expr(ast.Name("REFERENCE_ID", ast.Load())), *case.body[k:]]
                for i, s in enumerate(case.body):
                    case.body[i] = self.visit(s)
                self.in_derived_case = False
            return node
        self.generic_visit(node)
        return node

    @staticmethod
    def _table(node: ast.Match) -> list[tuple[str, str]] | None:
        out = []
        for i, case in enumerate(node.cases):
            last = i == len(node.cases) - 1
            pat = case.pattern
            if last:
                ok = (
                    isinstance(pat, ast.MatchAs) and pat.pattern is None and pat.name is None and case.guard is None
                    and len(case.body) == 1 and isinstance(case.body[0], ast.Raise)
                    and isinstance(case.body[0].exc, ast.Call) and ast.unparse(case.body[0].exc.func) == "NotImplementedError"
                )  # fmt: skip
                return out if ok else None
            if not (
                isinstance(pat, ast.MatchClass) and isinstance(pat.cls, ast.Attribute) and ast.unparse(pat.cls.value) == "ast"
                and not pat.patterns and not pat.kwd_patterns and case.guard is None and len(case.body) == 1
            ):  # fmt: skip
                return None
            st = case.body[0]
            if isinstance(st, ast.Assign) and len(st.targets) == 1 and ast.unparse(st.targets[0]) == "op":
                val = st.value
            elif isinstance(st, ast.Return) and st.value is not None:
                val = st.value
            else:
                return None
            out.append((pat.cls.attr, kind_of(val)))
        return None

    def visit_Call(self, node: ast.Call):  # noqa: N802
        self.generic_visit(node)
        f = ast.unparse(node.func)
        if self.fname == "_convert_ifexp" and f == "sbml_node.addChild" and len(node.args) == 1 and isinstance(node.args[0], ast.Name):
            self.ifexp_children.append(node.args[0].id)
            node.args[0] = ast.Name("CHILD", ast.Load())
        if self.fname == "_create_sbml_reactions" and self.in_derived_case and f in ("sbml_rxn.createReactant", "sbml_rxn.createProduct") and not node.args:
            self.derived_role.append(f.split(".create")[1])
            node.func = ast.Name("CREATE_DERIVED_REFERENCE", ast.Load())
        if (
            self.fname in ("_create_sbml_variables", "_create_sbml_parameters") and f.startswith("ar.set")
            and f not in ("ar.setId", "ar.setName", "ar.setMath") and len(node.args) == 1
            and ast.unparse(node.args[0]) in ("_convert_id_to_sbml(id_=name, prefix='IA')",
                                              "_convert_id_to_sbml(id_=name, prefix='%s')" % {"_create_sbml_variables": "CPD", "_create_sbml_parameters": "PAR"}[self.fname])
        ):  # fmt: skip
            # the symbol of an initial assignment: prefix 'IA' (equal to the component's id only for names that get no
            # prefix) or the prefix of the component itself (part of the pinned shape, see fact math_names)
            self.ia_setters.append(f[3:])
            node.func = ast.Name("IA_SETTER", ast.Load())
        return node


def normalise(tree: ast.Module) -> tuple[dict[str, str], dict[str, _Norm]]:
    shapes: dict[str, str] = {}
    norms: dict[str, _Norm] = {}
    for node in tree.body:
        name = None
        if isinstance(node, (ast.FunctionDef, ast.ClassDef)):
            name = node.name
        elif isinstance(node, ast.Assign) and len(node.targets) == 1 and isinstance(node.targets[0], ast.Name):
            name = node.targets[0].id
        if name in SHAPED:
            n = _Norm(name)
            node2 = n.visit(copy.deepcopy(node))
            ast.fix_missing_locations(node2)
            if isinstance(node2, ast.ClassDef):
                node2.body = _strip_doc(node2.body)
            shapes[name] = ast.unparse(node2)
            norms[name] = n
    return shapes, norms


def dict_table(tree: ast.Module, name: str) -> list[tuple[str, str]] | None:
    for node in tree.body:
        if isinstance(node, ast.Assign) and len(node.targets) == 1 and ast.unparse(node.targets[0]) == name:
            if not isinstance(node.value, ast.Dict):
                return None
            out = []
            for k, v in zip(node.value.keys, node.value.values):
                if not (isinstance(k, ast.Constant) and isinstance(k.value, str) and k.value.isidentifier()):
                    return None
                out.append((k.value, kind_of(v)))
            if len({k for k, _ in out}) != len(out):
                return None
            return out
    return None


def qualifier_table(tree: ast.Module) -> list[tuple[str, int]] | None:
    """UNARY_QUALIFIER = {libsbml.AST_*: <int>}: leading qualifier child of a table-driven unary call; [] if absent."""
    for node in tree.body:
        if isinstance(node, ast.Assign) and len(node.targets) == 1 and ast.unparse(node.targets[0]) == "UNARY_QUALIFIER":
            if not isinstance(node.value, ast.Dict):
                return None
            out = []
            for k, v in zip(node.value.keys, node.value.values):
                if k is None or kind_of(k) == "K_OTHER" or not (isinstance(v, ast.Constant) and type(v.value) is int):
                    return None
                out.append((kind_of(k), v.value))
            if len({k for k, _ in out}) != len(out):
                return None
            return out
    return []


def extract(src_path: Path | None = None) -> dict:
    path = src_path or (common.REPO / "src/mxlpy/sbml/_export.py")
    facts: dict = {
        "unary": None, "binary": None, "nary": None, "unop": None, "binop": None, "cmpop": None,
        "ifexp_order": ["CUnknownChild"], "compare": "CmpUnknown", "call_fallback": "CallUnknown",
        "call_arity": False, "call_kw_reject": False, "unary_qual": None, "lib_parents": [], "attr_consts": [],
        "derived_role": "RoleUnknown", "num_stoich": "NsUnknown", "ia_setter": "IaUnknown",
        "rename": "RenUnknown", "ref_id": "RefUnknown", "math_names": "MathNamesUnknown", "body": "BodyUnknown",
        "escape": "EscUnknown", "shapes_ok": False, "unrecognised": [],
    }  # fmt: skip
    try:
        tree = ast.parse(path.read_text())
    except (OSError, SyntaxError) as e:
        facts["unrecognised"].append(f"cannot parse {path}: {e}")
        return facts
    known = json.loads(SHAPES_FILE.read_text())
    shapes, norms = normalise(tree)
    variant: dict[str, int | None] = {}
    for name in SHAPED:
        have = shapes.get(name)
        opts = known.get(name, [])
        if have is None:
            # a helper that exists only in one variant may be absent
            variant[name] = -1 if None in opts else None
        else:
            variant[name] = opts.index(have) if have in opts else None
        if variant[name] is None:
            facts["unrecognised"].append(name)
    for key in ("UNARY", "BINARY", "NARY"):
        facts[key.lower()] = dict_table(tree, key)
        if facts[key.lower()] is None:
            facts["unrecognised"].append(key)

    def table(fn: str, names: dict[str, str], other: str):
        n = norms.get(fn)
        if n is None or len(n.tables) != 1 or n.tables[0] is None:
            return None
        return [(names.get(a, other), k) for a, k in n.tables[0]]

    facts["unop"] = table("_convert_unaryop", UNOPS, "UInvert")
    facts["binop"] = table("_convert_binop", BINOPS, "BOtherBin")
    cmp_fn = "_convert_compare_op" if "_convert_compare_op" in norms else "_convert_compare"
    facts["cmpop"] = table(cmp_fn, CMPOPS, "COtherCmp")
    for k in ("unop", "binop", "cmpop"):
        if facts[k] is None:
            facts["unrecognised"].append(k + " table")
    # ifexp child order
    n = norms.get("_convert_ifexp")
    if n is not None and variant.get("_convert_ifexp") is not None:
        m = {"condition": "CTest", "true": "CBody", "false": "COrelse"}
        facts["ifexp_order"] = [m.get(c, "CUnknownChild") for c in n.ifexp_children]
    # comparisons: variant 0 = first pair only, variant 1 = and of pairs
    vc, vo = variant.get("_convert_compare"), variant.get("_convert_compare_op")
    if vc == 0 and vo == -1:
        facts["compare"] = "CmpFirstOnly"
    elif vc == 1 and vo == 1:
        facts["compare"] = "CmpAndPairs"
    # calls
    vd, vl, vk = variant.get("_convert_direct_call"), variant.get("_convert_library_call"), variant.get("_convert_call")
    if vd == 0 and vl == 0:
        facts["call_fallback"], facts["call_arity"] = "CallAnonymous", False
    elif vd == 1 and vl == 1:
        facts["call_fallback"], facts["call_arity"] = "CallRaise", True
    elif vd == 2 and vl == 2:
        facts["call_fallback"], facts["call_arity"] = "CallRaise", True
    # leading qualifier child of unary table calls (log10 = log with logbase 10): only through _unary_call
    vu = variant.get("_unary_call")
    qual = qualifier_table(tree)
    if vd == 2 and vl == 2 and vu == 1 and qual is not None:
        facts["unary_qual"] = qual
    elif vd in (0, 1) and vl in (0, 1) and vu == -1 and qual == []:
        facts["unary_qual"] = []
    else:
        facts["unrecognised"].append("unary qualifier mechanism")
    if vk == 1:
        facts["call_kw_reject"] = True
    if variant.get("_convert_attribute") is not None:
        facts["lib_parents"] = ["math", "np", "numpy"]
        facts["attr_consts"] = [("e", "ME"), ("pi", "MPi"), ("inf", "MInf"), ("nan", "MNan")]
    # reactions
    n = norms.get("_create_sbml_reactions")
    if n is not None and variant.get("_create_sbml_reactions") is not None:
        if n.derived_role in (["Reactant"], ["Product"]):
            facts["derived_role"] = n.derived_role[0]
        facts["num_stoich"] = "NsSignAbs"  # part of the pinned shape
        # id of the species reference / assignment rule of a computed coefficient; the counter needs its initialisation
        if n.ref_ids == ["RefPerSpecies"] and n.ref_counter_init == 0:
            facts["ref_id"] = "RefPerSpecies"
        elif n.ref_ids == ["RefCounted"] and n.ref_counter_init == 1:
            facts["ref_id"] = "RefCounted"
    if facts["ref_id"] == "RefUnknown":
        facts["unrecognised"].append("reference id of computed coefficients")
    # parameter renaming of _tree_to_sbml
    n = norms.get("_tree_to_sbml")
    if n is not None and variant.get("_tree_to_sbml") is not None and len(n.rename_modes) == 1:
        facts["rename"] = n.rename_modes[0]
    if facts["rename"] == "RenUnknown":
        facts["unrecognised"].append("parameter renaming of _tree_to_sbml")
    # initial assignments
    setters = []
    for fn in ("_create_sbml_variables", "_create_sbml_parameters"):
        n = norms.get(fn)
        if n is not None and variant.get(fn) is not None:
            setters += n.ia_setters
    if len(setters) == 2 and len(set(setters)) == 1:
        facts["ia_setter"] = {"setVariable": "IaSetVariable", "setSymbol": "IaSetSymbol"}.get(setters[0], "IaUnknown")
    # identifiers inside the math: the model's names, or the ids under which the components are written
    vs = [variant.get(n) for n in NAME_SENSITIVE]
    if all(v == 0 for v in vs) and variant.get("_sbml_ids") == -1:
        facts["math_names"] = "MathRawNames"
    elif all(v == 1 for v in vs) and variant.get("_sbml_ids") == 1:
        facts["math_names"] = "MathIds"
    else:
        facts["unrecognised"].append("identifiers inside the math (raw names / ids)")
    # which statements of a function body _handle_body converts: every one (the last result is returned), or the last only
    if variant.get("_handle_body") == 0:
        facts["body"] = "BodyAllLast"
    elif shapes.get("_handle_body") in BODY_LAST_ONLY:
        facts["body"] = "BodyLastOnly"
    # the class of characters RE_TO_SBML escapes: the complement of [0-9_a-zA-Z], or Python's Unicode-aware \W
    facts["escape"] = escape_class(tree)
    if facts["escape"] == "EscUnknown":
        facts["unrecognised"].append("character class of RE_TO_SBML")
    facts["shapes_ok"] = not facts["unrecognised"]
    facts["variants"] = {k: v for k, v in variant.items()}
    return facts


# normalised shapes of a _handle_body that converts only the last statement (regression shape of seeded C08-4)
BODY_LAST_ONLY = [
    "def _handle_body(stmts):\n    if len(stmts) == 0:\n        return libsbml.ASTNode()\n    return _convert_node(stmts[-1])",
    "def _handle_body(stmts):\n    if not stmts:\n        return libsbml.ASTNode()\n    return _convert_node(stmts[-1])",
]


def escape_class(tree: ast.Module) -> str:
    for node in tree.body:
        if isinstance(node, ast.Assign) and len(node.targets) == 1 and ast.unparse(node.targets[0]) == "RE_TO_SBML":
            v = node.value
            if isinstance(v, ast.Call) and ast.unparse(v.func) == "re.compile" and len(v.args) == 1 and not v.keywords \
                    and isinstance(v.args[0], ast.Constant) and isinstance(v.args[0].value, str):  # fmt: skip
                return {"([^0-9_a-zA-Z])": "EscAscii", "(\\W)": "EscUnicodeWord", "([^\\w])": "EscUnicodeWord"}.get(v.args[0].value, "EscUnknown")
    return "EscUnknown"


IMPORT_SHAPED = ["read", "import_from_path"]


def import_shapes(path: Path) -> dict[str, str]:
    tree = ast.parse(path.read_text())
    out = {}
    for node in tree.body:
        if isinstance(node, ast.FunctionDef) and node.name in IMPORT_SHAPED:
            n = _Norm("import:" + node.name)
            node2 = n.visit(copy.deepcopy(node))
            ast.fix_missing_locations(node2)
            out[node.name] = ast.unparse(node2)
    return out


def extract_import(src_path: Path | None = None) -> dict:
    """src/mxlpy/sbml/_import.py: does read() parse the file every time, and how is the generated module loaded?
    Shapes (harness/c08_shapes.json, keys "import:read" / "import:import_from_path"): read = parse, generate, import on
    every call; import_from_path variant 0 = spec.loader.exec_module (byte code cached by the source loader is trusted),
    variant 1 = the source just written is compiled and executed.  Anything else: *Unknown / shapes_ok = false."""
    path = src_path or (common.REPO / "src/mxlpy/sbml/_import.py")
    f = {"read": "ReadUnknown", "loader": "LoaderUnknown", "shapes_ok": False, "unrecognised": []}
    try:
        shapes = import_shapes(path)
    except (OSError, SyntaxError) as e:
        f["unrecognised"].append(f"cannot parse {path}: {e}")
        return f
    known = json.loads(SHAPES_FILE.read_text())
    if shapes.get("read") in known.get("import:read", []):
        f["read"] = "ReadParseAlways"
    else:
        f["unrecognised"].append("read")
    opts = known.get("import:import_from_path", [])
    have = shapes.get("import_from_path")
    if have in opts:
        f["loader"] = ["LoaderSourceCached", "LoaderCompileSource"][opts.index(have)] if opts.index(have) < 2 else "LoaderUnknown"
    if f["loader"] == "LoaderUnknown":
        f["unrecognised"].append("import_from_path")
    f["shapes_ok"] = not f["unrecognised"]
    return f


def record_shapes(paths: list[Path]) -> None:
    """Development helper: (re)write c08_shapes.json from the given source variants."""
    known: dict[str, list] = {n: [] for n in SHAPED}
    for p in paths:
        shapes, _ = normalise(ast.parse(p.read_text()))
        for n in SHAPED:
            s = shapes.get(n)
            if s not in known[n]:
                known[n].append(s)
    SHAPES_FILE.write_text(json.dumps(known, indent=1))


# ---------------------------------------------------------------------------------------
# Gallina printer
# ---------------------------------------------------------------------------------------


def _pairs(tab, key=lambda k: common.cstr(k)) -> str:
    if tab is None:
        return '[(""%string, K_OTHER)]' if key is not None and key("x").startswith('"') else "[]"
    return common.clist(f"({key(k)}, {v})" for k, v in tab)


def to_coq(f: dict, imp: dict | None = None) -> str:
    imp = imp or {"read": "ReadUnknown", "loader": "LoaderUnknown", "shapes_ok": False}

    def optab(tab, unknown):
        if tab is None:
            return f"[({unknown}, K_OTHER)]"
        return common.clist(f"({k}, {v})" for k, v in tab)

    def qtab(tab):
        if tab is None:
            return "[(K_OTHER, 0%Z)]"
        return common.clist(f"({k}, {common.cz(v)})" for k, v in tab)

    def stab(tab):
        if tab is None:
            return '[("?"%string, K_OTHER)]'
        return common.clist(f"({common.cstr(k)}, {v})" for k, v in tab)

    return (
        "(* REGENERATED from src/mxlpy/sbml/_export.py by harness/c08_extract.py; do not edit.\n"
        "   Unrecognised code yields *Unknown / K_OTHER / f_shapes_ok = false, which breaks C08_facts_pinned. *)\n"
        "From Coq Require Import ZArith QArith List Bool String.\nImport ListNotations.\n"
        "From SbmlExp Require Import SbmlMath SbmlIdU SbmlSession.\n"
        "(* RE_TO_SBML: which characters of a name are escaped as __<ord>__ *)\n"
        f"Definition gen_escape : escape_class := {f.get('escape', 'EscUnknown')}.\n"
        "(* src/mxlpy/sbml/_import.py: read() and import_from_path *)\n"
        f"Definition gen_import_facts : import_facts := mkImportFacts {imp['read']} {imp['loader']} {common.cbool(imp['shapes_ok'])}.\n"
        "Definition gen_facts : facts := mkFacts\n"
        f"  {stab(f['unary'])}\n  {stab(f['binary'])}\n  {stab(f['nary'])}\n"
        f"  {optab(f['unop'], 'UInvert')}\n  {optab(f['binop'], 'BOtherBin')}\n  {optab(f['cmpop'], 'COtherCmp')}\n"
        f"  {common.clist(f['ifexp_order'])}\n  {f['compare']} {f['call_fallback']} {common.cbool(f['call_arity'])} {common.cbool(f['call_kw_reject'])}\n"
        f"  {qtab(f['unary_qual'])}\n"
        f"  {common.clist(common.cstr(p) for p in f['lib_parents'])}\n"
        f"  {common.clist('(' + common.cstr(k) + ', ' + v + ')' for k, v in f['attr_consts'])}\n"
        f"  {f['derived_role']} {f['num_stoich']} {f['ia_setter']} {f['rename']} {f['ref_id']} {f['math_names']} {f.get('body', 'BodyUnknown')} {common.cbool(f['shapes_ok'])}.\n"
    )
