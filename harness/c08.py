"""C08 -- SBML export then import reproduces the model, or export fails.

Tie to the source:
  (1) harness/c08_extract.py regenerates coq/sbmlexp/GenSbmlFacts.v (operator/function tables, child
      order of piecewise, comparison mode, call fallback/arity/keyword handling, species reference
      created for a computed coefficient, initial-assignment setter, pinned shapes of every other
      modelled function); PropsC08.v pins them (C08_facts_pinned);
  (2) correspondence inside Coq (vm_compute): `tree_to_sbml gen_facts` vs the real `_sbmlify_fn` on
      generated single-expression functions (libSBML tree compared node by node, exceptions by
      class); `convert_id` vs `_convert_id_to_sbml`; `export_reaction` / `export_initial_assignment`
      vs what `sbml.write` put into the document for one-reaction / one-assignment models;
  (3) independent oracles on the implementation: (a) the exported MathML of every function is
      evaluated by a small SBML-L3 evaluator (harness/c08_gen.py::eval_mathml) at integer points and
      compared with calling the Python function; (b) whole models are written, read back with
      mxlpy.sbml.read (pysbml) and compared by name: kinds, initial values, parameter and derived
      values, fluxes and derivatives at three integer states; (c) a model built only from constructs
      the property names must not be refused.
"""

from __future__ import annotations

import importlib.util
import math
import shutil
import signal
import sys
from fractions import Fraction
from pathlib import Path
from typing import Any

from harness import c08_extract, c08_gen, common
from harness.c08_gen import MODULE_HEADER, ast_to_tree, coq_fundef, eval_mathml, fn_src, gen_core_expr, gen_expr, gen_function, outcome_to_coq
from harness.common import Run, clist, cn, cq, cstr

AREA = "sbmlexp"
PROPS = "PropsC08.v"
KINDS = c08_extract.KINDS


def gen() -> dict:
    f = c08_extract.extract()
    common.write_if_changed(common.area_dir(AREA) / "GenSbmlFacts.v", c08_extract.to_coq(f))
    return {k: v for k, v in f.items() if k != "variants"}


# ---------------------------------------------------------------------------------------
# plumbing
# ---------------------------------------------------------------------------------------


class _Timeout(Exception):
    pass


def _alarm(signum, frame):  # noqa: ANN001, ARG001
    raise _Timeout


def guarded(fn, *a, timeout: float = 20.0, **kw):  # noqa: ANN001, ANN002, ANN003
    signal.signal(signal.SIGALRM, _alarm)
    signal.setitimer(signal.ITIMER_REAL, timeout)
    try:
        return fn(*a, **kw)
    finally:
        signal.setitimer(signal.ITIMER_REAL, 0)


_MOD_COUNTER = [0]


def load_module(scratch: Path, text: str) -> Any:
    _MOD_COUNTER[0] += 1
    name = f"c08fns_{common.os.getpid()}_{_MOD_COUNTER[0]}"
    path = scratch / f"{name}.py"
    path.write_text(text)
    spec = importlib.util.spec_from_file_location(name, path)
    mod = importlib.util.module_from_spec(spec)
    sys.modules[name] = mod
    spec.loader.exec_module(mod)
    return mod


def sbmlify(fn, args: list[str]) -> tuple:  # noqa: ANN001
    from mxlpy.sbml._export import _sbmlify_fn

    import libsbml

    try:
        node = guarded(_sbmlify_fn, fn, list(args), timeout=5.0)
        # out[1]: the tree the exporter built (compared with the Coq model); out[2]: the same tree after libSBML wrote
        # it as MathML and read it back (what a file contains; judged by the oracle); out[3]: libSBML's own verdict
        back = libsbml.readMathMLFromString(libsbml.writeMathMLToString(node))
        return ("ok", ast_to_tree(node), ast_to_tree(back) if back is not None else None, bool(node.isWellFormedASTNode()))
    except _Timeout:
        return ("err", "ErrOther:Timeout", "timeout")
    except Exception as e:  # noqa: BLE001
        return ("err", common.classify_exception(e), str(e)[:120])


def py_value(fn, vals: list[float]) -> float | None:  # noqa: ANN001
    """Value of the Python function, None where it has no finite real value."""
    import warnings

    import numpy as np

    try:
        # a NumPy function outside its domain yields NaN (which `<`, `==` then swallow): no real value there
        with warnings.catch_warnings(), np.errstate(invalid="raise", divide="raise", over="raise"):
            warnings.simplefilter("ignore")
            v = fn(*vals)
        if isinstance(v, complex):
            return None
        v = float(v)
    except Exception:  # noqa: BLE001
        return None
    return v if math.isfinite(v) else None


def close(a: float, b: float) -> bool:
    return a == b or abs(a - b) <= 1e-9 * max(1.0, abs(a), abs(b))


POINTS = [[2.0, 1.0, 3.0, 0.0], [0.0, 3.0, 1.0, 2.0], [1.0, 1.0, 2.0, 4.0], [3.0, 2.0, 0.0, 1.0], [4.0, 0.0, 1.0, 1.0]]


def math_oracle(fn, params: list[str], args: list[str], out: tuple, flags: list[str]) -> str | None:  # noqa: ANN001
    """Judges the property on one exported function: refusal only where allowed; same value at integer points."""
    if out[0] == "err":
        if "mayrefuse" in flags or len(params) != len(args):
            return None
        return f"export refuses a representable function: {out[1]} {out[2]}"
    if len(params) != len(args):
        return "export accepted a function whose parameter count differs from the model arguments"
    if not out[3] or out[2] is None:
        return "the exported node is not a well-formed libSBML AST: setMath rejects it silently / its MathML is written without the operands"
    for pt in POINTS:
        vals = pt[: len(params)]
        pv = py_value(fn, vals)
        if pv is None:
            continue
        env = dict(zip(args, vals)) | {"g50": None}
        try:
            mv = eval_mathml(out[2], {k: v for k, v in env.items() if v is not None})
        except c08_gen.Undefined as e:
            return f"exported MathML has no value at {dict(zip(params, vals))} ({e}) where the function returns {pv}"
        if not close(pv, float(mv)):
            return f"exported MathML evaluates to {mv} at {dict(zip(params, vals))}, the function returns {pv}"
    return None


# ---------------------------------------------------------------------------------------
# models (document level)
# ---------------------------------------------------------------------------------------


def gen_model(rng, wild: bool, exotic: bool = False) -> dict:
    fns: list[tuple[str, list[str], list[tuple]]] = []
    flags: set[str] = set()

    def newfn(avail: list[str], depth: int, nmax: int = 3, w: bool = False) -> tuple[str, list[str]]:
        k = rng.randint(0 if rng.random() < 0.1 else 1, min(nmax, len(avail)))
        args = rng.sample(avail, k)
        params = [f"p{i}" for i in range(k)]
        fl: set[str] = set()
        if w or (exotic and rng.random() < 0.5):
            # the full expression grammar: truth values used as numbers and numbers as conditions included
            e = gen_expr(rng, params, depth, w, fl)
            if c08_gen.mixes_bool_num(e):
                fl.add("boolnum")
        else:
            e = gen_core_expr(rng, params, depth, fl)
        flags.update(fl)
        name = f"f{len(fns)}"
        body = ([("doc",)] if rng.random() < 0.1 else []) + [("return", e)]
        fns.append((name, params, body))
        return name, args

    def numval():
        return rng.choice([0, 1, 2, 3, 4, 0.5, 1.5, 2.5, 0.25])

    n_par, n_var = rng.randint(1, 3), rng.randint(1, 3)
    pars, plain = [], []
    for i in range(n_par):
        nm = f"n{200 + i}"
        if plain and rng.random() < 0.2:
            flags.add("initial_assignment")
            pars.append([nm, {"ia": list(newfn(plain, 1))}])
        else:
            pars.append([nm, numval()])
            plain.append(nm)
    vars_ = []
    for i in range(n_var):
        nm = f"n{100 + i}"
        if rng.random() < 0.15:
            flags.add("initial_assignment")
            vars_.append([nm, {"ia": list(newfn(plain, 1))}])
        else:
            vars_.append([nm, numval()])
    avail = [p[0] for p in pars] + [v[0] for v in vars_]
    derived = []
    for i in range(rng.randint(0, 2)):
        nm = f"n{300 + i}"
        f, a = newfn(avail, 2, w=wild and rng.random() < 0.3)
        derived.append([nm, f, a])
        avail.append(nm)
    rxns = []
    computed_for: set[str] = set()
    for i in range(rng.randint(1, 3)):
        nm = f"n{400 + i}"
        f, a = newfn(avail, 2, w=wild and rng.random() < 0.4)
        st = []
        for v in rng.sample([v[0] for v in vars_], rng.randint(1, n_var)):
            r = rng.random()
            if r >= 0.65 and v in computed_for and rng.random() < 0.9:
                r = rng.random() * 0.65  # recorded finding shared-stoichiometry-reference: keep it rare
            if r < 0.4:
                c = rng.choice([-3, -2, -1, 1, 2, 3])
            elif r < 0.65:
                flags.add("fractional_stoichiometry")
                c = rng.choice([-2.5, -1.5, -0.5, 0.5, 1.5, 0.25])
            else:
                flags.add("computed_stoichiometry")
                if v in computed_for:
                    flags.add("shared_ref")
                computed_for.add(v)
                k = rng.randint(0, min(1, len(plain)))
                cargs = rng.sample(plain, k)
                base: tuple = ("real", Fraction(rng.choice([1, 2, 3, 5]), 2)) if k == 0 else ("bin", "Mult", ("name", "p0"), ("real", Fraction(rng.choice([1, 3]), 2)))
                e = base if rng.random() < 0.5 else ("un", "USub", base)
                fname = f"f{len(fns)}"
                fns.append((fname, [f"p{j}" for j in range(k)], [("return", e)]))
                c = {"derived": [fname, cargs]}
            st.append([v, c])
        rxns.append([nm, f, a, st])
    module = MODULE_HEADER + "\n\n".join(fn_src(n, p, b) for n, p, b in fns)
    return {"module": module, "parameters": pars, "variables": vars_, "derived": derived, "reactions": rxns,
            "flags": sorted(flags), "fns": {n: [p, b] for n, p, b in fns}}  # fmt: skip


def build_model(spec: dict, scratch: Path):
    from mxlpy import Derived, InitialAssignment, Model

    mod = load_module(scratch, spec["module"])
    m = Model()
    for nm, v in spec["parameters"]:
        m.add_parameter(nm, InitialAssignment(fn=getattr(mod, v["ia"][0]), args=list(v["ia"][1])) if isinstance(v, dict) else v)
    for nm, v in spec["variables"]:
        m.add_variable(nm, InitialAssignment(fn=getattr(mod, v["ia"][0]), args=list(v["ia"][1])) if isinstance(v, dict) else v)
    for nm, f, a in spec["derived"]:
        m.add_derived(nm, fn=getattr(mod, f), args=list(a))
    for nm, f, a, st in spec["reactions"]:
        sto = {v: (Derived(fn=getattr(mod, c["derived"][0]), args=list(c["derived"][1])) if isinstance(c, dict) else c) for v, c in st}
        m.add_reaction(nm, fn=getattr(mod, f), args=list(a), stoichiometry=sto)
    return m


def _series(fn, *a, strict: bool = True, **kw) -> dict[str, float] | None:  # noqa: ANN001, ANN002, ANN003
    import warnings

    import numpy as np

    try:
        # NumPy functions outside their domain must not pass as values (NaN is swallowed by comparisons)
        with warnings.catch_warnings(), np.errstate(**({"invalid": "raise", "divide": "raise", "over": "raise"} if strict else {})):
            warnings.simplefilter("ignore")
            s = fn(*a, **kw)
        return {str(k): float(v) for k, v in dict(s).items()}
    except Exception:  # noqa: BLE001
        return None


def observe(m, state: dict[str, float] | None, strict: bool = True) -> dict | None:  # noqa: ANN001
    """Everything the property compares, at one state (None = the initial one).  strict: NumPy domain errors of the
    ORIGINAL model raise (no value there); the re-imported model is evaluated as it is."""
    if state is None:
        ic = _series(m.get_initial_conditions, strict=strict)
        if ic is None:
            return None
        state = ic
    args = _series(m.get_args, dict(state), time=0.0, strict=strict)
    flux = _series(m.get_fluxes, dict(state), time=0.0, strict=strict)
    rhs = _series(m.get_right_hand_side, dict(state), time=0.0, strict=strict)
    if args is None or flux is None or rhs is None:
        return None
    return {"state": state, "args": args, "fluxes": flux, "rhs": rhs}


def roundtrip_oracle(spec: dict, scratch: Path, tag: str, states: list[dict[str, float] | None]) -> tuple[str, str | None]:
    """-> (outcome kind, description of the violation or None)"""
    from mxlpy import sbml

    try:
        m = build_model(spec, scratch)
    except Exception as e:  # noqa: BLE001
        return "unbuildable", None if "mayrefuse" in spec["flags"] else f"harness could not build the model: {type(e).__name__}: {e}"
    if observe(m, None) is None:
        return "original-not-evaluable", None
    f = scratch / f"c08_{common.os.getpid()}_{tag}.xml"
    try:
        guarded(sbml.write, m, f)
    except _Timeout:
        return "write-timeout", "sbml.write did not return within 20 s"
    except Exception as e:  # noqa: BLE001
        if "mayrefuse" in spec["flags"]:
            return "refused", None
        return "refused-representable", f"sbml.write refuses a model made of representable constructs {spec['flags']}: {type(e).__name__}: {str(e)[:150]}"
    cache_py = Path.home() / ".cache" / "mxlpy" / f"mb_{f.stem}.py"
    import warnings

    try:
        with warnings.catch_warnings():
            warnings.simplefilter("ignore")  # SymPy deprecation notices from pysbml
            m2 = guarded(sbml.read, f)
    except _Timeout:
        # pysbml/SymPy simplification of a deeply nested conditional can take minutes: inconclusive, counted, not judged
        return "read-timeout", None
    except Exception as e:  # noqa: BLE001
        return "unreadable", f"sbml.write wrote a file that sbml.read cannot import: {type(e).__name__}: {str(e)[:150]}"
    finally:
        cache_py.unlink(missing_ok=True)
        sys.modules.pop(f"mb_{f.stem}", None)
    ids1, ids2 = dict(m.ids), dict(m2.ids)
    for nm, kind in ids1.items():
        if nm not in ids2:
            return "name-lost", f"component {nm!r} ({kind}) of the original is missing after export+import (has {sorted(ids2)})"
        if ids2[nm] != kind:
            return "kind-changed", f"component {nm!r} is a {kind} in the original and a {ids2[nm]} after export+import"
    n_cmp = 0
    for st in states:
        o1 = observe(m, st)
        if o1 is None or not all(math.isfinite(v) for d in ("args", "fluxes", "rhs") for v in o1[d].values()):
            continue
        st_used = o1["state"]
        o2 = observe(m2, None if st is None else {**{k: v for k, v in (observe(m2, None, strict=False) or {"state": {}})["state"].items()}, **st_used}, strict=False)
        if o2 is None:
            return "rt-not-evaluable", f"the re-imported model cannot be evaluated at {st_used} (the original can)"
        if st is None:
            for k, v in o1["state"].items():
                if not close(v, o2["state"].get(k, math.nan)):
                    return "initial-value", f"initial value of {k}: original {v}, after export+import {o2['state'].get(k)}"
        for what in ("args", "fluxes", "rhs"):
            for k, v in o1[what].items():
                if k in ("time",):
                    continue
                w = o2[what].get(k, math.nan)
                if not close(v, w):
                    label = {"args": "value", "fluxes": "flux", "rhs": "derivative"}[what]
                    return what, f"{label} of {k} at state {st_used}: original {v}, after export+import {w}"
        n_cmp += 1
    return ("ok" if n_cmp else "no-comparable-state"), None


# ---------------------------------------------------------------------------------------
# one-reaction / one-assignment documents for the Coq correspondence of SbmlDoc
# ---------------------------------------------------------------------------------------


def coq_coef(c, fns: dict) -> str:  # noqa: ANN001
    if isinstance(c, dict):
        f, a = c["derived"]
        return f"(CDyn {coq_fundef(fns[f][0], fns[f][1])} {clist(cn(int(x[1:])) for x in a)})"
    return f"(CNum {cq(Fraction(*float(c).as_integer_ratio()))})"


def doc_reaction_outcome(spec: dict, scratch: Path, tag: str) -> tuple:
    """Writes the model through the public `sbml.write`; returns ("ok", [(reactants, products, law)], ias) taken from the
    libSBML document the exporter built (captured at libsbml.writeSBMLToFile: reading the XML back would normalise node
    types, e.g. AST_POWER -> AST_FUNCTION_POWER), ("err", class, msg) when the exporter raises, or ("skip", why) when the
    model cannot be evaluated at its initial state (Model._create_cache raises inside write: outside the Coq model)."""
    import libsbml
    from mxlpy import sbml

    m = build_model(spec, scratch)
    if observe(m, None) is None:
        return ("skip", "not evaluable at the initial state")
    f = scratch / f"c08d_{common.os.getpid()}_{tag}.xml"
    captured: list = []
    orig = libsbml.writeSBMLToFile

    def capture(doc, path):  # noqa: ANN001
        captured.append(doc)
        return orig(doc, path)

    libsbml.writeSBMLToFile = capture
    try:
        guarded(sbml.write, m, f)
    except Exception as e:  # noqa: BLE001
        return ("err", common.classify_exception(e), str(e)[:100])
    finally:
        libsbml.writeSBMLToFile = orig
        f.unlink(missing_ok=True)
    if len(captured) != 1:
        return ("err", "ErrOther:NoDocument", "sbml.write did not hand a document to libsbml.writeSBMLToFile")
    sm = captured[0].getModel()
    rules = {sm.getRule(i).getVariable(): sm.getRule(i).getMath() for i in range(sm.getNumRules())}
    out = []
    for nm, _f, _a, _st in spec["reactions"]:
        rx = sm.getReaction(nm)
        groups = []
        for getn, get in ((rx.getNumReactants, rx.getReactant), (rx.getNumProducts, rx.getProduct)):
            refs = []
            for i in range(getn()):
                sr = get(i)
                rule = rules.get(sr.getId()) if sr.isSetId() else None
                refs.append((sr.getSpecies(), sr.getStoichiometry() if sr.isSetStoichiometry() else None, ast_to_tree(rule) if rule is not None else None))
            groups.append(refs)
        out.append((groups[0], groups[1], ast_to_tree(rx.getKineticLaw().getMath())))
    ias = {}
    for i in range(sm.getNumInitialAssignments()):
        ia = sm.getInitialAssignment(i)
        ias[ia.getSymbol()] = ast_to_tree(ia.getMath())
    return ("ok", out, ias)


def coq_sref(role: str, ref: tuple) -> str:
    sp, st, rule = ref
    s = "None" if st is None else f"(Some {cq(Fraction(*float(st).as_integer_ratio()))})"
    r = "None" if rule is None else f"(Some {c08_gen.tree_to_coq(rule, KINDS)})"
    return f"(mkSref {role} {cn(int(sp[1:]))} {s} {r})"


# ---------------------------------------------------------------------------------------
# the check
# ---------------------------------------------------------------------------------------

KNOWN_NAME_WITNESSES = ["1x", "x-1", "x.y", "_x"]
IMPORT_SIDE = ("unreadable", "read-timeout", "rt-not-evaluable", "name-lost", "kind-changed", "initial-value", "args", "fluxes", "rhs")
GUARD_FINDING = {"shared_ref": "shared-stoichiometry-reference", "boolnum": "boolean-as-number-import"}
BOOLNUM_WITNESS = {
    "module": MODULE_HEADER + "def f0(p0, p1):\n    return (p0 > 1) * p1\n",
    "parameters": [["n200", 3.0]], "variables": [["n100", 2.0]], "derived": [],
    "reactions": [["n400", "f0", ["n100", "n200"], [["n100", -1]]]], "flags": ["boolnum"], "fns": {},
}  # fmt: skip
SHARED_REF_WITNESS = {
    "module": MODULE_HEADER + "def f0(p0):\n    return p0\n\ndef f1():\n    return 0.5\n\ndef f2():\n    return -1.5\n",
    "parameters": [["n200", 2.0]], "variables": [["n100", 1.0], ["n101", 1.0]], "derived": [],
    "reactions": [["n400", "f0", ["n100"], [["n101", {"derived": ["f1", []]}]]], ["n401", "f0", ["n100"], [["n101", {"derived": ["f2", []]}]]]],
    "flags": ["computed_stoichiometry", "shared_ref"], "fns": {},
}  # fmt: skip


def unsafe_name_fails(name: str, scratch: Path) -> str | None:
    """Replays the known finding: a component whose name needs escaping is not found under its name."""
    spec = {
        "module": MODULE_HEADER + "def f0(p0, p1):\n    return p0 * p1\n",
        "parameters": [["n200", 3.0]], "variables": [[name, 2.0]], "derived": [],
        "reactions": [["n400", "f0", [name, "n200"], [[name, -1]]]], "flags": [], "fns": {},
    }  # fmt: skip
    _kind, bad = roundtrip_oracle(spec, scratch, "known", [None])
    return bad


def _n(x: str) -> tuple:
    return ("name", x)


_LT3 = ("cmp", _n("p0"), [("Lt", ("int", 3))])
# minimised past failures and one small function per construct the property names; they run first
MATH_CORPUS: list[tuple[list[str], tuple, list[str]]] = [
    (["p0"], ("if", _LT3, ("int", 5), ("int", 7)), ["conditional"]),
    (["p0", "p1"], ("if", ("cmp", ("int", 1), [("Lt", _n("p0")), ("LtE", _n("p1"))]), ("int", 1), ("int", 0)), ["chained"]),
    (["p0"], ("if", ("cmp", ("int", 1), [("Lt", _n("p0")), ("Lt", ("int", 3))]), _n("p0"), ("un", "USub", _n("p0"))), ["chained"]),
    (["p0"], ("callattr", "np", "log10", [("bin", "Add", _n("p0"), ("int", 1))], False), ["function"]),
    (["p0"], ("callattr", "math", "log10", [("bin", "Add", _n("p0"), ("int", 1))], False), ["function"]),
    (["p0"], ("callattr", "np", "log", [("bin", "Add", _n("p0"), ("int", 1))], False), ["function"]),
    (["p0"], ("callname", "sqrt", [("bin", "Add", _n("p0"), ("int", 1))], False), ["function"]),
    (["p0", "p1"], ("callname", "max", [_n("p0"), _n("p1"), ("real", Fraction(3, 2))], False), ["function"]),
    (["p0", "p1"], ("callattr", "np", "power", [_n("p0"), _n("p1")], False), ["function"]),
    (["p0", "p1"], ("bin", "Sub", ("bin", "Pow", _n("p0"), ("int", 2)), ("bin", "FloorDiv", _n("p1"), ("int", 2))), []),
    (["p0", "p1"], ("bin", "Div", ("un", "USub", _n("p0")), ("bin", "Add", _n("p1"), ("real", Fraction(1, 2)))), []),
    (["p0", "p1"], ("bin", "Mult", ("cmp", _n("p0"), [("Gt", ("int", 1))]), _n("p1")), []),
    (["p0"], ("if", ("un", "Not", _LT3), ("attr", "math", "pi"), ("attr", "np", "e")), ["conditional"]),
    (["p0"], ("callattr", "math", "exp", [_n("p0")], False), ["mayrefuse"]),
    (["p0"], ("callname", "helper", [_n("p0")], False), ["mayrefuse"]),
    (["p0", "p1"], ("callattr", "np", "sqrt", [_n("p0"), _n("p1")], False), ["mayrefuse"]),
    (["p0"], ("callattr", "np", "sqrt", [_n("p0")], True), ["mayrefuse"]),
    (["p0"], ("bin", "Mod", _n("p0"), ("int", 2)), ["mayrefuse"]),
]


def _model(mod: str, **kw) -> dict:  # noqa: ANN003
    spec = {"module": MODULE_HEADER + mod, "parameters": [["n200", 2.0]], "variables": [["n100", 1.5], ["n101", 0.5]],
            "derived": [], "reactions": [], "flags": [], "fns": {}}  # fmt: skip
    spec.update(kw)
    return spec


MODEL_CORPUS: list[dict] = [
    _model("def f0(p0, p1):\n    return p0 * p1\n\ndef f1(p0):\n    return -(p0 * 1.5)\n\ndef f2():\n    return 2.5\n",
           reactions=[["n400", "f0", ["n100", "n200"], [["n100", {"derived": ["f1", ["n200"]]}], ["n101", {"derived": ["f2", []]}]]]],
           flags=["computed_stoichiometry"]),
    _model("def f0(p0, p1):\n    return p0 * p1\n", reactions=[["n400", "f0", ["n100", "n200"], [["n100", -1.5], ["n101", 0.25]]]],
           flags=["fractional_stoichiometry"]),
    _model("def f0(p0):\n    return p0 * 3\n\ndef f1(p0):\n    return p0 + 1\n\ndef f2(p0, p1):\n    return p0 * p1\n",
           parameters=[["n200", 2.0], ["n201", {"ia": ["f0", ["n200"]]}]], variables=[["n100", {"ia": ["f1", ["n200"]]}], ["n101", 0.5]],
           reactions=[["n400", "f2", ["n100", "n201"], [["n100", -1], ["n101", 1]]]], flags=["initial_assignment"]),
    _model("def f0(p0, p1):\n    return (p0 if (1 < p0 <= p1) else (-p1)) + (5 if p0 < 3 else 7)\n",
           reactions=[["n400", "f0", ["n100", "n200"], [["n100", -1]]]], flags=["chained", "conditional"]),
    _model("def f0(p0):\n    return np.log10(p0 + 1) + math.sqrt(p0)\n\ndef f1(p0, p1):\n    return p0 * p1\n",
           derived=[["n300", "f0", ["n100"]]], reactions=[["n400", "f1", ["n300", "n200"], [["n101", -2]]]], flags=["function"]),
]


def check(run: Run) -> None:
    thorough = run.tier == "thorough"
    facts = gen()
    run.coverage["gen_facts"] = facts
    run.rule = (
        "functions: a corpus of 18 minimal functions (one per construct the property names + every past failure), then random "
        "single-expression Python functions (arithmetic, **, //, unary minus, single and chained comparisons, conditional "
        "expressions, not, truth values as numbers, math/numpy/builtin table functions, constants, docstrings) plus a wild "
        "stream (35%) with constructs the exporter must refuse (%, and, unknown/nested calls, wrong arity, keywords, other "
        "statements); models: a corpus of 5, then 1-3 parameters/variables (numeric or initial assignment), 0-2 derived, 1-3 "
        "reactions with integer, fractional and computed coefficients of either sign, rate laws from the grammar of the "
        "constructs the property names (18% from the full grammar, 12% wild); a case is non-trivial if the function has an "
        "operator/call (math level) or the model round-trips / differs at a compared state; distinct by content"
    )
    proofs_ok = run.check_proofs(AREA, PROPS)
    run.assumptions += [
        "Coq 8.16.1 kernel + vm_compute; all C08 theorems closed under the global context (no axioms)",
        "fact extractor harness/c08_extract.py + harness/c08_shapes.json (fail-closed: unknown shapes break C08_facts_pinned)",
        "MathML meaning per SBML L3V2 is the hand-written eval_ml (n-ary plus/times, piecewise(value, condition, otherwise), "
        "lazy piecewise/and, relational operators as 1/0); transcendental/rounding functions, power, quotient and rem are "
        "uninterpreted functions shared by the Python and the MathML side (the sign convention of quotient/rem on negative "
        "operands is not decided here)",
        "libSBML (tree construction, XML writing) and pysbml 0.5.0 + mxlpy.sbml.read (import) are external: modelled by the "
        "SBML meaning of species references (reactant negative, product positive, assignment rule bound to the reference id); "
        "exercised by the round-trip oracle, not verified",
        "CPython evaluation of the rate functions is modelled by eval_py (exact rationals; bool = 1/0; names that are not "
        "parameters have no value); IdentifierReplacer renaming callee names, nested attributes, non-ASCII names are outside the model",
        "correspondence harness: generators, Gallina printers, libSBML tree walker, coqc output parser; the document-level "
        "correspondence reads the libSBML document sbml.write hands to libsbml.writeSBMLToFile",
        "oracle limits: points where a NumPy function leaves its domain (NaN) have no value and are skipped; models that cannot "
        "be evaluated at their initial state cannot be exported (Model._create_cache raises inside write) and are skipped; an "
        "import that takes more than 20 s is inconclusive (counted as read-timeout); import-side differences of models inside "
        "the guard of a recorded finding (truth values as numbers; one species with computed coefficients in two reactions) are "
        "attributed to that finding, whose witness is replayed every run",
    ]
    rng = common.rng_for(run.seed, "c08")
    scratch = common.scratch_dir("c08")
    sys.path.insert(0, str(scratch))
    try:
        _run(run, rng, scratch, thorough)
    finally:
        sys.path.remove(str(scratch))
        shutil.rmtree(scratch, ignore_errors=True)
        for p in (Path.home() / ".cache" / "mxlpy").glob(f"mb_c08_{common.os.getpid()}_*.py"):
            p.unlink(missing_ok=True)
    if not proofs_ok:
        run.note("proof obligations broken; the oracles searched the generated functions/models for a concrete failing input")


def _run(run: Run, rng, scratch: Path, thorough: bool) -> None:  # noqa: ANN001
    n_viol = 0
    known_ids = {kf.get("id") for kf in common.load_known_findings("C08")}
    dist: dict[str, int] = {}

    def bump(k: str) -> None:
        dist[k] = dist.get(k, 0) + 1

    # ---- (A) function level -----------------------------------------------------------
    n_fn = 4000 if thorough else 700
    fdefs = []
    for params, e, fl in MATH_CORPUS:
        fdefs.append({"params": params, "body": [("return", e)], "flags": fl, "name": f"f{len(fdefs)}", "args": [f"n{100 + j}" for j in range(len(params))]})
    for i in range(len(fdefs), n_fn):
        wild = rng.random() < 0.35
        fd = gen_function(rng, rng.randint(0, 3) if rng.random() < 0.9 else 4, rng.randint(1, 4), wild)
        fd["name"] = f"f{i}"
        nargs = len(fd["params"])
        if wild and rng.random() < 0.03:
            nargs = max(0, nargs + rng.choice([-1, 1]))
        fd["args"] = [f"n{100 + j}" for j in range(nargs)]
        fdefs.append(fd)
    math_cases, math_meta = [], []
    for chunk_i, chunk in enumerate(common.chunks(fdefs, 200)):
        text = MODULE_HEADER + "\n\n".join(fn_src(fd["name"], fd["params"], fd["body"]) for fd in chunk)
        mod = load_module(scratch, text)
        for fd in chunk:
            fn = getattr(mod, fd["name"])
            out = sbmlify(fn, fd["args"])
            src = fn_src(fd["name"], fd["params"], fd["body"])
            nontrivial = any(c in src for c in "+-*/<>=(")
            run.count_case(("fn", src, fd["args"]), nontrivial=nontrivial)
            bump("fn:" + ("exported" if out[0] == "ok" else out[1]))
            for fl in fd["flags"]:
                bump("fnflag:" + fl)
            bad = math_oracle(fn, fd["params"], fd["args"], out, fd["flags"]) if "global" not in fd["flags"] and "deadcode" not in fd["flags"] else None
            if bad and n_viol < 6:
                n_viol += 1
                run.violation(f"_sbmlify_fn: {bad} -- {src.strip().splitlines()[-1].strip()}",
                              {"kind": "math", "source": src, "fname": fd["name"], "params": fd["params"], "args": fd["args"], "flags": fd["flags"]})  # fmt: skip
            elif bad:
                bump("fn:more-violations")
            math_cases.append(f"({coq_fundef(fd['params'], fd['body'])}, {clist(cn(int(a[1:])) for a in fd['args'])}, {outcome_to_coq(out, KINDS)})")
            math_meta.append((src, fd["args"], out[:2] if out[0] == "err" else "ok"))
            if chunk_i == 0:
                run.sample({"function": src, "args": fd["args"], "outcome": out if out[0] == "err" else "exported"}, cap=3)

    # ---- (B) ids ----------------------------------------------------------------------
    from mxlpy.sbml._export import _convert_id_to_sbml

    alphabet = "abzAZ019_-. +*/()[]:;<>=|^'~#%"
    id_cases, id_meta = [], []
    names = ["x", "x1", "x_1", "1x", "_x", "x-1", "x.y", "x y", "class", "x__45__y", "", "-", "ATP[c]", "k+1"]
    for _ in range(300 if thorough else 120):
        names.append("".join(rng.choice(alphabet) for _ in range(rng.randint(1, 6))))
    for nm in names:
        prefix = rng.choice(["CPD", "PAR", "AR", "IA", "RXN"])
        try:
            exp = ("ok", _convert_id_to_sbml(id_=nm, prefix=prefix))
        except Exception as e:  # noqa: BLE001
            exp = ("err", common.classify_exception(e))
        run.count_case(("id", nm, prefix), nontrivial=not nm.isalnum())
        safe = bool(nm) and nm[0].isalpha() and all(c.isalnum() or c == "_" for c in nm) and nm.isascii()
        if safe and exp != ("ok", nm) and n_viol < 8:
            n_viol += 1
            run.violation(f"_convert_id_to_sbml changes a name that needs no escaping: {nm!r} -> {exp}", {"kind": "id", "name": nm, "prefix": prefix})
        e = f"(Ok {cstr(exp[1])})" if exp[0] == "ok" else f"(Err {c08_gen.ERR_COQ.get(exp[1], 'ErrOther')})"
        id_cases.append(f"({cstr(prefix)}, {cstr(nm)}, {e})")
        id_meta.append((nm, prefix, exp))

    # ---- (C) one-reaction / one-assignment documents ---------------------------------------
    rxn_cases, rxn_meta, ia_cases, ia_meta = [], [], [], []
    for i in range(400 if thorough else 80):
        spec = gen_model(rng, wild=rng.random() < 0.25, exotic=True)
        # keep numeric parameters/variables, one reaction, no derived; initial assignments separately
        ia_specs = [(nm, v["ia"]) for nm, v in spec["parameters"] + spec["variables"] if isinstance(v, dict)]
        mini = dict(spec)
        mini["parameters"] = [[nm, (1.0 if isinstance(v, dict) else v)] for nm, v in spec["parameters"]]
        mini["variables"] = [[nm, (1.0 if isinstance(v, dict) else v)] for nm, v in spec["variables"]]
        rx = spec["reactions"][0]
        known = {p[0] for p in mini["parameters"]} | {v[0] for v in mini["variables"]}
        if not set(rx[2]) <= known:
            rx = [rx[0], rx[1], [a if a in known else sorted(known)[0] for a in rx[2]], rx[3]]
        mini["derived"], mini["reactions"] = [], [rx]
        try:
            out = doc_reaction_outcome(mini, scratch, f"r{i}")
        except Exception as e:  # noqa: BLE001
            run.note(f"one-reaction document {i} could not be produced: {type(e).__name__}: {e}")
            continue
        if out[0] == "skip":
            bump("rxn-doc:skipped-" + out[1].replace(" ", "-"))
            continue
        fns = spec["fns"]
        r_coq = f"(mkRxn {coq_fundef(fns[rx[1]][0], fns[rx[1]][1])} {clist(cn(int(a[1:])) for a in rx[2])} {clist('(' + cn(int(v[1:])) + ', ' + coq_coef(c, fns) + ')' for v, c in rx[3])})"
        if out[0] == "ok":
            reactants, products, law = out[1][0]
            exp = f"(Ok (mkSRxn {clist([coq_sref('Reactant', r) for r in reactants] + [coq_sref('Product', r) for r in products])} {c08_gen.tree_to_coq(law, KINDS)}))"
        else:
            exp = f"(Err {c08_gen.ERR_COQ.get(out[1], 'ErrOther')})"
        run.count_case(("rxn", r_coq))
        bump("rxn-doc:" + ("written" if out[0] == "ok" else out[1]))
        rxn_cases.append(f"({r_coq}, {exp})")
        rxn_meta.append((rx, out[0] if out[0] == "ok" else out[:2]))
        for nm, (f, a) in ia_specs[:1]:
            one = dict(mini)
            one["parameters"] = [p for p in mini["parameters"] if p[0] != nm]
            one["variables"] = [v for v in mini["variables"] if v[0] != nm]
            target = "parameters" if nm.startswith("n2") else "variables"
            one[target] = [*one[target], [nm, {"ia": [f, a]}]]
            one["reactions"] = []  # an exception must come from the assignment, not from the reaction's rate law
            try:
                o2 = doc_reaction_outcome(one, scratch, f"i{i}")
            except Exception as e:  # noqa: BLE001
                run.note(f"one-assignment document {i} could not be produced: {type(e).__name__}: {e}")
                continue
            if o2[0] == "skip":
                bump("ia-doc:skipped-" + o2[1].replace(" ", "-"))
                continue
            if o2[0] == "ok":
                tree = o2[2].get(nm)
                exp2 = f"(Ok {c08_gen.tree_to_coq(tree, KINDS)})" if tree is not None else "(Err ErrOther)"
            else:
                exp2 = f"(Err {c08_gen.ERR_COQ.get(o2[1], 'ErrOther')})"
            run.count_case(("ia", nm, f, a, spec["module"]))
            bump("ia-doc:" + ("written" if o2[0] == "ok" else o2[1]))
            ia_cases.append(f"({coq_fundef(fns[f][0], fns[f][1])}, {clist(cn(int(x[1:])) for x in a)}, {exp2})")
            ia_meta.append((nm, f, a, o2[0] if o2[0] == "ok" else o2[:2]))

    # ---- (D) whole-model round trip (oracle) ----------------------------------------------
    n_models = 500 if thorough else 70
    for i in range(n_models):
        r = rng.random()
        spec = MODEL_CORPUS[i] if i < len(MODEL_CORPUS) else gen_model(rng, wild=r < 0.12, exotic=0.12 <= r < 0.3)
        states: list[dict[str, float] | None] = [None]
        for _ in range(2):
            states.append({v[0]: float(rng.randint(0, 4)) for v in spec["variables"]})
        kind, bad = roundtrip_oracle(spec, scratch, f"m{i}", states)
        if bad and kind in IMPORT_SIDE:
            # recorded findings (known_findings.d/C08.json), by guard: the importer cannot read truth values used as
            # numbers; computed coefficients of one species in several reactions share one reference id
            guard = "shared_ref" if "shared_ref" in spec["flags"] else "boolnum" if "boolnum" in spec["flags"] else None
            if guard is not None and GUARD_FINDING[guard] in known_ids:
                bump(f"model:known-finding-{GUARD_FINDING[guard]}")
                kind, bad = "known-finding", None
        bump("model:" + kind)
        for fl in spec["flags"]:
            bump("modelflag:" + fl)
        run.count_case(("model", spec["module"], spec["parameters"], spec["variables"], spec["derived"], spec["reactions"]), nontrivial=kind in ("ok", "args", "fluxes", "rhs"))
        if i == 0:
            run.sample({"model": {k: spec[k] for k in ("parameters", "variables", "derived", "reactions")}, "module": spec["module"], "outcome": kind}, cap=4)
        if bad and n_viol < 12:
            n_viol += 1
            run.violation(f"export+import: {bad}", {"kind": "model", "spec": {k: v for k, v in spec.items() if k != "fns"}, "states": states})
    run.coverage["input_distribution"] = dict(sorted(dist.items()))

    # ---- correspondence inside Coq -----------------------------------------------------
    hdr = "From Coq Require Import ZArith QArith List Bool String.\nImport ListNotations.\nFrom SbmlExp Require Import SbmlMath SbmlId SbmlDoc GenSbmlFacts Corr.\n"
    files: dict[str, str] = {}
    index: dict[str, tuple[str, int]] = {}
    for k, chunk in enumerate(common.chunks(math_cases, 250)):
        name = f"c08_math_{k:03d}"
        files[name] = hdr + "Definition cases : list math_case := [\n  " + ";\n  ".join(chunk) + "\n].\nEval vm_compute in math_mismatches cases.\n"
        index[name] = ("math", k * 250)
    files["c08_ids"] = hdr + "Definition cases : list id_case := [\n  " + ";\n  ".join(id_cases) + "\n].\nEval vm_compute in id_mismatches cases.\n"
    index["c08_ids"] = ("id", 0)
    if rxn_cases:
        files["c08_rxn"] = hdr + "Definition cases : list rxn_case := [\n  " + ";\n  ".join(rxn_cases) + "\n].\nEval vm_compute in rxn_mismatches cases.\n"
        index["c08_rxn"] = ("rxn", 0)
    if ia_cases:
        files["c08_ia"] = hdr + "Definition cases : list ia_case := [\n  " + ";\n  ".join(ia_cases) + "\n].\nEval vm_compute in ia_mismatches cases.\n"
        index["c08_ia"] = ("ia", 0)
    res = common.coq_eval_many(AREA, files, timeout_s=900)
    mism = 0
    metas = {"math": math_meta, "id": id_meta, "rxn": rxn_meta, "ia": ia_meta}
    for name in sorted(files):
        ok, out = res[name]
        lists = common.parse_eval_list(out) if ok else None
        if not ok or not lists:
            run.broken_correspondence.append(f"correspondence shard {name} did not evaluate: {out[-300:]}")
            continue
        what, base = index[name]
        for j in lists[-1]:
            mism += 1
            if len(run.broken_correspondence) < 6:
                run.broken_correspondence.append(f"model/implementation disagree on {what} case #{base + j}: {metas[what][base + j]}")
    total = len(math_cases) + len(id_cases) + len(rxn_cases) + len(ia_cases)
    run.coverage["traces_validated_against_impl"] = total - mism
    run.coverage["correspondence_mismatches"] = mism
    run.coverage["correspondence_cases"] = {"math": len(math_cases), "ids": len(id_cases), "reactions": len(rxn_cases), "initial_assignments": len(ia_cases)}

    # ---- known findings ---------------------------------------------------------------
    for kf in common.load_known_findings("C08"):
        if kf.get("id") == "names-needing-escaping":
            w = kf.get("witness", {}).get("name", "1x")
            bad = unsafe_name_fails(w, scratch)
            if bad:
                run.known(kf["id"], f"variable named {w!r}: {bad}")
        for fid, wspec in (("boolean-as-number-import", BOOLNUM_WITNESS), ("shared-stoichiometry-reference", SHARED_REF_WITNESS)):
            if kf.get("id") == fid:
                _kind, bad = roundtrip_oracle(wspec, scratch, "known-" + fid[:6], [None, {v[0]: 3.0 for v in wspec["variables"]}])
                if bad:
                    run.known(fid, bad)


def replay(rep: dict) -> int:
    r = rep["replay"]
    scratch = common.scratch_dir("c08replay")
    sys.path.insert(0, str(scratch))
    try:
        if r.get("kind") == "math":
            mod = load_module(scratch, MODULE_HEADER + r["source"])
            fn = getattr(mod, r["fname"])
            out = sbmlify(fn, r["args"])
            bad = math_oracle(fn, r["params"], r["args"], out, r["flags"])
            print("export:", out if out[0] == "err" else "exported", "\noracle:", bad or "property holds on this input")
            return 1 if bad else 0
        if r.get("kind") == "model":
            kind, bad = roundtrip_oracle(r["spec"], scratch, "replay", r["states"])
            print("outcome:", kind, "\noracle:", bad or "property holds on this input")
            return 1 if bad else 0
        if r.get("kind") == "id":
            from mxlpy.sbml._export import _convert_id_to_sbml

            got = _convert_id_to_sbml(id_=r["name"], prefix=r["prefix"])
            print("got:", got)
            return 1 if got != r["name"] else 0
        print("nothing to replay:", rep.get("what"))
        return 1
    finally:
        sys.path.remove(str(scratch))
        shutil.rmtree(scratch, ignore_errors=True)
