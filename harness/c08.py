"""C08 -- SBML export then import reproduces the model, or export fails.

Tie to the source:
  (1) harness/c08_extract.py regenerates coq/sbmlexp/GenSbmlFacts.v (operator/function tables, child
      order of piecewise, comparison mode, call fallback/arity/keyword handling, species reference
      created for a computed coefficient, initial-assignment setter, pinned shapes of every other
      modelled function); PropsC08.v pins them (C08_facts_pinned);
  (2) correspondence inside Coq (vm_compute): `tree_to_sbml gen_facts` vs the real `_sbmlify_fn` on
      generated single-expression functions (libSBML tree compared node by node, exceptions by
      class); `convert_id` vs `_convert_id_to_sbml`; `export_reaction` / `export_initial_assignment`
      vs what `sbml.write` put into the document for one-reaction / one-assignment models;
  (3) independent oracles on the implementation: (a) the exported MathML of every function is
      evaluated by a small SBML-L3 evaluator (harness/c08_gen.py::eval_mathml) at integer points and
      compared with calling the Python function; (b) whole models are written, read back with
      mxlpy.sbml.read (pysbml) and compared by name: kinds, initial values, parameter and derived
      values, fluxes and derivatives at three integer states; (c) a model built only from constructs
      the property names must not be refused.
"""

from __future__ import annotations

import importlib.util
import math
import shutil
import signal
import sys
from fractions import Fraction
from pathlib import Path
from typing import Any

from harness import c08_extract, c08_gen, common
from harness.c08_gen import MODULE_HEADER, MODULE_HEADER2, ast_to_tree, coq_fundef, eval_mathml, fn_src, gen_core_expr, gen_expr, gen_function, outcome_to_coq
from harness.common import Run, clist, cn, cq, cstr

AREA = "sbmlexp"
PROPS = "PropsC08.v"
KINDS = c08_extract.KINDS


def gen() -> dict:
    f = c08_extract.extract()
    imp = c08_extract.extract_import()
    common.write_if_changed(common.area_dir(AREA) / "GenSbmlFacts.v", c08_extract.to_coq(f, imp))
    return {**{k: v for k, v in f.items() if k != "variants"}, "import": imp}


# ---------------------------------------------------------------------------------------
# plumbing
# ---------------------------------------------------------------------------------------


class _Timeout(Exception):
    pass


def _alarm(signum, frame):  # noqa: ANN001, ARG001
    raise _Timeout


def guarded(fn, *a, timeout: float = 20.0, **kw):  # noqa: ANN001, ANN002, ANN003
    signal.signal(signal.SIGALRM, _alarm)
    signal.setitimer(signal.ITIMER_REAL, timeout)
    try:
        return fn(*a, **kw)
    finally:
        signal.setitimer(signal.ITIMER_REAL, 0)


_MOD_COUNTER = [0]


def load_module(scratch: Path, text: str) -> Any:
    _MOD_COUNTER[0] += 1
    name = f"c08fns_{common.os.getpid()}_{_MOD_COUNTER[0]}"
    path = scratch / f"{name}.py"
    path.write_text(text)
    spec = importlib.util.spec_from_file_location(name, path)
    mod = importlib.util.module_from_spec(spec)
    sys.modules[name] = mod
    spec.loader.exec_module(mod)
    return mod


def sbmlify(fn, args: list[str]) -> tuple:  # noqa: ANN001
    from mxlpy.sbml._export import _sbmlify_fn

    import libsbml

    try:
        node = guarded(_sbmlify_fn, fn, list(args), timeout=5.0)
        # out[1]: the tree the exporter built (compared with the Coq model); out[2]: the same tree after libSBML wrote
        # it as MathML and read it back (what a file contains; judged by the oracle); out[3]: libSBML's own verdict
        back = libsbml.readMathMLFromString(libsbml.writeMathMLToString(node))
        return ("ok", ast_to_tree(node), ast_to_tree(back) if back is not None else None, bool(node.isWellFormedASTNode()))
    except _Timeout:
        return ("err", "ErrOther:Timeout", "timeout")
    except Exception as e:  # noqa: BLE001
        return ("err", common.classify_exception(e), str(e)[:120])


def py_value(fn, vals: list[float]) -> float | None:  # noqa: ANN001
    """Value of the Python function, None where it has no finite real value."""
    import warnings

    import numpy as np

    try:
        # a NumPy function outside its domain yields NaN (which `<`, `==` then swallow): no real value there
        with warnings.catch_warnings(), np.errstate(invalid="raise", divide="raise", over="raise"):
            warnings.simplefilter("ignore")
            v = fn(*vals)
        if isinstance(v, complex):
            return None
        v = float(v)
    except Exception:  # noqa: BLE001
        return None
    return v if math.isfinite(v) else None


def close(a: float, b: float) -> bool:
    return a == b or abs(a - b) <= 1e-9 * max(1.0, abs(a), abs(b))


POINTS = [[2.0, 1.0, 3.0, 0.0], [0.0, 3.0, 1.0, 2.0], [1.0, 1.0, 2.0, 4.0], [3.0, 2.0, 0.0, 1.0], [4.0, 0.0, 1.0, 1.0]]


def math_oracle(fn, params: list[str], args: list[str], out: tuple, flags: list[str]) -> str | None:  # noqa: ANN001
    """Judges the property on one exported function: refusal only where allowed; same value at integer points."""
    if out[0] == "err":
        if "mayrefuse" in flags or len(params) != len(args):
            return None
        return f"export refuses a representable function: {out[1]} {out[2]}"
    if len(params) != len(args):
        return "export accepted a function whose parameter count differs from the model arguments"
    if not out[3] or out[2] is None:
        return "the exported node is not a well-formed libSBML AST: setMath rejects it silently / its MathML is written without the operands"
    names = list(dict.fromkeys(args))  # the model names, in order of first use: each has ONE value per point
    for pt in POINTS:
        env = {nm: pt[i % len(pt)] + (i // len(pt)) for i, nm in enumerate(names)}
        vals = [env[a] for a in args]  # the function is called with the values of the names it is bound to
        pv = py_value(fn, vals)
        if pv is None:
            continue
        try:
            mv = eval_mathml(out[2], env)
        except c08_gen.Undefined as e:
            return f"exported MathML has no value at {env} ({e}) where the function called with {dict(zip(params, vals))} returns {pv}"
        if not close(pv, float(mv)):
            return f"exported MathML evaluates to {mv} at {env}, the function called with {dict(zip(params, vals))} returns {pv}"
    return None


# ---------------------------------------------------------------------------------------
# models (document level)
# ---------------------------------------------------------------------------------------


def gen_model(rng, wild: bool, exotic: bool = False) -> dict:
    fns: list[tuple[str, list[str], list[tuple]]] = []
    flags: set[str] = set()

    def newfn(avail: list[str], depth: int, nmax: int = 3, w: bool = False) -> tuple[str, list[str]]:
        k = rng.randint(0 if rng.random() < 0.1 else 1, min(nmax, len(avail)))
        args = rng.sample(avail, k)
        params = [f"p{i}" for i in range(k)]
        fl: set[str] = set()
        if w or (exotic and rng.random() < 0.5):
            # the full expression grammar: truth values used as numbers and numbers as conditions included
            e = gen_expr(rng, params, depth, w, fl)
            if c08_gen.mixes_bool_num(e):
                fl.add("boolnum")
        else:
            e = gen_core_expr(rng, params, depth, fl)
        flags.update(fl)
        name = f"f{len(fns)}"
        if k >= 1 and rng.random() < 0.3:
            # the function's OWN parameter names are model names bound in another position (the same law reused with the
            # species swapped / rotated, a chain f(a, b) bound to [b, c]) or one name is bound twice
            bound = c08_gen.own_name_binding(rng, avail, k)
            if bound is not None:
                e = c08_gen.subst_names(e, dict(zip(params, bound[0])))
                params, args = list(bound[0]), list(bound[1])
                flags.add("ownnames")
                flags.add("ownnames:" + bound[2])
        body = ([("doc",)] if rng.random() < 0.1 else []) + [("return", e)]
        fns.append((name, params, body))
        return name, args

    def numval():
        return rng.choice([0, 1, 2, 3, 4, 0.5, 1.5, 2.5, 0.25])

    n_par, n_var = rng.randint(1, 3), rng.randint(1, 3)
    pars, plain = [], []
    for i in range(n_par):
        nm = f"n{200 + i}"
        if plain and rng.random() < 0.2:
            flags.add("initial_assignment")
            pars.append([nm, {"ia": list(newfn(plain, 1))}])
        else:
            pars.append([nm, numval()])
            plain.append(nm)
    vars_ = []
    for i in range(n_var):
        nm = f"n{100 + i}"
        if rng.random() < 0.15:
            flags.add("initial_assignment")
            vars_.append([nm, {"ia": list(newfn(plain, 1))}])
        else:
            vars_.append([nm, numval()])
    avail = [p[0] for p in pars] + [v[0] for v in vars_]
    derived = []
    for i in range(rng.randint(0, 2)):
        nm = f"n{300 + i}"
        f, a = newfn(avail, 2, w=wild and rng.random() < 0.3)
        derived.append([nm, f, a])
        avail.append(nm)
    rxns = []
    computed_for: set[str] = set()
    for i in range(rng.randint(1, 3)):
        nm = f"n{400 + i}"
        f, a = newfn(avail, 2, w=wild and rng.random() < 0.4)
        st = []
        for v in rng.sample([v[0] for v in vars_], rng.randint(1, n_var)):
            r = rng.random()
            if r >= 0.65 and v in computed_for and rng.random() < 0.9:
                r = rng.random() * 0.65  # recorded finding shared-stoichiometry-reference: keep it rare
            if r < 0.4:
                c = rng.choice([-3, -2, -1, 1, 2, 3])
            elif r < 0.65:
                flags.add("fractional_stoichiometry")
                c = rng.choice([-2.5, -1.5, -0.5, 0.5, 1.5, 0.25])
            else:
                flags.add("computed_stoichiometry")
                if v in computed_for:
                    flags.add("shared_ref")
                computed_for.add(v)
                k = rng.randint(0, min(1, len(plain)))
                cargs = rng.sample(plain, k)
                base: tuple = ("real", Fraction(rng.choice([1, 2, 3, 5]), 2)) if k == 0 else ("bin", "Mult", ("name", "p0"), ("real", Fraction(rng.choice([1, 3]), 2)))
                e = base if rng.random() < 0.5 else ("un", "USub", base)
                fname = f"f{len(fns)}"
                fns.append((fname, [f"p{j}" for j in range(k)], [("return", e)]))
                c = {"derived": [fname, cargs]}
            st.append([v, c])
        rxns.append([nm, f, a, st])
    module = MODULE_HEADER + "\n\n".join(fn_src(n, p, b) for n, p, b in fns)
    return {"module": module, "parameters": pars, "variables": vars_, "derived": derived, "reactions": rxns,
            "flags": sorted(flags), "fns": {n: [p, b] for n, p, b in fns}}  # fmt: skip


def build_model(spec: dict, scratch: Path):
    from mxlpy import Derived, InitialAssignment, Model

    mod = load_module(scratch, spec["module"])
    m = Model()
    for nm, v in spec["parameters"]:
        m.add_parameter(nm, InitialAssignment(fn=getattr(mod, v["ia"][0]), args=list(v["ia"][1])) if isinstance(v, dict) else v)
    for nm, v in spec["variables"]:
        m.add_variable(nm, InitialAssignment(fn=getattr(mod, v["ia"][0]), args=list(v["ia"][1])) if isinstance(v, dict) else v)
    for nm, f, a in spec["derived"]:
        m.add_derived(nm, fn=getattr(mod, f), args=list(a))
    for nm, f, a, st in spec["reactions"]:
        sto = {v: (Derived(fn=getattr(mod, c["derived"][0]), args=list(c["derived"][1])) if isinstance(c, dict) else c) for v, c in st}
        m.add_reaction(nm, fn=getattr(mod, f), args=list(a), stoichiometry=sto)
    return m


def _series(fn, *a, strict: bool = True, **kw) -> dict[str, float] | None:  # noqa: ANN001, ANN002, ANN003
    import warnings

    import numpy as np

    try:
        # NumPy functions outside their domain must not pass as values (NaN is swallowed by comparisons)
        with warnings.catch_warnings(), np.errstate(**({"invalid": "raise", "divide": "raise", "over": "raise"} if strict else {})):
            warnings.simplefilter("ignore")
            s = fn(*a, **kw)
        return {str(k): float(v) for k, v in dict(s).items()}
    except Exception:  # noqa: BLE001
        return None


def observe(m, state: dict[str, float] | None, strict: bool = True) -> dict | None:  # noqa: ANN001
    """Everything the property compares, at one state (None = the initial one).  strict: NumPy domain errors of the
    ORIGINAL model raise (no value there); the re-imported model is evaluated as it is."""
    if state is None:
        ic = _series(m.get_initial_conditions, strict=strict)
        if ic is None:
            return None
        state = ic
    args = _series(m.get_args, dict(state), time=0.0, strict=strict)
    flux = _series(m.get_fluxes, dict(state), time=0.0, strict=strict)
    rhs = _series(m.get_right_hand_side, dict(state), time=0.0, strict=strict)
    if args is None or flux is None or rhs is None:
        return None
    return {"state": state, "args": args, "fluxes": flux, "rhs": rhs}


READ_TIMEOUT = [20.0]  # seconds per sbml.read; the quick tier uses 12 (a timeout is inconclusive, never an alarm)


def read_model(f: Path, forget: bool = True):
    """sbml.read under the time limit -> (model, kind, bad).  forget=True removes what the import left behind in the session
    (generated module file, sys.modules entry): single round trips are independent of each other; session sequences
    (`session_oracle`) keep that state on purpose."""
    import warnings

    from mxlpy import sbml
    from mxlpy.sbml._import import valid_filename

    mod_name = valid_filename(f.stem)
    cache_py = Path.home() / ".cache" / "mxlpy" / f"{mod_name}.py"
    try:
        with warnings.catch_warnings():
            warnings.simplefilter("ignore")  # SymPy deprecation notices from pysbml
            return guarded(sbml.read, f, timeout=READ_TIMEOUT[0]), "ok", None
    except _Timeout:
        # pysbml/SymPy simplification of a deeply nested conditional can take minutes: inconclusive, counted, not judged
        return None, "read-timeout", None
    except RecursionError:
        # SymPy's recursive simplification of a deeply nested conditional hits the interpreter's recursion limit, depending
        # on how deep the caller's own stack is: a limit of the external importer, inconclusive like the timeout
        return None, "read-recursion-limit", None
    except Exception as e:  # noqa: BLE001
        return None, "unreadable", f"sbml.write wrote a file that sbml.read cannot import: {type(e).__name__}: {str(e)[:150]}"
    finally:
        if forget:
            cache_py.unlink(missing_ok=True)
            sys.modules.pop(mod_name, None)


def compare_models(m, m2, states: list[dict[str, float] | None]) -> tuple[str, str | None]:  # noqa: ANN001
    """The property's comparison of an original model and what came back: every component under its name and kind, initial
    values, and values / fluxes / derivatives at every state."""
    ids1, ids2 = dict(m.ids), dict(m2.ids)
    for nm, kind in ids1.items():
        if nm not in ids2:
            return "name-lost", f"component {nm!r} ({kind}) of the original is missing after export+import (has {sorted(ids2)})"
        if ids2[nm] != kind:
            return "kind-changed", f"component {nm!r} is a {kind} in the original and a {ids2[nm]} after export+import"
    n_cmp = 0
    for st in states:
        o1 = observe(m, st)
        if o1 is None or not all(math.isfinite(v) for d in ("args", "fluxes", "rhs") for v in o1[d].values()):
            continue
        st_used = o1["state"]
        o2 = observe(m2, None if st is None else {**{k: v for k, v in (observe(m2, None, strict=False) or {"state": {}})["state"].items()}, **st_used}, strict=False)
        if o2 is None:
            return "rt-not-evaluable", f"the re-imported model cannot be evaluated at {st_used} (the original can)"
        if st is None:
            for k, v in o1["state"].items():
                if not close(v, o2["state"].get(k, math.nan)):
                    return "initial-value", f"initial value of {k}: original {v}, after export+import {o2['state'].get(k)}"
        for what in ("args", "fluxes", "rhs"):
            for k, v in o1[what].items():
                if k in ("time",):
                    continue
                w = o2[what].get(k, math.nan)
                if not close(v, w):
                    label = {"args": "value", "fluxes": "flux", "rhs": "derivative"}[what]
                    return what, f"{label} of {k} at state {st_used}: original {v}, after export+import {w}"
        n_cmp += 1
    return ("ok" if n_cmp else "no-comparable-state"), None


def roundtrip_oracle(spec: dict, scratch: Path, tag: str, states: list[dict[str, float] | None], file: Path | None = None,
                     forget: bool = True) -> tuple[str, str | None]:  # fmt: skip
    """-> (outcome kind, description of the violation or None)"""
    from mxlpy import sbml

    try:
        m = build_model(spec, scratch)
    except Exception as e:  # noqa: BLE001
        return "unbuildable", None if "mayrefuse" in spec["flags"] else f"harness could not build the model: {type(e).__name__}: {e}"
    if observe(m, None) is None:
        return "original-not-evaluable", None
    f = file if file is not None else scratch / f"c08_{common.os.getpid()}_{tag}.xml"
    try:
        guarded(sbml.write, m, f)
    except _Timeout:
        return "write-timeout", "sbml.write did not return within 20 s"
    except Exception as e:  # noqa: BLE001
        if "mayrefuse" in spec["flags"]:
            return "refused", None
        return "refused-representable", f"sbml.write refuses a model made of representable constructs {spec['flags']}: {type(e).__name__}: {str(e)[:150]}"
    m2, kind, bad = read_model(f, forget=forget)
    if m2 is None:
        return kind, bad
    return compare_models(m, m2, states)


# ---------------------------------------------------------------------------------------
# sessions: several round trips in ONE interpreter session ("writing ANY model ... and reading the file back": every one)
# ---------------------------------------------------------------------------------------


def _edit_spec(rng, spec: dict) -> dict:  # noqa: ANN001
    """The model after an edit: numeric parameter / initial values changed (same number of digits: the generated module
    keeps its size), sometimes a reaction dropped or duplicated under a new name."""
    import copy

    out = copy.deepcopy(spec)
    swap = {0: 4, 1: 3, 2: 1, 3: 2, 4: 0, 0.5: 2.5, 1.5: 0.5, 2.5: 1.5, 0.25: 0.75, 0.75: 0.25}
    for group in ("parameters", "variables"):
        for ent in out[group]:
            if not isinstance(ent[1], dict) and rng.random() < 0.8:
                ent[1] = swap.get(ent[1], 1.5)
    r = rng.random()
    if r < 0.3 and len(out["reactions"]) > 1:
        out["reactions"].pop(rng.randrange(len(out["reactions"])))
    elif r < 0.6:
        src = out["reactions"][rng.randrange(len(out["reactions"]))]
        if not any(isinstance(c, dict) for _v, c in src[3]):  # no second computed coefficient for a species (recorded finding)
            out["reactions"].append([f"n{450 + len(out['reactions'])}", src[1], list(src[2]), [[v, (-c if rng.random() < 0.5 else c)] for v, c in src[3]]])
    return out


def gen_session(rng, k: int) -> list[dict]:  # noqa: ANN001
    """Steps {"spec", "dir", "stem", "how"}: the first export, then edits exported over the SAME path, models exported
    under the same file name in ANOTHER directory, and stems that differ only in case / separators."""

    def fresh() -> dict:
        while True:
            sp = gen_model(rng, wild=False)
            if "shared_ref" not in sp["flags"] and "boolnum" not in sp["flags"]:
                return sp

    stem = f"c08_{common.os.getpid()}_s{k}"
    steps = [{"spec": fresh(), "dir": "a", "stem": stem, "how": "first export"}]
    for _ in range(rng.randint(2, 3)):
        prev = steps[-1]
        r = rng.random()
        if r < 0.45:
            steps.append({"spec": _edit_spec(rng, prev["spec"]), "dir": prev["dir"], "stem": prev["stem"], "how": "edited model exported over the same file"})
        elif r < 0.6:
            steps.append({"spec": fresh(), "dir": prev["dir"], "stem": prev["stem"], "how": "another model exported over the same file"})
        elif r < 0.85:
            steps.append({"spec": fresh() if rng.random() < 0.5 else _edit_spec(rng, prev["spec"]), "dir": rng.choice([d for d in "abc" if d != prev["dir"]]),
                          "stem": prev["stem"], "how": "same file name in another directory"})  # fmt: skip
        else:
            steps.append({"spec": fresh(), "dir": prev["dir"], "stem": rng.choice([stem.upper(), stem.replace("_", "-"), stem.replace("_", " ")]),
                          "how": "file name that differs only in case / separators"})  # fmt: skip
    return steps


def _sess_model(kf: float, extra: bool = False, s0: float = 2.0) -> dict:
    rx = [["n400", "f0", ["n100", "n200"], [["n100", -1], ["n101", 1]]]]
    pars = [["n200", kf]]
    if extra:
        pars.append(["n201", 0.125])
        rx.append(["n401", "f0", ["n101", "n201"], [["n101", -1], ["n100", 1]]])
    return {"module": MODULE_HEADER + "def f0(p0, p1):\n    return p0 * p1\n", "parameters": pars, "variables": [["n100", s0], ["n101", 0.5]],
            "derived": [], "reactions": rx, "flags": [], "fns": {}}  # fmt: skip


def _sess(stem: str, *steps: tuple) -> list[dict]:
    return [{"spec": sp, "dir": d, "stem": stem if st is None else st, "how": how} for sp, d, st, how in steps]


def session_corpus() -> list[list[dict]]:
    """Minimal sessions: a value edited in place (the generated module keeps its size and is rewritten within the same
    second), a component added, another directory, a stem that maps to the same generated module name.  Stems carry the
    process id: the importer writes its generated module to ~/.cache/mxlpy/mb_<stem>.py, shared by concurrent runs."""
    pid = common.os.getpid()
    same = "edited model exported over the same file"
    return [
        _sess(f"c08_{pid}_sess0", (_sess_model(0.5), "a", None, "first export"), (_sess_model(4.0), "a", None, same),
              (_sess_model(0.5), "a", None, same), (_sess_model(2.5), "a", None, same), (_sess_model(1.5), "a", None, same)),
        _sess(f"c08_{pid}_sess1", (_sess_model(0.5), "a", None, "first export"), (_sess_model(4.0, extra=True), "a", None, same),
              (_sess_model(0.25, s0=7.0), "b", None, "same file name in another directory"),
              (_sess_model(3.0, extra=True), "b", f"C08-{pid}-Sess1", "file name that differs only in case / separators")),
    ]  # fmt: skip


STALE_FINDING = "stale-bytecode-on-reimport"
KNOWN_SEEN: list[tuple[str, str]] = []


def run_default_settings(sessions: list[list[dict]], scratch: Path, timeout: float = 240.0, traces: list | None = None, want_traces: bool = False):  # noqa: ANN201
    """harness/c08_session.py in a subprocess -> [[kind, bad, at, ...], ...] (one entry per session) [, traces]."""
    import json
    import subprocess

    inp = scratch / f"c08_sessions_{common.os.getpid()}.json"
    inp.write_text(json.dumps({"sessions": sessions, "traces": traces or []}))
    sub = scratch / f"default_{common.os.getpid()}"
    env = {k: v for k, v in common.os.environ.items() if k not in ("PYTHONDONTWRITEBYTECODE", "PYTHONPYCACHEPREFIX")}
    env["PYTHONDONTWRITEBYTECODE"] = "1"  # while the libraries are imported; the driver switches it off afterwards
    try:
        p = subprocess.run([sys.executable, "-m", "harness.c08_session", str(inp), str(sub)], cwd=str(common.VERIF), env=env,
                           capture_output=True, text=True, timeout=timeout, check=False)  # fmt: skip
        for line in p.stdout.splitlines():
            if line.startswith("C08SESSION "):
                res = json.loads(line[len("C08SESSION "):])
                return (res["results"], res.get("traces", [])) if want_traces else res["results"]
        err = [["driver-error", None, -1, (p.stderr or p.stdout)[-300:]]]
        return (err, []) if want_traces else err
    except subprocess.TimeoutExpired:
        err = [["driver-error", None, -1, "timeout"]]
        return (err, []) if want_traces else err
    finally:
        shutil.rmtree(sub, ignore_errors=True)
        inp.unlink(missing_ok=True)


def session_oracle(steps: list[dict], scratch: Path, tag: str) -> tuple[str, str | None, int]:
    """Runs the steps in THIS interpreter session without forgetting anything between them; every read must return the model
    that is in the file it was given.  -> (kind, violation or None, index of the failing step)"""
    from mxlpy.sbml._import import valid_filename

    root = scratch / f"sess_{common.os.getpid()}_{tag}"
    left: set[str] = set()
    try:
        for i, st in enumerate(steps):
            d = root / st["dir"]
            d.mkdir(parents=True, exist_ok=True)
            f = d / f"{st['stem']}.xml"
            left.add(valid_filename(f.stem))
            states: list[dict[str, float] | None] = [None, {v[0]: float(1 + (j + i) % 4) for j, v in enumerate(st["spec"]["variables"])}]
            kind, bad = roundtrip_oracle(st["spec"], scratch, f"{tag}_{i}", states, file=f, forget=False)
            if kind in ("read-timeout", "read-recursion-limit", "write-timeout", "original-not-evaluable", "unbuildable", "refused"):
                return "inconclusive-" + kind, None, i
            if bad:
                if i == 0:
                    return kind, bad, 0  # an ordinary single round trip failing: not a matter of the session
                return "session-" + kind, f"round trip #{i + 1} of one session ({st['how']}: {st['dir']}/{st['stem']}.xml): {bad}", i
        return "ok", None, -1
    finally:
        shutil.rmtree(root, ignore_errors=True)
        for mod_name in left:
            (Path.home() / ".cache" / "mxlpy" / f"{mod_name}.py").unlink(missing_ok=True)
            sys.modules.pop(mod_name, None)


# ---------------------------------------------------------------------------------------
# one-reaction / one-assignment documents for the Coq correspondence of SbmlDoc
# ---------------------------------------------------------------------------------------


def coq_coef(c, fns: dict) -> str:  # noqa: ANN001
    if isinstance(c, dict):
        f, a = c["derived"]
        return f"(CDyn {coq_fundef(fns[f][0], fns[f][1])} {clist(cn(int(x[1:])) for x in a)})"
    return f"(CNum {cq(Fraction(*float(c).as_integer_ratio()))})"


def doc_reaction_outcome(spec: dict, scratch: Path, tag: str) -> tuple:
    """Writes the model through the public `sbml.write`; returns ("ok", [(reactants, products, law)], ias) taken from the
    libSBML document the exporter built (captured at libsbml.writeSBMLToFile: reading the XML back would normalise node
    types, e.g. AST_POWER -> AST_FUNCTION_POWER), ("err", class, msg) when the exporter raises, or ("skip", why) when the
    model cannot be evaluated at its initial state (Model._create_cache raises inside write: outside the Coq model)."""
    import libsbml
    from mxlpy import sbml

    m = build_model(spec, scratch)
    if observe(m, None) is None:
        return ("skip", "not evaluable at the initial state")
    f = scratch / f"c08d_{common.os.getpid()}_{tag}.xml"
    captured: list = []
    orig = libsbml.writeSBMLToFile

    def capture(doc, path):  # noqa: ANN001
        captured.append(doc)
        return orig(doc, path)

    libsbml.writeSBMLToFile = capture
    try:
        guarded(sbml.write, m, f)
    except Exception as e:  # noqa: BLE001
        return ("err", common.classify_exception(e), str(e)[:100])
    finally:
        libsbml.writeSBMLToFile = orig
        f.unlink(missing_ok=True)
    if len(captured) != 1:
        return ("err", "ErrOther:NoDocument", "sbml.write did not hand a document to libsbml.writeSBMLToFile")
    sm = captured[0].getModel()
    rules = {sm.getRule(i).getVariable(): sm.getRule(i).getMath() for i in range(sm.getNumRules())}
    out = []
    for nm, _f, _a, _st in spec["reactions"]:
        rx = sm.getReaction(nm)
        groups = []
        for getn, get in ((rx.getNumReactants, rx.getReactant), (rx.getNumProducts, rx.getProduct)):
            refs = []
            for i in range(getn()):
                sr = get(i)
                rule = rules.get(sr.getId()) if sr.isSetId() else None
                refs.append((sr.getSpecies(), sr.getStoichiometry() if sr.isSetStoichiometry() else None, ast_to_tree(rule) if rule is not None else None))
            groups.append(refs)
        out.append((groups[0], groups[1], ast_to_tree(rx.getKineticLaw().getMath())))
    ias = {}
    for i in range(sm.getNumInitialAssignments()):
        ia = sm.getInitialAssignment(i)
        ias[ia.getSymbol()] = ast_to_tree(ia.getMath())
    return ("ok", out, ias)


def coq_sref(role: str, ref: tuple) -> str:
    sp, st, rule = ref
    s = "None" if st is None else f"(Some {cq(Fraction(*float(st).as_integer_ratio()))})"
    r = "None" if rule is None else f"(Some {c08_gen.tree_to_coq(rule, KINDS)})"
    return f"(mkSref {role} {cn(int(sp[1:]))} {s} {r})"


UNSAFE_NAMES = ["1k", "x-1", "d.1", "v 1", "9y", "a+b", "k[c]", "_z", "x__45__y", "2*k", "ATP[c]", "x:y"]
SAFE_NAMES = ["kcat", "X1", "y_2", "Vmax", "s", "glc_ext"]
NAME_MODULE = MODULE_HEADER + "def f0(p0, p1):\n    return p0 * p1\n\ndef d0(p0):\n    return p0 + 1\n\ndef i0(p0):\n    return p0 * 3\n\ndef c0(p0):\n    return -p0\n"


def expected_math_names() -> str:
    """The value coq/sbmlexp/ExpectedFacts.v expects for the fact math_names (tools/c08_switch.py flips it together with
    the `fix:` commit): decides whether dangling identifiers of names that need escaping are the recorded finding."""
    import re

    m = re.search(r"Definition C08_expected_math_names : math_names := (\w+)\.", (common.area_dir(AREA) / "ExpectedFacts.v").read_text())
    return m.group(1) if m else "MathNamesUnknown"


def gen_name_doc(rng) -> dict:  # noqa: ANN001
    """parameter P, variables V and W, derived D(V), reaction R = f0(D, P) with V: -1 and (sometimes) a computed coefficient
    c0(P) for W; W sometimes starts from an initial assignment i0(P); names mostly need escaping."""
    unsafe = rng.random() < 0.8
    pool = list(UNSAFE_NAMES if unsafe else SAFE_NAMES)
    extra = list(SAFE_NAMES)
    rng.shuffle(pool)
    rng.shuffle(extra)
    names = [(pool.pop() if (unsafe and rng.random() < 0.7) or not unsafe else extra.pop()) for _ in range(5)]
    return {"P": names[0], "V": names[1], "W": names[2], "D": names[3], "R": names[4], "ia": rng.random() < 0.5, "computed": rng.random() < 0.6}


def build_name_doc(nd: dict, scratch: Path):  # noqa: ANN201
    from mxlpy import Derived, InitialAssignment, Model

    mod = load_module(scratch, NAME_MODULE)
    m = Model().add_parameter(nd["P"], 2.0).add_variable(nd["V"], 1.5)
    m.add_variable(nd["W"], InitialAssignment(fn=mod.i0, args=[nd["P"]]) if nd["ia"] else 0.5)
    m.add_derived(nd["D"], fn=mod.d0, args=[nd["V"]])
    sto = {nd["V"]: -1, nd["W"]: Derived(fn=mod.c0, args=[nd["P"]]) if nd["computed"] else 2}
    m.add_reaction(nd["R"], fn=mod.f0, args=[nd["D"], nd["P"]], stoichiometry=sto)
    return m


def _ci(node) -> list[str]:  # noqa: ANN001
    t = ast_to_tree(node)
    out: list[str] = []

    def walk(x: tuple) -> None:
        if x[0] == "name":
            out.append(x[1])
        elif x[0] == "app":
            for c in x[2]:
                walk(c)

    walk(t)
    return out


def name_doc_observed(nd: dict, scratch: Path, tag: str) -> tuple:
    """-> ("ok", [(refkind, prefix, name, what the document contains)], dangling) from the document sbml.write builds.
    dangling (independent of the Coq model): identifiers used somewhere in the document that nothing declares."""
    import libsbml
    from mxlpy import sbml

    m = build_name_doc(nd, scratch)
    f = scratch / f"c08n_{common.os.getpid()}_{tag}.xml"
    captured: list = []
    orig = libsbml.writeSBMLToFile

    def capture(doc, path):  # noqa: ANN001
        captured.append(doc)
        return orig(doc, path)

    libsbml.writeSBMLToFile = capture
    try:
        guarded(sbml.write, m, f)
    except Exception as e:  # noqa: BLE001
        return ("err", common.classify_exception(e), str(e)[:100])
    finally:
        libsbml.writeSBMLToFile = orig
    if len(captured) != 1:
        return ("err", "ErrOther:NoDocument", "")
    sm = captured[0].getModel()
    species = [sm.getSpecies(i).getId() for i in range(sm.getNumSpecies())]
    params = [sm.getParameter(i).getId() for i in range(sm.getNumParameters())]
    rules = {sm.getRule(i).getVariable(): sm.getRule(i) for i in range(sm.getNumRules())}
    rxn = sm.getReaction(0)
    obs: list[tuple] = [
        ("RDeclared", "PAR", nd["P"], params[0]), ("RDeclared", "CPD", nd["V"], species[0]), ("RDeclared", "CPD", nd["W"], species[1]),
        ("RDeclared", "RXN", nd["R"], rxn.getId()),
    ]  # fmt: skip
    law = _ci(rxn.getKineticLaw().getMath()) if rxn.getKineticLaw().isSetMath() else []
    if len(law) == 2:
        obs += [("RMath", "AR", nd["D"], law[0]), ("RMath", "PAR", nd["P"], law[1])]
    used = set(law)
    rule_vars = list(rules)
    # the derived quantity: rule variable and its math
    d_rule = [v for v in rule_vars if "ref" not in v or nd["D"].endswith("ref")]
    if d_rule:
        obs.append(("RRuleVariable", "AR", nd["D"], d_rule[0]))
        ci = _ci(rules[d_rule[0]].getMath()) if rules[d_rule[0]].isSetMath() else []
        used |= set(ci)
        if len(ci) == 1:
            obs.append(("RMath", "CPD", nd["V"], ci[0]))
    symbols = []
    for i in range(sm.getNumInitialAssignments()):
        ia = sm.getInitialAssignment(i)
        symbols.append(ia.getSymbol())
        obs.append(("RIaSymbol", "CPD", nd["W"], ia.getSymbol()))
        ci = _ci(ia.getMath()) if ia.isSetMath() else []
        used |= set(ci)
        if len(ci) == 1:
            obs.append(("RMath", "PAR", nd["P"], ci[0]))
    sref_ids = []
    for getn, get in ((rxn.getNumReactants, rxn.getReactant), (rxn.getNumProducts, rxn.getProduct)):
        for i in range(getn()):
            if get(i).isSetId():
                sref_ids.append(get(i).getId())
    if nd["computed"]:
        ref = nd["W"] + "ref"
        if len(sref_ids) == 1:
            obs.append(("RSrefId", "AR", ref, sref_ids[0]))
        c_rule = [v for v in rule_vars if v not in d_rule[:1]]
        if len(c_rule) == 1:
            obs.append(("RRuleVariable", "AR", ref, c_rule[0]))
            ci = _ci(rules[c_rule[0]].getMath()) if rules[c_rule[0]].isSetMath() else []
            used |= set(ci)
            if len(ci) == 1:
                obs.append(("RMath", "PAR", nd["P"], ci[0]))
    declared = set(species) | set(params) | set(rule_vars) | {rxn.getId(), "time", "compartment"}
    dangling = sorted(used - declared) + sorted(f"initial assignment of {x}" for x in symbols if x not in set(species) | set(params))
    dangling += sorted(f"species reference {x} has no rule" for x in sref_ids if x not in rules)
    return ("ok", obs, dangling, f)


def positional_roundtrip(nd: dict, scratch: Path, f: Path) -> str | None:
    """Names that need escaping come back under another name (recorded finding): compare BY POSITION -- k-th variable with
    k-th variable, the reaction's flux, initial values -- at the initial state and one more."""
    m = build_name_doc(nd, scratch)
    m2, kind, bad = read_model(f)
    if m2 is None:
        return bad if kind != "read-timeout" else None
    v1, v2 = list(m.get_variable_names()), list(m2.get_variable_names())
    if len(v1) != len(v2):
        return f"variables {v1} come back as {v2}"
    for state in (None, {v1[0]: 3.0, v1[1]: 0.25}):
        try:
            s1 = dict(m.get_initial_conditions()) if state is None else state
            s2 = dict(m2.get_initial_conditions()) if state is None else {b: state[a] for a, b in zip(v1, v2)}
            if state is None and not all(close(float(s1[a]), float(s2[b])) for a, b in zip(v1, v2)):
                return f"initial values {s1} come back as {s2}"
            r1, r2 = m.get_right_hand_side(s1, time=0.0), m2.get_right_hand_side(s2, time=0.0)
            fl1, fl2 = list(m.get_fluxes(s1, time=0.0)), list(m2.get_fluxes(s2, time=0.0))
        except Exception as e:  # noqa: BLE001
            return f"the re-imported model cannot be evaluated: {type(e).__name__}: {str(e)[:150]}"
        if not all(close(float(r1[a]), float(r2[b])) for a, b in zip(v1, v2)):
            return f"derivatives {dict(r1)} come back as {dict(r2)} (state {s1})"
        if len(fl1) != len(fl2) or not all(close(float(a), float(b)) for a, b in zip(fl1, fl2)):
            return f"fluxes {fl1} come back as {fl2} (state {s1})"
    return None


import re as _re

SID_RE = _re.compile(r"[A-Za-z_][A-Za-z0-9_]*")
# non-ASCII characters for the id stream: letters (Greek, Latin-1, Cyrillic), a compatibility letter (MICRO SIGN), digits of
# other scripts, a superscript digit (a `\w` character that is neither a letter nor legal in an identifier)
UNICODE_CHARS = "\u03b1\u03b2\u0394\u03bb\u03bc\u00e9\u00fc\u00f1\u0436\u00df\u00b5\u0663\u096b\u00b2"
UNICODE_ID_CORPUS = ["s\u03b1", "k\u03bc", "v\u03b2", "d\u0394", "\u03b1s", "\u03b1", "x\u00b2", "\u0663", "a\u0663b", "\u00e9t\u00e9", "s\u03b1-1", "k.\u03bc"]
# names that survive the round trip: an ASCII letter first, then ASCII word characters and NFKC-stable letters that are
# legal in a Python identifier (the importer and the code generator need Python identifiers)
UNICODE_LETTERS = "\u03b1\u03b2\u03b3\u0394\u03bb\u03bc\u03c9\u00e9\u00fc\u00f1\u0436\u00df\u03c0"
UNICODE_DOC_CORPUS = [
    {"P": "k\u03bc", "V": "s\u03b1", "W": "p", "D": "d\u0394", "R": "v\u03b2", "ia": True, "computed": True},
    {"P": "k", "V": "s\u03b1", "W": "p\u03b2", "D": "d", "R": "v", "ia": False, "computed": False},
]


def gen_unicode_doc(rng) -> dict:  # noqa: ANN001
    def name(stem: str) -> str:
        if rng.random() < 0.25:
            return stem
        ch = rng.choice(UNICODE_LETTERS)
        return stem + ch + rng.choice(["", "", "1", "_x", rng.choice(UNICODE_LETTERS)])

    while True:
        nd = {"P": name("k"), "V": name("s"), "W": name("p"), "D": name("d"), "R": name("v"), "ia": rng.random() < 0.5, "computed": rng.random() < 0.5}
        if len({nd[x] for x in "PVWDR"}) == 5 and not all(nd[x].isascii() for x in "PVWDR"):
            break
    if nd["computed"] and not nd["W"].isascii():
        # external importer: pysbml un-escapes `__<ord>__` in the variable of the assignment rule of a computed coefficient
        # but not in the species-reference id (see design/C08.md, finding names-needing-escaping): keep that species ASCII
        nd["W"] = "p"
    return nd


def unicode_doc_oracle(nd: dict, scratch: Path, tag: str) -> str | None:
    """-> description of the violation | "inconclusive" | None"""
    out = name_doc_observed(nd, scratch, tag)
    if out[0] != "ok":
        return f"sbml.write refuses a model whose names contain non-ASCII letters {nd}: {out[1]} {out[2]}"
    try:
        if out[2]:
            return f"the written document uses identifiers that nothing declares: {out[2]} (names {nd}); declared ids {[o[3] for o in out[1] if o[0] == 'RDeclared']}"
        m = build_name_doc(nd, scratch)
        m2, kind, bad = read_model(out[3])
        if m2 is None:
            return bad if bad else "inconclusive"
        kind, bad = compare_models(m, m2, [None, {nd["V"]: 3.0, nd["W"]: 0.25}])
        return bad and f"export+import of a model with the names {nd}: {bad}"
    finally:
        out[3].unlink(missing_ok=True)


def _close_model(mod: str, params: list, variables: list, rx_args: list[str], flags: list[str], states: list, derived: list | None = None) -> tuple[dict, list]:
    spec = {"module": MODULE_HEADER2 + mod, "parameters": params, "variables": variables, "derived": derived or [],
            "reactions": [["n400", "f0", rx_args, [[variables[0][0], -1], [variables[1][0], 1]]]], "flags": flags, "fns": {}}  # fmt: skip
    return spec, states


def _st(a: float, b: float, va: str = "n100", vb: str = "n101") -> dict[str, float]:
    return {va: a, vb: b}


CLOSE_MODEL_CORPUS: list[tuple[dict, list]] = [
    # seeded C08-4: an intermediate assignment rebinds a parameter; the truncated law still mentions known names only
    _close_model("def f0(p0, p1, p2):\n    p0 = p0 / (p2 + p0)\n    return p1 * p0\n", [["n200", 3.0], ["n201", 0.5]], [["n100", 2.0], ["n101", 0.25]],
                 ["n100", "n200", "n201"], ["mayrefuse", "multistmt:rebinding"], [None, _st(0.5, 3.0), _st(10.0, 1.5)]),
    _close_model('def f0(p0, p1):\n    """Docstring first, then an intermediate, then the result."""\n    p1 = p1 * p1\n    return p1 * p0\n', [["n200", 4.0]],
                 [["n100", 2.0], ["n101", 0.25]], ["n101", "n200"], ["mayrefuse", "multistmt:rebinding"], [None, _st(0.5, 3.0)]),
    _close_model("def f0(p0, p1):\n    if p0 > 1: return p1\n    return -p1\n", [["n200", 4.0]], [["n100", 2.0], ["n101", 0.25]], ["n100", "n200"],
                 ["mayrefuse", "multistmt:early-return"], [None, _st(0.5, 3.0)]),
    # seeded C08-6: at the initial state (4 / 3) both remainders agree; at 5, 8, 2 they do not
    _close_model("def f0(p0, p1, p2):\n    return p2 * math.remainder(p0, p1)\n", [["n200", 3.0], ["n201", 0.5]], [["n100", 4.0], ["n101", 0.0]],
                 ["n100", "n200", "n201"], ["mayrefuse", "function", "remainder:math"], [None, _st(5.0, 1.0), _st(8.0, 1.0), _st(2.0, 1.0)]),
    _close_model("def f0(p0, p1, p2):\n    return p2 * np.remainder(p0, p1)\n", [["n200", 3.0], ["n201", 0.5]], [["n100", 4.0], ["n101", 0.0]],
                 ["n100", "n200", "n201"], ["mayrefuse", "function", "remainder:np"], [None, _st(5.0, 1.0), _st(8.0, 1.0), _st(2.0, 1.0)]),
    # seeded C08-5: Greek letters in every kind of component, an initial assignment and a computed coefficient
    ({"module": MODULE_HEADER2 + "def f0(p0, p1):\n    return p1 * p0\n\ndef f1(p0, p1):\n    return p0 / (1 + p1)\n\ndef f2(p0):\n    return 2 * p0\n",
      "parameters": [["k\u03bc", 1.5], ["k2", 0.25]], "variables": [["s\u03b1", 2.0], ["p", {"ia": ["f2", ["k\u03bc"]]}]],
      "derived": [["d\u0394", "f1", ["s\u03b1", "p"]]],
      "reactions": [["v\u03b2", "f0", ["s\u03b1", "k\u03bc"], [["s\u03b1", -1], ["p", {"derived": ["f2", ["k2"]]}]]], ["v2", "f0", ["d\u0394", "k2"], [["p", -1.5]]]],
      "flags": ["non-ascii-names", "initial_assignment", "computed_stoichiometry"], "fns": {}},
     [None, {"s\u03b1": 2.0, "p": 3.0}, {"s\u03b1": 0.125, "p": 7.0}]),
]


def gen_close_model(rng) -> tuple[dict, list]:  # noqa: ANN001
    """A two-species model whose single rate law is a generated multi-statement function / remainder call, or an ordinary
    law over names with non-ASCII letters."""
    r = rng.random()
    va, vb, pa, pb = "n100", "n101", "n200", "n201"
    flags: list[str]
    if r < 0.4:
        fd = c08_gen.gen_multistmt_function(rng)
    elif r < 0.7:
        fd = c08_gen.gen_remainder_function(rng)
    else:
        fd = {"params": ["p0", "p1"], "body": [("return", gen_core_expr(rng, ["p0", "p1"], 2, set()))], "flags": ["non-ascii-names"]}
        ch = lambda: rng.choice(UNICODE_LETTERS)  # noqa: E731
        va, vb, pa, pb = "s" + ch(), "p" + ch() + rng.choice(["", "1"]), "k" + ch(), "K_" + ch() + ch()
    k = len(fd["params"])
    args = [va, pa, pb][:k]
    vals = [rng.choice([0.5, 1.5, 2.0, 3.0, 4.0]) for _ in range(4)]
    spec = {"module": MODULE_HEADER2 + fn_src("f0", fd["params"], fd["body"]), "parameters": [[pa, vals[0]], [pb, vals[1]]],
            "variables": [[va, vals[2]], [vb, vals[3]]], "derived": [], "reactions": [["n400", "f0", args, [[va, -1], [vb, rng.choice([1, 0.5, 2])]]]],
            "flags": list(fd["flags"]), "fns": {}}  # fmt: skip
    states: list = [None] + [{va: float(rng.choice([2, 5, 7, 8, 11])), vb: float(rng.randint(0, 4))} for _ in range(2)]
    return spec, states


def gen_ref_doc(rng) -> dict:  # noqa: ANN001
    """A document with several computed coefficients, often for ONE species in several reactions (and twice in one)."""
    fns: list[tuple[str, list[str], list[tuple]]] = [("f0", ["p0"], [("return", ("name", "p0"))])]
    n_var = rng.randint(1, 3)
    vars_ = [[f"n{100 + i}", float(rng.randint(1, 3))] for i in range(n_var)]
    rxns = []
    for i in range(rng.randint(1, 4)):
        st = []
        for v in rng.sample([v[0] for v in vars_], rng.randint(1, n_var)):
            if rng.random() < 0.7:
                k = rng.randint(0, 1)
                base: tuple = ("real", Fraction(rng.choice([1, 3, 5]), 2)) if k == 0 else ("bin", "Mult", ("name", "p0"), ("real", Fraction(rng.choice([1, 3]), 2)))
                e = base if rng.random() < 0.5 else ("un", "USub", base)
                fname = f"f{len(fns)}"
                fns.append((fname, [f"p{j}" for j in range(k)], [("return", e)]))
                st.append([v, {"derived": [fname, ["n200"][:k]]}])
            else:
                st.append([v, rng.choice([-2, -1, 1, 0.5, -1.5])])
        rxns.append([f"n{400 + i}", "f0", [rng.choice(vars_)[0]], st])
    return {"module": MODULE_HEADER + "\n\n".join(fn_src(n, p, b) for n, p, b in fns), "parameters": [["n200", 2.0]], "variables": vars_,
            "derived": [], "reactions": rxns, "flags": ["computed_stoichiometry"], "fns": {n: [p, b] for n, p, b in fns}}  # fmt: skip


def doc_reference_ids(spec: dict, scratch: Path, tag: str) -> tuple:
    """("ok", [(species, index)] of the species references with an id, in document order, [(species, index)] of the
    assignment rules written for them) from the libSBML document sbml.write builds; ids are "<species>ref[<n>]"."""
    import re

    import libsbml
    from mxlpy import sbml

    m = build_model(spec, scratch)
    if observe(m, None) is None:
        return ("skip", "not evaluable at the initial state")
    f = scratch / f"c08f_{common.os.getpid()}_{tag}.xml"
    captured: list = []
    orig = libsbml.writeSBMLToFile

    def capture(doc, path):  # noqa: ANN001
        captured.append(doc)
        return orig(doc, path)

    libsbml.writeSBMLToFile = capture
    try:
        guarded(sbml.write, m, f)
    except Exception as e:  # noqa: BLE001
        return ("err", common.classify_exception(e), str(e)[:100])
    finally:
        libsbml.writeSBMLToFile = orig
        f.unlink(missing_ok=True)
    if len(captured) != 1:
        return ("err", "ErrOther:NoDocument", "")
    sm = captured[0].getModel()

    def parse(s: str) -> tuple[int, int]:
        mt = re.fullmatch(r"n(\d+)ref(\d*)", s)
        return (int(mt.group(1)), int(mt.group(2) or 1)) if mt and mt.group(2) != "1" else (0, 0)

    refs = []
    for nm, _f, _a, _st in spec["reactions"]:
        rx = sm.getReaction(nm)
        for getn, get in ((rx.getNumReactants, rx.getReactant), (rx.getNumProducts, rx.getProduct)):
            for i in range(getn()):
                sr = get(i)
                if sr.isSetId():
                    key = parse(sr.getId())
                    refs.append(key if f"n{key[0]}" == sr.getSpecies() else (0, 0))
    rules = [parse(sm.getRule(i).getVariable()) for i in range(sm.getNumRules()) if "ref" in sm.getRule(i).getVariable()]
    return ("ok", refs, rules)


def gen_trace(rng, k: int) -> list[list]:  # noqa: ANN001
    """A history of writes and reads over two directories and stems that valid_filename maps to one or two module names;
    documents are numbered (parameter n200 = number / 2; most numbers print with the same width)."""
    pid = common.os.getpid()
    stems = [f"c08_{pid}_t{k}", f"C08-{pid}-T{k}", f"c08_{pid}_t{k}b"]
    ops: list[list] = []
    written: list[tuple[str, str]] = []
    for _ in range(rng.randint(6, 12)):
        if not written or rng.random() < 0.45:
            d, st = rng.choice("ab"), rng.choice(stems[:2] if rng.random() < 0.8 else stems)
            ops.append(["w", d, st, rng.choice([1, 2, 3, 5, 7, 9, 11, 13, 20, 24])])
            if (d, st) not in written:
                written.append((d, st))
        else:
            d, st = rng.choice(written)
            ops.append(["r", d, st])
    if not any(o[0] == "r" for o in ops):
        ops.append(["r", *written[0]])
    return ops


def trace_to_coq(ops: list[list], trace: list[dict], bytecode: bool) -> tuple[str, int, str] | None:
    """-> (Gallina sess_case, description, number of reads that returned another document than the one in the file) or
    None when the trace cannot be used (a read failed)."""
    if len(trace) != len(ops) or any("error" in t for t in trace):
        return None
    stem_no: dict[str, int] = {}
    mod_no: dict[str, int] = {}
    mods, sizes, cops, exp = {}, {}, [], []
    n_stale = 0
    t0 = min([t["t"] for t in trace if t["op"] == "r"], default=0)
    last: dict[tuple, int] = {}
    for op, t in zip(ops, trace):
        sn = stem_no.setdefault(op[2], len(stem_no))
        mods[sn] = 1000 + mod_no.setdefault(t["modname"], len(mod_no))
        p = f"({cn({'a': 0, 'b': 1}[op[1]])}, {cn(sn)})"
        if op[0] == "w":
            cops.append(f"OWrite {p} {cn(op[3])}")
            last[(op[1], op[2])] = op[3]
        else:
            cops.append(f"ORead {p} {cn(t['t'] - t0)}")
            sizes[last[(op[1], op[2])]] = t["size"]  # the generated file is rewritten by every read: size of the CURRENT document's module
            mk = t["marker"]
            n_stale += mk != last[(op[1], op[2])]
            exp.append(f"(Some {cn(int(mk))})" if float(mk).is_integer() else "None")
    pairs = lambda d: clist(f"({cn(a)}, {cn(b)})" for a, b in sorted(d.items()))  # noqa: E731
    case = f"({'true' if bytecode else 'false'}, {pairs(mods)}, {pairs(sizes)}, {clist(cops)}, {clist(exp)})"
    return case, n_stale, f"bytecode={bytecode} ops={ops} observed={[(t.get('marker'), t.get('t', 0) - t0, t.get('size')) for t in trace if t['op'] == 'r']}"


# ---------------------------------------------------------------------------------------
# the check
# ---------------------------------------------------------------------------------------

KNOWN_NAME_WITNESSES = ["1x", "x-1", "x.y", "_x"]
IMPORT_SIDE = ("unreadable", "read-timeout", "rt-not-evaluable", "name-lost", "kind-changed", "initial-value", "args", "fluxes", "rhs")
GUARD_FINDING = {"shared_ref": "shared-stoichiometry-reference", "boolnum": "boolean-as-number-import"}
BOOLNUM_WITNESS = {
    "module": MODULE_HEADER + "def f0(p0, p1):\n    return (p0 > 1) * p1\n",
    "parameters": [["n200", 3.0]], "variables": [["n100", 2.0]], "derived": [],
    "reactions": [["n400", "f0", ["n100", "n200"], [["n100", -1]]]], "flags": ["boolnum"], "fns": {},
}  # fmt: skip
SHARED_REF_WITNESS = {
    "module": MODULE_HEADER + "def f0(p0):\n    return p0\n\ndef f1():\n    return 0.5\n\ndef f2():\n    return -1.5\n",
    "parameters": [["n200", 2.0]], "variables": [["n100", 1.0], ["n101", 1.0]], "derived": [],
    "reactions": [["n400", "f0", ["n100"], [["n101", {"derived": ["f1", []]}]]], ["n401", "f0", ["n100"], [["n101", {"derived": ["f2", []]}]]]],
    "flags": ["computed_stoichiometry", "shared_ref"], "fns": {},
}  # fmt: skip


def unsafe_name_fails(name: str, scratch: Path) -> str | None:
    """Replays the known finding: a component whose name needs escaping is not found under its name."""
    spec = {
        "module": MODULE_HEADER + "def f0(p0, p1):\n    return p0 * p1\n",
        "parameters": [["n200", 3.0]], "variables": [[name, 2.0]], "derived": [],
        "reactions": [["n400", "f0", [name, "n200"], [[name, -1]]]], "flags": [], "fns": {},
    }  # fmt: skip
    _kind, bad = roundtrip_oracle(spec, scratch, "known", [None])
    return bad


def _n(x: str) -> tuple:
    return ("name", x)


_LT3 = ("cmp", _n("p0"), [("Lt", ("int", 3))])
# minimised past failures and one small function per construct the property names; they run first
MATH_CORPUS: list[tuple[list[str], tuple, list[str]]] = [
    (["p0"], ("if", _LT3, ("int", 5), ("int", 7)), ["conditional"]),
    (["p0", "p1"], ("if", ("cmp", ("int", 1), [("Lt", _n("p0")), ("LtE", _n("p1"))]), ("int", 1), ("int", 0)), ["chained"]),
    (["p0"], ("if", ("cmp", ("int", 1), [("Lt", _n("p0")), ("Lt", ("int", 3))]), _n("p0"), ("un", "USub", _n("p0"))), ["chained"]),
    (["p0"], ("callattr", "np", "log10", [("bin", "Add", _n("p0"), ("int", 1))], False), ["function"]),
    (["p0"], ("callattr", "math", "log10", [("bin", "Add", _n("p0"), ("int", 1))], False), ["function"]),
    (["p0"], ("callattr", "np", "log", [("bin", "Add", _n("p0"), ("int", 1))], False), ["function"]),
    (["p0"], ("callname", "sqrt", [("bin", "Add", _n("p0"), ("int", 1))], False), ["function"]),
    (["p0", "p1"], ("callname", "max", [_n("p0"), _n("p1"), ("real", Fraction(3, 2))], False), ["function"]),
    (["p0", "p1"], ("callattr", "np", "power", [_n("p0"), _n("p1")], False), ["function"]),
    (["p0", "p1"], ("bin", "Sub", ("bin", "Pow", _n("p0"), ("int", 2)), ("bin", "FloorDiv", _n("p1"), ("int", 2))), []),
    (["p0", "p1"], ("bin", "Div", ("un", "USub", _n("p0")), ("bin", "Add", _n("p1"), ("real", Fraction(1, 2)))), []),
    (["p0", "p1"], ("bin", "Mult", ("cmp", _n("p0"), [("Gt", ("int", 1))]), _n("p1")), []),
    (["p0"], ("if", ("un", "Not", _LT3), ("attr", "math", "pi"), ("attr", "np", "e")), ["conditional"]),
    (["p0"], ("callattr", "math", "exp", [_n("p0")], False), ["mayrefuse"]),
    (["p0"], ("callname", "helper", [_n("p0")], False), ["mayrefuse"]),
    (["p0", "p1"], ("callattr", "np", "sqrt", [_n("p0"), _n("p1")], False), ["mayrefuse"]),
    (["p0"], ("callattr", "np", "sqrt", [_n("p0")], True), ["mayrefuse"]),
    (["p0"], ("bin", "Mod", _n("p0"), ("int", 2)), ["mayrefuse"]),
    # functions whose OWN parameter names are model names bound in another position (renaming must be simultaneous)
    (["n100", "n101", "n200"], ("bin", "Div", ("bin", "Mult", _n("n200"), _n("n100")), _n("n101")), ["ownnames:swap"], ["n101", "n100", "n200"]),
    (["n101", "n200", "n100"], ("bin", "Sub", ("bin", "Add", _n("n101"), ("bin", "Mult", ("int", 2), _n("n200"))), ("bin", "Div", _n("n100"), ("int", 4))),
     ["ownnames:rotation"], ["n200", "n100", "n101"]),
    (["n100", "n101"], ("bin", "Sub", _n("n100"), ("bin", "Mult", ("int", 2), _n("n101"))), ["ownnames:chain"], ["n101", "n102"]),
    (["n100", "n101"], ("if", ("cmp", _n("n100"), [("Lt", _n("n101"))]), _n("n100"), ("un", "USub", _n("n101"))), ["ownnames:chain", "conditional"], ["n101", "n102"]),
    (["p0", "p1"], ("bin", "Add", ("bin", "Mult", _n("p0"), _n("p1")), _n("p0")), ["ownnames:repeat"], ["n100", "n100"]),
]


_P0, _P1, _P2 = _n("p0"), _n("p1"), _n("p2")
_REM_ARGS = [("bin", "Add", _P0, ("int", 3)), ("int", 3)]
# closing pass (seeded C08-4 / C08-6): bodies with more than one statement, and the two functions called `remainder`
CLOSE_MATH_CORPUS: list[tuple[list[str], list[tuple], list[str]]] = [
    (["p0", "p1", "p2"], [("assign", "p0", ("bin", "Div", _P0, ("bin", "Add", _P2, _P0))), ("return", ("bin", "Mult", _P1, _P0))], ["mayrefuse", "multistmt:rebinding"]),
    (["p0", "p1"], [("doc",), ("assign", "p1", ("bin", "Mult", _P1, _P1)), ("return", ("bin", "Mult", _P1, _P0))], ["mayrefuse", "multistmt:rebinding"]),
    (["p0", "p1"], [("assign", "t60", ("bin", "Add", ("bin", "Mult", _P0, ("int", 2)), _P1)), ("return", ("bin", "Sub", _n("t60"), _P1))], ["mayrefuse", "multistmt:local"]),
    (["p0", "p1"], [("otherstmt", "if p0 > 1: return p1"), ("return", ("un", "USub", _P1))], ["mayrefuse", "multistmt:early-return"]),
    (["p0", "p1"], [("otherstmt", "p0 += 1"), ("return", ("bin", "Mult", _P0, _P1))], ["mayrefuse", "multistmt:augmented"]),
    (["p0"], [("return", ("callattr", "math", "remainder", _REM_ARGS, False))], ["mayrefuse", "function", "remainder:math"]),
    (["p0"], [("return", ("callattr", "np", "remainder", _REM_ARGS, False))], ["mayrefuse", "function", "remainder:np"]),
    (["p0"], [("return", ("callattr", "numpy", "remainder", _REM_ARGS, False))], ["mayrefuse", "function", "remainder:numpy"]),
    (["p0", "p1"], [("return", ("bin", "Mult", ("real", Fraction(1, 2)), ("callname", "remainder", [("bin", "Add", _P0, ("int", 3)), ("bin", "Add", _P1, ("int", 2))], False)))],
     ["mayrefuse", "function", "remainder:bare"]),
]


def _model(mod: str, **kw) -> dict:  # noqa: ANN003
    spec = {"module": MODULE_HEADER + mod, "parameters": [["n200", 2.0]], "variables": [["n100", 1.5], ["n101", 0.5]],
            "derived": [], "reactions": [], "flags": [], "fns": {}}  # fmt: skip
    spec.update(kw)
    return spec


MODEL_CORPUS: list[dict] = [
    _model("def f0(p0, p1):\n    return p0 * p1\n\ndef f1(p0):\n    return -(p0 * 1.5)\n\ndef f2():\n    return 2.5\n",
           reactions=[["n400", "f0", ["n100", "n200"], [["n100", {"derived": ["f1", ["n200"]]}], ["n101", {"derived": ["f2", []]}]]]],
           flags=["computed_stoichiometry"]),
    _model("def f0(p0, p1):\n    return p0 * p1\n", reactions=[["n400", "f0", ["n100", "n200"], [["n100", -1.5], ["n101", 0.25]]]],
           flags=["fractional_stoichiometry"]),
    _model("def f0(p0):\n    return p0 * 3\n\ndef f1(p0):\n    return p0 + 1\n\ndef f2(p0, p1):\n    return p0 * p1\n",
           parameters=[["n200", 2.0], ["n201", {"ia": ["f0", ["n200"]]}]], variables=[["n100", {"ia": ["f1", ["n200"]]}], ["n101", 0.5]],
           reactions=[["n400", "f2", ["n100", "n201"], [["n100", -1], ["n101", 1]]]], flags=["initial_assignment"]),
    _model("def f0(p0, p1):\n    return (p0 if (1 < p0 <= p1) else (-p1)) + (5 if p0 < 3 else 7)\n",
           reactions=[["n400", "f0", ["n100", "n200"], [["n100", -1]]]], flags=["chained", "conditional"]),
    _model("def f0(p0):\n    return np.log10(p0 + 1) + math.sqrt(p0)\n\ndef f1(p0, p1):\n    return p0 * p1\n",
           derived=[["n300", "f0", ["n100"]]], reactions=[["n400", "f1", ["n300", "n200"], [["n101", -2]]]], flags=["function"]),
    # one law used for both directions with the species swapped; a rotated and a chained binding of a function's own names
    _model("def f0(n100, n101, n200):\n    return n200 * n100 / n101\n\ndef f1(n101, n200, n100):\n    return n101 + 2 * n200 - n100 / 4\n\n"
           "def f2(n100, n101):\n    return n100 - 2 * n101\n",
           derived=[["n300", "f1", ["n200", "n100", "n101"]], ["n301", "f2", ["n101", "n200"]]],
           reactions=[["n400", "f0", ["n100", "n101", "n200"], [["n100", -1], ["n101", 1]]], ["n401", "f0", ["n101", "n100", "n200"], [["n101", -1], ["n100", 1]]]],
           flags=["ownnames"]),
    # two computed coefficients of one species (recorded finding shared-stoichiometry-reference until its repair is applied)
    _model("def f0(p0):\n    return p0\n\ndef f1():\n    return 0.5\n\ndef f2():\n    return -1.5\n\ndef f3(p0):\n    return p0 * 2\n",
           reactions=[["n400", "f0", ["n100"], [["n101", {"derived": ["f1", []]}]]],
                      ["n401", "f0", ["n100"], [["n101", {"derived": ["f2", []]}], ["n100", {"derived": ["f3", ["n200"]]}]]],
                      ["n402", "f0", ["n101"], [["n101", {"derived": ["f3", ["n200"]]}]]]],
           flags=["computed_stoichiometry", "shared_ref"]),
]


def check(run: Run) -> None:
    thorough = run.tier == "thorough"
    READ_TIMEOUT[0] = 20.0 if thorough else 12.0
    facts = gen()
    run.coverage["gen_facts"] = facts
    run.rule = (
        "functions: a corpus of 18 minimal functions (one per construct the property names + every past failure), then random "
        "single-expression Python functions (arithmetic, **, //, unary minus, single and chained comparisons, conditional "
        "expressions, not, truth values as numbers, math/numpy/builtin table functions, constants, docstrings) plus a wild "
        "stream (35%) with constructs the exporter must refuse (%, and, unknown/nested calls, wrong arity, keywords, other "
        "statements); models: a corpus of 5, then 1-3 parameters/variables (numeric or initial assignment), 0-2 derived, 1-3 "
        "reactions with integer, fractional and computed coefficients of either sign, rate laws from the grammar of the "
        "constructs the property names (18% from the full grammar, 12% wild); a case is non-trivial if the function has an "
        "operator/call (math level) or the model round-trips / differs at a compared state; distinct by content. "
        "Deepening: 15% of the functions and 30% of the models' functions have their OWN parameter names bound as model names in "
        "another position (swap, rotation, permutation, chain f(a,b)->[b,c], overlap, one name bound twice; 5 corpus functions, 1 corpus "
        "model); 40/150 documents with several computed coefficients per species (reference ids); 30/120 documents whose names mostly "
        "need escaping (every identifier occurrence; dangling identifiers); sessions: 2 corpus + 8/40 generated sequences of 3-4 round "
        "trips in one interpreter (edited model over the same path, another model over the same path, same file name in another "
        "directory, stems differing in case/separators), the first 4/6 again under default interpreter settings (byte-code caching on, "
        "subprocess), and 4/12 write/read histories for the Coq session model (in-process + subprocess with observed mtime/size). "
        "Closing pass (own random stream c08-close): 9 corpus + 60/300 functions whose body has several statements (assignments that "
        "rebind a parameter or introduce a local, early returns, augmented assignments) + 30/120 remainder calls (math / np / numpy / "
        "bare), all of which the exporter may refuse and which are judged by the math oracle when exported; 12 corpus + ~30/110 names "
        "with non-ASCII code points (every id must be a legal SBML SId; code-point correspondence, which also re-runs all ASCII id "
        "cases); 6/24 documents and 11/36 whole models with multi-statement / remainder laws or non-ASCII letters in their names "
        "(non-ASCII identifier names must round-trip BY NAME)"
    )
    proofs_ok = run.check_proofs(AREA, PROPS)
    run.assumptions += [
        "Coq 8.16.1 kernel + vm_compute; all C08 theorems closed under the global context (no axioms)",
        "fact extractor harness/c08_extract.py + harness/c08_shapes.json (fail-closed: unknown shapes break C08_facts_pinned)",
        "MathML meaning per SBML L3V2 is the hand-written eval_ml (n-ary plus/times, piecewise(value, condition, otherwise), "
        "lazy piecewise/and, relational operators as 1/0); transcendental/rounding functions, power, quotient and rem are "
        "uninterpreted functions shared by the Python and the MathML side (the sign convention of quotient/rem on negative "
        "operands is not decided here)",
        "libSBML (tree construction, XML writing) and pysbml 0.5.0 + mxlpy.sbml.read (import) are external: modelled by the "
        "SBML meaning of species references (reactant negative, product positive, assignment rule bound to the reference id); "
        "exercised by the round-trip oracle, not verified",
        "CPython evaluation of the rate functions is modelled by eval_py (exact rationals; bool = 1/0; names that are not "
        "parameters have no value; `x = e` rebinds x for the later statements; statements other than return / assignment have no "
        "modelled value); the function a called name means depends on the library only for `remainder` (numpy: floored modulo; math "
        "and a bare name: IEEE 754 remainder), the bare name being math's is an assumption about the caller's imports; "
        "IdentifierReplacer renaming callee names and nested attributes are outside the model",
        "ids over arbitrary code points (coq/sbmlexp/SbmlIdU.v): Python's Unicode tables (`\\w` on str patterns, str.isalpha) are "
        "Section variables in the theorems and per-case lists computed by the harness in the correspondence; that libSBML rejects an "
        "id that is not a legal SId (and nothing else) is libSBML's documented behaviour, exercised by the document oracle",
        "correspondence harness: generators, Gallina printers, libSBML tree walker, coqc output parser; the document-level "
        "correspondence reads the libSBML document sbml.write hands to libsbml.writeSBMLToFile",
        "sessions: src/mxlpy/sbml/_import.py::read and import_from_path are modelled (coq/sbmlexp/SbmlSession.v); pysbml's parser + "
        "transformation, _codegen, module execution, valid_filename and the clock are Section variables; the source loader's byte-code "
        "rule (trusted when mtime in whole seconds and size are unchanged) is modelled from importlib's documented behaviour and "
        "validated on observed histories; ./check runs with PYTHONDONTWRITEBYTECODE=1, the default-settings sessions run in a "
        "subprocess (harness/c08_session.py) whose byte-code cache is redirected into the scratch directory",
        "coq/sbmlexp/ExpectedFacts.v (hand-edited through tools/c08_switch.py together with a fix commit) says which of the two "
        "modelled values of f_ref_id / f_math_names / i_loader the tree is expected to have; until a proposed repair is applied the "
        "defect it repairs is a recorded finding replayed every run",
        "oracle limits: points where a NumPy function leaves its domain (NaN) have no value and are skipped; models that cannot "
        "be evaluated at their initial state cannot be exported (Model._create_cache raises inside write) and are skipped; an "
        "import that takes more than 12 s (quick) / 20 s (thorough) or hits SymPy's recursion limit is inconclusive (counted as read-timeout / read-recursion-limit); import-side differences of models inside "
        "the guard of a recorded finding (truth values as numbers; one species with computed coefficients in two reactions) are "
        "attributed to that finding, whose witness is replayed every run",
    ]
    rng = common.rng_for(run.seed, "c08")
    scratch = common.scratch_dir("c08")
    sys.path.insert(0, str(scratch))
    try:
        _run(run, rng, scratch, thorough)
    finally:
        sys.path.remove(str(scratch))
        shutil.rmtree(scratch, ignore_errors=True)
        for p in (Path.home() / ".cache" / "mxlpy").glob(f"mb_c08_{common.os.getpid()}_*.py"):
            p.unlink(missing_ok=True)
    if not proofs_ok:
        run.note("proof obligations broken; the oracles searched the generated functions/models for a concrete failing input")


def _run(run: Run, rng, scratch: Path, thorough: bool) -> None:  # noqa: ANN001
    import time

    reported: dict[str, int] = {}

    def may_report(kind: str, cap: int = 3) -> bool:
        """at most `cap` violations per kind of case, so that one defect cannot crowd out the witness of another"""
        reported[kind] = reported.get(kind, 0) + 1
        return reported[kind] <= cap

    known_ids = {kf.get("id") for kf in common.load_known_findings("C08")}
    dist: dict[str, int] = {}
    t_last = [time.time()]
    secs: dict[str, float] = {}

    def lap(name: str) -> None:
        now = time.time()
        secs[name] = round(secs.get(name, 0.0) + now - t_last[0], 1)
        t_last[0] = now
        run.coverage["section_seconds"] = secs

    def bump(k: str) -> None:
        dist[k] = dist.get(k, 0) + 1

    # ---- (A) function level -----------------------------------------------------------
    n_fn = 4000 if thorough else 700
    fdefs = []
    for entry in MATH_CORPUS:
        params, e, fl = entry[:3]
        fdefs.append({"params": params, "body": [("return", e)], "flags": fl, "name": f"f{len(fdefs)}",
                      "args": list(entry[3]) if len(entry) > 3 else [f"n{100 + j}" for j in range(len(params))]})  # fmt: skip
    for i in range(len(fdefs), n_fn):
        wild = rng.random() < 0.35
        fd = gen_function(rng, rng.randint(0, 3) if rng.random() < 0.9 else 4, rng.randint(1, 4), wild)
        fd["name"] = f"f{i}"
        nargs = len(fd["params"])
        if wild and rng.random() < 0.03:
            nargs = max(0, nargs + rng.choice([-1, 1]))
        fd["args"] = [f"n{100 + j}" for j in range(nargs)]
        if nargs == len(fd["params"]) and nargs >= 1 and "global" not in fd["flags"] and rng.random() < 0.15:
            # the function's own parameter names are model names bound in another position (swap, rotation, chain, overlap)
            # or one model name is bound twice: IdentifierReplacer must rename all parameters simultaneously
            bound = c08_gen.own_name_binding(rng, [f"n{100 + j}" for j in range(nargs + 1)], nargs)
            if bound is not None:
                mp = dict(zip(fd["params"], bound[0]))
                fd["body"] = [tuple(c08_gen.subst_names(x, mp) for x in st) for st in fd["body"]]
                fd["params"], fd["args"] = list(bound[0]), list(bound[1])
                fd["flags"] = sorted({*fd["flags"], "ownnames:" + bound[2]})
        fdefs.append(fd)
    math_cases, math_meta = [], []

    def run_functions(fds: list[dict], header: str, kind: str, sample: bool) -> None:
        for chunk_i, chunk in enumerate(common.chunks(fds, 200)):
            text = header + "\n\n".join(fn_src(fd["name"], fd["params"], fd["body"]) for fd in chunk)
            mod = load_module(scratch, text)
            for fd in chunk:
                fn = getattr(mod, fd["name"])
                out = sbmlify(fn, fd["args"])
                src = fn_src(fd["name"], fd["params"], fd["body"])
                nontrivial = any(c in src for c in "+-*/<>=(")
                run.count_case(("fn", src, fd["args"]), nontrivial=nontrivial)
                bump("fn:" + ("exported" if out[0] == "ok" else out[1]))
                for fl in fd["flags"]:
                    bump("fnflag:" + fl)
                bad = math_oracle(fn, fd["params"], fd["args"], out, fd["flags"]) if "global" not in fd["flags"] and "deadcode" not in fd["flags"] else None
                if bad and may_report(kind, 4):
                    rep_ = {"kind": "math", "source": src, "fname": fd["name"], "params": fd["params"], "args": fd["args"], "flags": fd["flags"]}
                    if header != MODULE_HEADER:
                        rep_["header"] = header
                    run.violation(f"_sbmlify_fn: {bad} -- {' ; '.join(x.strip() for x in src.strip().splitlines()[1:])}", rep_)
                elif bad:
                    bump("fn:more-violations")
                math_cases.append(f"({coq_fundef(fd['params'], fd['body'])}, {clist(cn(int(a[1:])) for a in fd['args'])}, {outcome_to_coq(out, KINDS)})")
                math_meta.append((src, fd["args"], out[:2] if out[0] == "err" else "ok"))
                if chunk_i == 0 and sample:
                    run.sample({"function": src, "args": fd["args"], "outcome": out if out[0] == "err" else "exported"}, cap=3)

    run_functions(fdefs, MODULE_HEADER, "math", True)
    lap("A functions")
    # ---- (A2) closing pass, own random stream: multi-statement bodies and the two remainders ---------------------------
    rng2 = common.rng_for(run.seed, "c08-close")
    cdefs: list[dict] = []
    for params, body, fl in CLOSE_MATH_CORPUS:
        cdefs.append({"params": params, "body": body, "flags": fl, "name": f"c{len(cdefs)}", "args": [f"n{100 + j}" for j in range(len(params))]})
    for _ in range(300 if thorough else 60):
        cdefs.append(c08_gen.gen_multistmt_function(rng2))
    for _ in range(120 if thorough else 30):
        cdefs.append(c08_gen.gen_remainder_function(rng2))
    for i, fd in enumerate(cdefs):
        fd.setdefault("name", f"c{i}")
        fd.setdefault("args", [f"n{100 + j}" for j in range(len(fd["params"]))])
    run_functions(cdefs, MODULE_HEADER2, "math-close", False)
    lap("A2 multi-statement bodies, remainders")
    # ---- (B) ids ----------------------------------------------------------------------
    from mxlpy.sbml._export import _convert_id_to_sbml

    import re

    alphabet = "abzAZ019_-. +*/()[]:;<>=|^'~#%"
    id_cases, id_meta = [], []
    names = ["x", "x1", "x_1", "1x", "_x", "x-1", "x.y", "x y", "class", "x__45__y", "", "-", "ATP[c]", "k+1"]
    for _ in range(300 if thorough else 120):
        names.append("".join(rng.choice(alphabet) for _ in range(rng.randint(1, 6))))
    for nm in names:
        prefix = rng.choice(["CPD", "PAR", "AR", "IA", "RXN"])
        try:
            exp = ("ok", _convert_id_to_sbml(id_=nm, prefix=prefix))
        except Exception as e:  # noqa: BLE001
            exp = ("err", common.classify_exception(e))
        run.count_case(("id", nm, prefix), nontrivial=not nm.isalnum())
        safe = bool(nm) and nm[0].isalpha() and all(c.isalnum() or c == "_" for c in nm) and nm.isascii()
        if safe and exp != ("ok", nm) and may_report("id", 2):
            run.violation(f"_convert_id_to_sbml changes a name that needs no escaping: {nm!r} -> {exp}", {"kind": "id", "name": nm, "prefix": prefix})
        if exp[0] == "ok" and not SID_RE.fullmatch(exp[1]) and may_report("id-legal", 2):
            run.violation(f"_convert_id_to_sbml({nm!r}, prefix={prefix!r}) -> {exp[1]!r}: not a legal SBML SId, libSBML's setId rejects it "
                          "and the component is written without an id", {"kind": "id", "name": nm, "prefix": prefix, "legal": True})  # fmt: skip
        e = f"(Ok {cstr(exp[1])})" if exp[0] == "ok" else f"(Err {c08_gen.ERR_COQ.get(exp[1], 'ErrOther')})"
        id_cases.append(f"({cstr(prefix)}, {cstr(nm)}, {e})")
        id_meta.append((nm, prefix, exp))

    # closing pass: names with non-ASCII code points (letters and digits of other scripts are legal in Python identifiers and
    # in MxlPy names).  Oracle, independent of the model: the id must be a legal SBML SId -- libSBML's setId rejects anything
    # else with a return code nobody reads.  Correspondence: coq/sbmlexp/SbmlIdU.v on code point lists.
    idu_cases, idu_meta = [], []
    unames = list(UNICODE_ID_CORPUS)
    ualphabet = "abzAZ019_-. " + UNICODE_CHARS
    for _ in range(150 if thorough else 40):
        nm = "".join(rng2.choice(ualphabet) for _ in range(rng2.randint(1, 5)))
        if not nm.isascii():
            unames.append(nm)
    for nm, prefix, exp in [(a, b, c) for a, b, c in id_meta if a] + [(nm, rng2.choice(["CPD", "PAR", "AR", "IA", "RXN"]), None) for nm in unames]:
        if exp is None:
            try:
                exp = ("ok", _convert_id_to_sbml(id_=nm, prefix=prefix))
            except Exception as e:  # noqa: BLE001
                exp = ("err", common.classify_exception(e))
            run.count_case(("idu", nm, prefix), nontrivial=True)
            bump("id:non-ascii-name")
            if (exp[0] != "ok" or not SID_RE.fullmatch(exp[1])) and may_report("id-legal", 2):
                run.violation(f"_convert_id_to_sbml({nm!r}, prefix={prefix!r}) -> {exp[1]!r}: not a legal SBML SId, libSBML's setId rejects it "
                              "and the component is written without an id", {"kind": "id", "name": nm, "prefix": prefix, "legal": True})  # fmt: skip
        cps = lambda t: clist(cn(ord(c)) for c in t)  # noqa: E731
        nonascii = sorted({c for c in nm if ord(c) >= 128})
        e = f"(Ok {cps(exp[1])})" if exp[0] == "ok" else f"(Err {c08_gen.ERR_COQ.get(exp[1], 'ErrOther')})"
        idu_cases.append(f"({cps(prefix)}, {cps(nm)}, {cps([c for c in nonascii if re.fullmatch(chr(92) + 'w', c)])}, {cps([c for c in nonascii if c.isalpha()])}, {e})")
        idu_meta.append((nm, prefix, exp))

    lap("B ids")
    # ---- (B2) identifiers inside whole documents (names that need escaping) --------------------

    name_cases, name_meta = [], []
    math_mode = expected_math_names()
    for i in range(120 if thorough else 30):
        nd = gen_name_doc(rng)
        try:
            out = name_doc_observed(nd, scratch, f"n{i}")
        except Exception as e:  # noqa: BLE001
            run.note(f"name document {i} could not be produced: {type(e).__name__}: {e}")
            continue
        all_safe = all(x in SAFE_NAMES for x in (nd["P"], nd["V"], nd["W"], nd["D"], nd["R"]))
        run.count_case(("names", tuple(sorted(nd.items()))), nontrivial=not all_safe)
        if out[0] != "ok":
            bump("name-doc:" + out[1])
            if may_report("names-refused", 2):
                run.violation(f"sbml.write refuses a model whose names need escaping: {out[1]} {out[2]}", {"kind": "names", "doc": nd})
            continue
        bump("name-doc:" + ("safe-names" if all_safe else "names-needing-escaping"))
        for kind_, prefix, nm, got in out[1]:
            name_cases.append(f"({kind_}, {cstr(prefix)}, {cstr(nm)}, (Ok {cstr(got)}))")
            name_meta.append((kind_, prefix, nm, got))
        bad = None
        if out[2]:
            bad = f"the written document uses identifiers that nothing declares: {out[2]} (names {nd})"
        elif nd["computed"] and (re.search(r"[^0-9a-zA-Z_]", nd["W"]) or re.search(r"__\d+__", nd["W"])):
            # external importer: pysbml un-escapes `__<ord>__` in the VARIABLE of the assignment rule (x__58__yref -> xyref) but
            # not in the species-reference id the stoichiometry refers to, which then comes back as an extra variable --
            # import side of the recorded finding names-needing-escaping; the exporter's document is consistent (checked above)
            bump("name-doc:known-finding-names-needing-escaping(importer unescapes the rule of a computed reference)")
        elif all_safe or math_mode == "MathIds":
            bad = positional_roundtrip(nd, scratch, out[3])
            bad = bad and f"export+import of a model with the names {nd}: {bad}"
        out[3].unlink(missing_ok=True)
        if bad and not all_safe and math_mode != "MathIds" and "names-needing-escaping" in known_ids:
            bump("name-doc:known-finding-names-needing-escaping")  # the math refers to the unescaped name (replayed below)
        elif bad and may_report("names", 2):
            run.violation(bad, {"kind": "names", "doc": nd})

    # closing pass: documents whose names contain non-ASCII letters.  The escaped id is un-escaped by the importer, and the
    # letter is legal in a Python identifier: these names SURVIVE the round trip -- compared BY NAME (kinds, initial values,
    # derived values, fluxes, derivatives at two states), after the document was searched for identifiers nothing declares
    for i in range(24 if thorough else 6):
        nd = UNICODE_DOC_CORPUS[i] if i < len(UNICODE_DOC_CORPUS) else gen_unicode_doc(rng2)
        bad = unicode_doc_oracle(nd, scratch, f"u{i}")
        run.count_case(("unames", tuple(sorted(nd.items()))), nontrivial=True)
        bump("name-doc:non-ascii-names" + ("" if bad is None else "-VIOLATION") if bad != "inconclusive" else "name-doc:non-ascii-names-inconclusive")
        if bad and bad != "inconclusive" and may_report("unames", 2):
            run.violation(bad, {"kind": "unames", "doc": nd})
    lap("B2 identifiers")
    # ---- (C) one-reaction / one-assignment documents ---------------------------------------
    rxn_cases, rxn_meta, ia_cases, ia_meta = [], [], [], []
    for i in range(400 if thorough else 80):
        spec = gen_model(rng, wild=rng.random() < 0.25, exotic=True)
        # keep numeric parameters/variables, one reaction, no derived; initial assignments separately
        ia_specs = [(nm, v["ia"]) for nm, v in spec["parameters"] + spec["variables"] if isinstance(v, dict)]
        mini = dict(spec)
        mini["parameters"] = [[nm, (1.0 if isinstance(v, dict) else v)] for nm, v in spec["parameters"]]
        mini["variables"] = [[nm, (1.0 if isinstance(v, dict) else v)] for nm, v in spec["variables"]]
        rx = spec["reactions"][0]
        known = {p[0] for p in mini["parameters"]} | {v[0] for v in mini["variables"]}
        if not set(rx[2]) <= known:
            rx = [rx[0], rx[1], [a if a in known else sorted(known)[0] for a in rx[2]], rx[3]]
        mini["derived"], mini["reactions"] = [], [rx]
        try:
            out = doc_reaction_outcome(mini, scratch, f"r{i}")
        except Exception as e:  # noqa: BLE001
            run.note(f"one-reaction document {i} could not be produced: {type(e).__name__}: {e}")
            continue
        if out[0] == "skip":
            bump("rxn-doc:skipped-" + out[1].replace(" ", "-"))
            continue
        fns = spec["fns"]
        r_coq = f"(mkRxn {coq_fundef(fns[rx[1]][0], fns[rx[1]][1])} {clist(cn(int(a[1:])) for a in rx[2])} {clist('(' + cn(int(v[1:])) + ', ' + coq_coef(c, fns) + ')' for v, c in rx[3])})"
        if out[0] == "ok":
            reactants, products, law = out[1][0]
            exp = f"(Ok (mkSRxn {clist([coq_sref('Reactant', r) for r in reactants] + [coq_sref('Product', r) for r in products])} {c08_gen.tree_to_coq(law, KINDS)}))"
        else:
            exp = f"(Err {c08_gen.ERR_COQ.get(out[1], 'ErrOther')})"
        run.count_case(("rxn", r_coq))
        bump("rxn-doc:" + ("written" if out[0] == "ok" else out[1]))
        rxn_cases.append(f"({r_coq}, {exp})")
        rxn_meta.append((rx, out[0] if out[0] == "ok" else out[:2]))
        for nm, (f, a) in ia_specs[:1]:
            one = dict(mini)
            one["parameters"] = [p for p in mini["parameters"] if p[0] != nm]
            one["variables"] = [v for v in mini["variables"] if v[0] != nm]
            target = "parameters" if nm.startswith("n2") else "variables"
            one[target] = [*one[target], [nm, {"ia": [f, a]}]]
            one["reactions"] = []  # an exception must come from the assignment, not from the reaction's rate law
            try:
                o2 = doc_reaction_outcome(one, scratch, f"i{i}")
            except Exception as e:  # noqa: BLE001
                run.note(f"one-assignment document {i} could not be produced: {type(e).__name__}: {e}")
                continue
            if o2[0] == "skip":
                bump("ia-doc:skipped-" + o2[1].replace(" ", "-"))
                continue
            if o2[0] == "ok":
                tree = o2[2].get(nm)
                exp2 = f"(Ok {c08_gen.tree_to_coq(tree, KINDS)})" if tree is not None else "(Err ErrOther)"
            else:
                exp2 = f"(Err {c08_gen.ERR_COQ.get(o2[1], 'ErrOther')})"
            run.count_case(("ia", nm, f, a, spec["module"]))
            bump("ia-doc:" + ("written" if o2[0] == "ok" else o2[1]))
            ia_cases.append(f"({coq_fundef(fns[f][0], fns[f][1])}, {clist(cn(int(x[1:])) for x in a)}, {exp2})")
            ia_meta.append((nm, f, a, o2[0] if o2[0] == "ok" else o2[:2]))

    lap("C documents")
    # ---- (C2) reference ids of the computed coefficients of whole documents -------------------
    ref_cases, ref_meta = [], []
    for i in range(150 if thorough else 40):
        spec = gen_ref_doc(rng)
        try:
            out = doc_reference_ids(spec, scratch, f"f{i}")
        except Exception as e:  # noqa: BLE001
            run.note(f"reference-id document {i} could not be produced: {type(e).__name__}: {e}")
            continue
        if out[0] != "ok":
            bump("ref-doc:" + out[0])
            continue
        fns = spec["fns"]
        rs = clist(f"(mkRxn {coq_fundef(fns[rx[1]][0], fns[rx[1]][1])} {clist(cn(int(a[1:])) for a in rx[2])} {clist('(' + cn(int(v[1:])) + ', ' + coq_coef(c, fns) + ')' for v, c in rx[3])})" for rx in spec["reactions"])
        shared = len({k[0] for k in out[1]}) < len(out[1])
        bump("ref-doc:" + ("several-computed-coefficients-for-one-species" if shared else "written"))
        run.count_case(("refs", rs), nontrivial=bool(out[1]))
        if out[1] != out[2] and len(run.broken_correspondence) < 6:
            run.broken_correspondence.append(f"species reference ids {out[1]} and the rules written for them {out[2]} differ: {spec['reactions']}")
        ref_cases.append(f"({rs}, {clist('(' + cn(a) + ', ' + cn(b) + ')' for a, b in out[1])})")
        ref_meta.append((spec["reactions"], out[1]))

    lap("C2 reference ids")
    # ---- (D) whole-model round trip (oracle) ----------------------------------------------
    n_models = 500 if thorough else 70
    for i in range(n_models):
        r = rng.random()
        spec = MODEL_CORPUS[i] if i < len(MODEL_CORPUS) else gen_model(rng, wild=r < 0.12, exotic=0.12 <= r < 0.3)
        states: list[dict[str, float] | None] = [None]
        for _ in range(2):
            states.append({v[0]: float(rng.randint(0, 4)) for v in spec["variables"]})
        kind, bad = roundtrip_oracle(spec, scratch, f"m{i}", states)
        if bad and kind in IMPORT_SIDE:
            # recorded findings (known_findings.d/C08.json), by guard: the importer cannot read truth values used as
            # numbers; computed coefficients of one species in several reactions share one reference id
            # (every guard the model falls under counts, as long as its finding is still recorded: since the repair of the
            # shared reference ids a model with BOTH flags is still inside the guard of boolean-as-number-import)
            guards = [g for g in ("shared_ref", "boolnum") if g in spec["flags"] and GUARD_FINDING[g] in known_ids]
            guard = guards[0] if guards else None
            if guard is not None:
                bump(f"model:known-finding-{GUARD_FINDING[guard]}")
                kind, bad = "known-finding", None
        bump("model:" + kind)
        for fl in spec["flags"]:
            bump("modelflag:" + fl)
        run.count_case(("model", spec["module"], spec["parameters"], spec["variables"], spec["derived"], spec["reactions"]), nontrivial=kind in ("ok", "args", "fluxes", "rhs"))
        if i == 0:
            run.sample({"model": {k: spec[k] for k in ("parameters", "variables", "derived", "reactions")}, "module": spec["module"], "outcome": kind}, cap=4)
        if bad and may_report("model", 4):
            run.violation(f"export+import: {bad}", {"kind": "model", "spec": {k: v for k, v in spec.items() if k != "fns"}, "states": states})
    lap("D models")
    # ---- (D2) closing pass: whole models with a multi-statement rate law / a remainder call (export may refuse; a file
    # that is written must mean the model) and models whose names carry non-ASCII letters (must round-trip by name)
    close_models = list(CLOSE_MODEL_CORPUS)
    for _ in range(30 if thorough else 5):
        close_models.append(gen_close_model(rng2))
    for i, (spec, states) in enumerate(close_models):
        kind, bad = roundtrip_oracle(spec, scratch, f"cm{i}", states)
        bump("close-model:" + kind)
        for fl in spec["flags"]:
            bump("close-modelflag:" + fl)
        run.count_case(("model", spec["module"], spec["parameters"], spec["variables"], spec["derived"], spec["reactions"]), nontrivial=kind in ("ok", "refused", "args", "fluxes", "rhs"))
        if bad and may_report("close-model", 3):
            run.violation(f"export+import: {bad}", {"kind": "model", "spec": {k: v for k, v in spec.items() if k != "fns"}, "states": states})
    lap("D2 closing models")
    # ---- (E) sessions: several round trips in one interpreter session -------------------------
    n_sess = 40 if thorough else 8
    sessions = session_corpus() + [gen_session(rng, k) for k in range(n_sess)]
    strip = lambda steps: [{**st, "spec": {k: v for k, v in st["spec"].items() if k != "fns"}} for st in steps]  # noqa: E731
    for k, steps in enumerate(sessions):
        kind, bad, _at = session_oracle(steps, scratch, f"s{k}")
        bump("session:" + kind)
        for st in steps[1:]:
            bump("session-step:" + st["how"])
        run.count_case(("session", [(st["dir"], st["how"], st["spec"]["module"], st["spec"]["parameters"], st["spec"]["variables"], st["spec"]["reactions"]) for st in steps]),
                       nontrivial=kind == "ok" or kind.startswith("session-"))  # fmt: skip
        if bad and may_report("session", 2):
            run.violation(f"export+import: {bad}", {"kind": "session", "steps": strip(steps)})
    lap("E sessions")
    # the same under the interpreter's default settings (byte-code caching on): harness/c08_session.py in a subprocess
    default_sessions = [strip(st) for st in sessions[: 2 + (4 if thorough else 2)]]
    from harness import c08_session

    traces = [gen_trace(rng, k) for k in range(12 if thorough else 4)]
    bump_n = lambda key, n: dist.__setitem__(key, dist.get(key, 0) + n)  # noqa: E731
    sess_cases, sess_meta = [], []
    for k, ops in enumerate(traces[: len(traces) // 2]):  # in this process: byte-code caching off
        got = trace_to_coq(ops, c08_session.run_trace(ops, scratch, f"p{k}"), bytecode=False)
        if got:
            sess_cases.append(got[0])
            sess_meta.append(got[2])
            bump_n("session-trace:reads-returning-another-document", got[1])
    stale, dtraces = run_default_settings(default_sessions, scratch, traces=traces, want_traces=True)
    for ops, tr in zip(traces, dtraces):  # under the interpreter's default settings: byte-code caching on, observed clock
        got = trace_to_coq(ops, tr, bytecode=True)
        if got:
            sess_cases.append(got[0])
            sess_meta.append(got[2])
            bump_n("session-trace:reads-returning-another-document", got[1])
    for c in sess_meta:
        run.count_case(("trace", c.split(" observed=")[0]))
    bump_n("session-trace:histories", len(sess_cases))
    for k, res in enumerate(stale):
        bump("session-default-settings:" + str(res[0]))
        if res[0] == "driver-error":
            run.note(f"session driver (default interpreter settings) failed on session {k}: {res[3] if len(res) > 3 else ''}")
        elif res[1]:
            what = f"export+import under the interpreter's default settings (byte-code caching on): {res[1]}"
            if res[0].startswith("session-") and STALE_FINDING in known_ids:
                if not any(fid == STALE_FINDING for fid, _w in KNOWN_SEEN):
                    KNOWN_SEEN.append((STALE_FINDING, what))
            elif may_report("session-default-settings", 2):
                run.violation(what, {"kind": "session", "steps": default_sessions[k], "default_settings": True})
    lap("E2 default-settings sessions + traces")
    run.coverage["input_distribution"] = dict(sorted(dist.items()))

    # ---- correspondence inside Coq -----------------------------------------------------
    hdr = "From Coq Require Import ZArith QArith List Bool String.\nImport ListNotations.\nFrom SbmlExp Require Import SbmlMath SbmlId SbmlDoc GenSbmlFacts Corr.\n"
    files: dict[str, str] = {}
    index: dict[str, tuple[str, int]] = {}
    for k, chunk in enumerate(common.chunks(math_cases, 250)):
        name = f"c08_math_{k:03d}"
        files[name] = hdr + "Definition cases : list math_case := [\n  " + ";\n  ".join(chunk) + "\n].\nEval vm_compute in math_mismatches cases.\n"
        index[name] = ("math", k * 250)
    files["c08_ids"] = hdr + "Definition cases : list id_case := [\n  " + ";\n  ".join(id_cases) + "\n].\nEval vm_compute in id_mismatches cases.\n"
    index["c08_ids"] = ("id", 0)
    for k, chunk in enumerate(common.chunks(idu_cases, 300)):
        files[f"c08_idu_{k:02d}"] = hdr.replace("SbmlMath SbmlId SbmlDoc", "SbmlMath SbmlId SbmlIdU SbmlDoc") + "Definition cases : list idu_case := [\n  " + ";\n  ".join(chunk) + "\n].\nEval vm_compute in idu_mismatches cases.\n"
        index[f"c08_idu_{k:02d}"] = ("idu", k * 300)
    if rxn_cases:
        files["c08_rxn"] = hdr + "Definition cases : list rxn_case := [\n  " + ";\n  ".join(rxn_cases) + "\n].\nEval vm_compute in rxn_mismatches cases.\n"
        index["c08_rxn"] = ("rxn", 0)
    for k, chunk in enumerate(common.chunks(name_cases, 300)):
        files[f"c08_names_{k:02d}"] = hdr + "Definition cases : list nameref_case := [\n  " + ";\n  ".join(chunk) + "\n].\nEval vm_compute in nameref_mismatches cases.\n"
        index[f"c08_names_{k:02d}"] = ("names", k * 300)
    if ref_cases:
        files["c08_refs"] = hdr + "Definition cases : list refs_case := [\n  " + ";\n  ".join(ref_cases) + "\n].\nEval vm_compute in refs_mismatches cases.\n"
        index["c08_refs"] = ("refs", 0)
    if sess_cases:
        files["c08_sess"] = hdr.replace("GenSbmlFacts Corr", "SbmlSession GenSbmlFacts Corr") + "Definition cases : list sess_case := [\n  " + ";\n  ".join(sess_cases) + "\n].\nEval vm_compute in sess_mismatches cases.\n"
        index["c08_sess"] = ("sess", 0)
    if ia_cases:
        files["c08_ia"] = hdr + "Definition cases : list ia_case := [\n  " + ";\n  ".join(ia_cases) + "\n].\nEval vm_compute in ia_mismatches cases.\n"
        index["c08_ia"] = ("ia", 0)
    res = common.coq_eval_many(AREA, files, timeout_s=900)
    mism = 0
    metas = {"math": math_meta, "id": id_meta, "rxn": rxn_meta, "ia": ia_meta, "refs": ref_meta, "sess": sess_meta, "names": name_meta, "idu": idu_meta}
    for name in sorted(files):
        ok, out = res[name]
        lists = common.parse_eval_list(out) if ok else None
        if not ok or not lists:
            run.broken_correspondence.append(f"correspondence shard {name} did not evaluate: {out[-300:]}")
            continue
        what, base = index[name]
        for j in lists[-1]:
            mism += 1
            if len(run.broken_correspondence) < 6:
                run.broken_correspondence.append(f"model/implementation disagree on {what} case #{base + j}: {metas[what][base + j]}")
    total = len(math_cases) + len(id_cases) + len(rxn_cases) + len(ia_cases) + len(ref_cases) + len(sess_cases) + len(name_cases) + len(idu_cases)
    run.coverage["traces_validated_against_impl"] = total - mism
    run.coverage["correspondence_mismatches"] = mism
    run.coverage["correspondence_cases"] = {"math": len(math_cases), "ids": len(id_cases), "reactions": len(rxn_cases), "initial_assignments": len(ia_cases),
                                               "document_reference_ids": len(ref_cases), "session_histories": len(sess_cases), "document_identifiers": len(name_cases),
                                               "ids_over_code_points": len(idu_cases)}

    lap("Coq correspondence")
    # ---- known findings ---------------------------------------------------------------
    for fid, what in KNOWN_SEEN:
        run.known(fid, what)
    KNOWN_SEEN.clear()
    for kf in common.load_known_findings("C08"):
        if kf.get("id") == "names-needing-escaping":
            w = kf.get("witness", {}).get("name", "1x")
            bad = unsafe_name_fails(w, scratch)
            if bad:
                run.known(kf["id"], f"variable named {w!r}: {bad}")
        for fid, wspec in (("boolean-as-number-import", BOOLNUM_WITNESS), ("shared-stoichiometry-reference", SHARED_REF_WITNESS)):
            if kf.get("id") == fid:
                _kind, bad = roundtrip_oracle(wspec, scratch, "known-" + fid[:6], [None, {v[0]: 3.0 for v in wspec["variables"]}])
                if bad:
                    run.known(fid, bad)
    lap("known findings")
    # the framework prints and stores the first four violations: one of every kind of case first
    seen, first, rest = set(), [], []
    for v in run.violations:
        k = (v.replay.get("kind"), v.replay.get("default_settings"), (v.replay.get("spec") or {}).get("flags", [None])[-1:] == ["shared_ref"])
        (rest if k in seen else first).append(v)
        seen.add(k)
    run.violations[:] = first + rest


def replay(rep: dict) -> int:
    import re

    r = rep["replay"]
    scratch = common.scratch_dir("c08replay")
    sys.path.insert(0, str(scratch))
    try:
        if r.get("kind") == "math":
            mod = load_module(scratch, r.get("header", MODULE_HEADER) + r["source"])
            fn = getattr(mod, r["fname"])
            out = sbmlify(fn, r["args"])
            bad = math_oracle(fn, r["params"], r["args"], out, r["flags"])
            print("export:", out if out[0] == "err" else "exported", "\noracle:", bad or "property holds on this input")
            return 1 if bad else 0
        if r.get("kind") == "model":
            kind, bad = roundtrip_oracle(r["spec"], scratch, "replay", r["states"])
            print("outcome:", kind, "\noracle:", bad or "property holds on this input")
            return 1 if bad else 0
        if r.get("kind") == "names":
            out = name_doc_observed(r["doc"], scratch, "replay")
            bad = None
            if out[0] != "ok":
                bad = f"sbml.write refuses: {out[1:]}"
            elif out[2]:
                bad = f"the written document uses identifiers that nothing declares: {out[2]}"
            elif not (r["doc"]["computed"] and (re.search(r"[^0-9a-zA-Z_]", r["doc"]["W"]) or re.search(r"__\d+__", r["doc"]["W"]))):
                bad = positional_roundtrip(r["doc"], scratch, out[3])
            print("oracle:", bad or "property holds on this input")
            return 1 if bad else 0
        if r.get("kind") == "session":
            if r.get("default_settings"):
                res = run_default_settings([r["steps"]], scratch)[0]
                kind, bad = res[0], res[1]
            else:
                kind, bad, _at = session_oracle(r["steps"], scratch, "replay")
            print("outcome:", kind, "\noracle:", bad or "property holds on this input")
            return 1 if bad else 0
        if r.get("kind") == "id":
            from mxlpy.sbml._export import _convert_id_to_sbml

            got = _convert_id_to_sbml(id_=r["name"], prefix=r["prefix"])
            print("got:", got)
            if r.get("legal"):
                print("legal SBML SId:", bool(SID_RE.fullmatch(got)))
                return 0 if SID_RE.fullmatch(got) else 1
            return 1 if got != r["name"] else 0
        if r.get("kind") == "unames":
            bad = unicode_doc_oracle(r["doc"], scratch, "replay")
            print("oracle:", bad or "property holds on this input")
            return 1 if bad and bad != "inconclusive" else 0
        print("nothing to replay:", rep.get("what"))
        return 1
    finally:
        sys.path.remove(str(scratch))
        shutil.rmtree(scratch, ignore_errors=True)
