"""C04 -- continued simulation: absolute increasing time axis, piecewise-exact states.  See harness/c04_sim.py."""

from __future__ import annotations

import json

from harness import c04_sim as S
from harness import common
from harness.common import Run

AREA = S.AREA
PROPS = "PropsC04.v"
PROP = "C04"


def gen() -> dict[str, str]:
    return S.gen()


def histories(run: Run) -> list[dict]:
    thorough = run.tier == "thorough"
    rng = common.rng_for(run.seed, "c04")
    hs: list[dict] = list(S.CORPUS_C04)
    n_exact, n_scipy, n_tdep = (2600, 900, 300) if thorough else (420, 160, 60)
    vw = {"view": 7}  # reading a view of get_result() is one of the operations of a C04 history
    for _ in range(n_exact):
        hs.append(S.gen_history(rng, "exact", 6, weights=vw))
    for _ in range(n_scipy):
        hs.append(S.gen_history(rng, "scipy", 5, weights=vw))
    for _ in range(n_tdep):
        hs.append(S.gen_history(rng, "tdep", 5, weights=vw))
    # structured families (see the generators): override after a steady-state run, tiny gaps at large absolute time,
    # clear_results after an override with rates reading `time`, ..., clear_results after a FAILED run
    m = 5 if thorough else 1
    for fam, plan in (
        (S.gen_steady_override, (("exact", 16), ("scipy", 24))),
        (S.gen_large_time, (("exact", 24), ("scipy", 12))),
        (S.gen_clear_after_override, (("exact", 24), ("tdep", 16))),
        (S.gen_override_steady, (("exact", 20), ("scipy", 16))),
        (S.gen_view_between, (("exact", 24), ("scipy", 12), ("tdep", 12))),
        # a run that fails ; clear_results ; a fresh run (appended LAST: the stream of the families above is unchanged)
        (S.gen_clear_after_failure, (("exact", 28), ("scipy", 8))),
    ):
        for mode, n in plan:
            for _ in range(n * m):
                hs.append(fam(rng, mode))
    if thorough:
        hs += S.enum_histories(rng)
    return hs


def check(run: Run) -> None:
    facts = gen()
    run.coverage["gen_facts"] = facts
    run.rule = (
        "histories of 1-6 Simulator operations (simulate / time course / protocol / protocol time course / steady state / "
        "update_parameter(s) / update_variable(s) / clear_results) with ~20% illegal requests (end not later than reached, "
        "overlapping, unsorted or repeating time arrays, steps=0), times multiples of 1/8, on the real Simulator + real Scipy class "
        "(exact stand-in solver: x'=k*y+a*time, y'=c; real scipy: x'=-k*x, y'=k*x-c*y and the time-dependent x'=-k*time*x, "
        "y'=c*time-k*y); ~15% of the time arrays are caller-owned float64 ndarrays, some handed to several calls (must not be "
        "modified); plus three structured families: steady-state run ; override of ONE variable ; continuation -- tiny gaps "
        "(2^-7..2^-9) after the time reached at absolute times 512..4096, also in shifted time after an override -- "
        "simulate ; override ; clear_results ; simulate with rates reading time -- simulate(T) ; override ; steady-state run "
        "[; override ; continuation] with T up to 400 (the row belongs at T + n*100 in absolute time) -- views of get_result() "
        "(.variables / .fluxes / get_right_hand_side / get_producers / get_consumers / get_combined / get_args / raw variables, one "
        "or two per result object) read between continuations recorded under different parameter values (operation `view`, "
        "weight 7/103 in the random histories too): nothing the simulator holds and nothing the next segment runs with may "
        "change -- a run that FAILS (a steady-state search that cannot succeed: NoSteadyState, exact stand-in and real solver; a "
        "continuation while the stand-in solver reports failure: IntegrationFailure) ; [calls on the failed simulator] ; "
        "clear_results ; continuations [; an illegal end]: the cleared simulator is a new one; non-trivial = at least two operations "
        "of which one continues an earlier result, overrides a variable, clears, or is refused; distinct by content"
    )
    proofs_ok = run.check_proofs(AREA, PROPS)
    run.assumptions += S.ASSUMPTIONS
    S.run_all(run, PROP, histories(run), proofs_ok)


def replay(rep: dict) -> int:
    return S.replay(rep, PROP)
