"""C04 -- continued simulation: absolute increasing time axis, piecewise-exact states.  See harness/c04_sim.py."""

from __future__ import annotations

import json

from harness import c04_sim as S
from harness import common
from harness.common import Run

AREA = S.AREA
PROPS = "PropsC04.v"
PROP = "C04"


def gen() -> dict[str, str]:
    return S.gen()


def histories(run: Run) -> list[dict]:
    thorough = run.tier == "thorough"
    rng = common.rng_for(run.seed, "c04")
    hs: list[dict] = list(S.CORPUS_C04)
    n_exact, n_scipy = (2600, 900) if thorough else (420, 160)
    for _ in range(n_exact):
        hs.append(S.gen_history(rng, "exact", 6))
    for _ in range(n_scipy):
        hs.append(S.gen_history(rng, "scipy", 5))
    if thorough:
        hs += S.enum_histories(rng)
    return hs


def check(run: Run) -> None:
    facts = gen()
    run.coverage["gen_facts"] = facts
    run.rule = (
        "histories of 1-6 Simulator operations (simulate / time course / protocol / protocol time course / steady state / "
        "update_parameter(s) / update_variable(s) / clear_results) with ~20% illegal requests (end not later than reached, "
        "overlapping, unsorted or repeating time arrays, steps=0), times multiples of 1/8, on the real Simulator + real Scipy class "
        "(exact stand-in solver: x'=k*y+a*time, y'=c; real scipy: x'=-k*x, y'=k*x-c*y); non-trivial = at least two operations "
        "of which one continues an earlier result, overrides a variable, clears, or is refused; distinct by content"
    )
    proofs_ok = run.check_proofs(AREA, PROPS)
    run.assumptions += S.ASSUMPTIONS
    S.run_all(run, PROP, histories(run), proofs_ok)


def replay(rep: dict) -> int:
    return S.replay(rep, PROP)
