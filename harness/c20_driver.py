"""C20 -- implementation driver pieces (a REAL module file: the rate functions must have source).

* tiny kinetic model family (constant-rate and mass-action reactions) built through the public
  Model API from a plain `spec`;
* `ExactEuler`: an integrator handed to the real code through its public `integrator=` argument.
  One explicit Euler step per requested interval; with small dyadic values every intermediate is
  exactly representable in binary64, so the fit plumbing can be compared EXACTLY with the Coq model
  (coq/fit/FitModel.v mirrors this integrator: `euler_through`, `iter_euler`);
* `FailingIntegrator`: every integration fails (exercises the `case _: return inf` branch);
* deterministic probe minimisers (named / positional) for the exact wrapper correspondence.
"""

from __future__ import annotations

from fractions import Fraction
from typing import Any

import numpy as np


def c20_const(k):
    return k


def c20_ma(k, s):
    return k * s


def nm(i: int) -> str:
    return f"n{int(i):02d}"


def num(name: str) -> int:
    return int(name[1:])


# spec = {"pars": [(id, value)], "vars": [(id, value)], "rxns": [(id, "const"|"ma", par_id, var_id|None, [(var_id, coef)])]}


def build_model(spec: dict):
    from mxlpy import Model

    m = Model()
    for i, v in spec["vars"]:
        m.add_variable(nm(i), float(v))
    m.add_parameters({nm(i): float(v) for i, v in spec["pars"]})
    for rid, kind, p, x, st in spec["rxns"]:
        if kind == "const":
            m.add_reaction(nm(rid), fn=c20_const, args=[nm(p)], stoichiometry={nm(v): float(c) for v, c in st})
        else:
            m.add_reaction(nm(rid), fn=c20_ma, args=[nm(p), nm(x)], stoichiometry={nm(v): float(c) for v, c in st})
    return m


def model_content(m) -> dict[str, Any]:
    """Observable content of a model: parameter values and variable initial values (exact floats)."""
    pars = {k: p.value for k, p in m.get_raw_parameters(as_copy=False).items()}
    vs = {k: v.initial_value for k, v in m.get_raw_variables(as_copy=False).items()}
    return {"pars": pars, "vars": vs, "rxns": sorted(m.get_reaction_names())}


class ExactEuler:
    """One explicit Euler step per requested interval (exact on small dyadic inputs)."""

    STEADY_STEPS = 4
    STEADY_H = 0.5

    def __init__(self, rhs, y0, jacobian=None) -> None:  # noqa: ANN001, ARG002
        self.rhs = rhs
        self.t0 = 0.0
        self.y0 = np.array(y0, dtype=float)
        self._y0_orig = np.array(y0, dtype=float)

    def reset(self) -> None:
        self.t0 = 0.0
        self.y0 = self._y0_orig.copy()

    def _through(self, pts):
        from mxlpy.integrators.abstract import TimeCourse
        from mxlpy.types import Result

        pts = np.array(pts, dtype=float)
        if pts[0] != self.t0:
            pts = np.insert(pts, 0, self.t0)
        ys = [np.array(self.y0, dtype=float)]
        t, y = float(pts[0]), np.array(self.y0, dtype=float)
        for p in pts[1:]:
            d = np.array(self.rhs(t, y), dtype=float)
            y = y + (float(p) - t) * d
            t = float(p)
            ys.append(y)
        self.t0, self.y0 = t, y
        return Result(TimeCourse(time=np.array(pts, dtype=float), values=np.array(ys, dtype=float)))

    def integrate(self, *, t_end, steps=None):  # noqa: ANN001
        n = 100 if steps is None else steps + 1
        return self._through(np.linspace(self.t0, t_end, n, dtype=float))

    def integrate_time_course(self, *, time_points):  # noqa: ANN001
        return self._through(time_points)

    def integrate_to_steady_state(self, *, tolerance, rel_norm):  # noqa: ANN001, ARG002
        from mxlpy.integrators.abstract import TimeCourse
        from mxlpy.types import Result

        self.reset()
        t, y = 0.0, np.array(self.y0, dtype=float)
        for _ in range(self.STEADY_STEPS):
            y = y + self.STEADY_H * np.array(self.rhs(t, y), dtype=float)
            t += self.STEADY_H
        return Result(TimeCourse(time=np.array([t], dtype=float), values=np.array([y], dtype=float)))


class FailingIntegrator(ExactEuler):
    def _through(self, pts):  # noqa: ANN001, ARG002
        from mxlpy.types import IntegrationFailure, Result

        return Result(IntegrationFailure())

    def integrate_to_steady_state(self, *, tolerance, rel_norm):  # noqa: ANN001, ARG002
        from mxlpy.types import NoSteadyState, Result

        return Result(NoSteadyState())


# ---------------------------------------------------------------------------------------
# deterministic minimisers
# ---------------------------------------------------------------------------------------


def probe_candidates(p0: dict[str, float]) -> list[dict[str, float]]:
    cands = [dict(p0)]
    for k in p0:
        for f in (2.0, 0.5):
            c = dict(p0)
            c[k] = p0[k] * f
            cands.append(c)
    return cands


def probe_minimizer(residual_fn, p0, bounds):  # noqa: ANN001, ARG001
    """Evaluates p0 and p0 with each coordinate doubled / halved; answers the best finite one."""
    from mxlpy.minimizers.abstract import OptimisationState
    from mxlpy.types import FitFailure, Result

    best = None
    for c in probe_candidates(p0):
        l = float(residual_fn(c))
        if np.isfinite(l) and (best is None or l < best[1]):
            best = (c, l)
    if best is None:
        return Result(FitFailure(None))
    return Result(OptimisationState(parameters=best[0], residual=best[1]))


class _Res:
    def __init__(self, success, x, fun, message="probe") -> None:  # noqa: ANN001
        self.success, self.x, self.fun, self.message = success, x, fun, message


# the local methods of scipy.optimize.minimize that IGNORE `bounds=` (RuntimeWarning "Method ... cannot handle
# constraints or bounds"); validated against the installed SciPy by harness/c20.py::scipy_method_table_check
SCIPY_IGNORES_BOUNDS = frozenset({"CG", "BFGS", "Newton-CG", "dogleg", "trust-ncg", "trust-exact", "trust-krylov"})


def positional_probe(fun, x0, bounds=None, method=None, tol=None):  # noqa: ANN001, ARG001
    """Stand-in for scipy.optimize.minimize (same calling convention as used by LocalScipyMinimizer).
    Like a box-constrained optimiser it projects every candidate (the start first) into the box `bounds`
    (one (lo, hi) per POSITION of x0) before evaluating it; min / max are exact in binary64.
    For a `method` that ignores bounds in SciPy (CG, BFGS, ...) the box is ignored here too: nothing is projected
    (mirrored by coq/fit/FitScipyExec.v `vprobe_m`)."""
    if method in SCIPY_IGNORES_BOUNDS:
        bounds = None
    x0 = [float(v) for v in x0]
    cands = [list(x0)]
    for i in range(len(x0)):
        for f in (2.0, 0.5):
            c = list(x0)
            c[i] = x0[i] * f
            cands.append(c)
    if bounds is not None:
        box = [(float(lo), float(hi)) for lo, hi in bounds]
        # zip without strict: a box of another length truncates (mirrored by the Coq model's `combine`)
        cands = [[min(max(v, lo), hi) for v, (lo, hi) in zip(c, box)] for c in cands]
    best = None
    for c in cands:
        l = float(fun(np.array(c, dtype=float)))
        if np.isfinite(l) and (best is None or l < best[1]):
            best = (c, l)
    if best is None:
        return _Res(False, np.array([]), float("nan"))
    return _Res(True, np.array(best[0], dtype=float), best[1])


# ---------------------------------------------------------------------------------------
# independent exact evaluation (oracle side; shares nothing with the Coq model)
# ---------------------------------------------------------------------------------------


def frac_rhs(spec: dict, pars: dict[int, Fraction], y: dict[int, Fraction]) -> tuple[dict[int, Fraction], dict[int, Fraction]]:
    flux = {}
    for rid, kind, p, x, _st in spec["rxns"]:
        flux[rid] = pars[p] if kind == "const" else pars[p] * y[x]
    d = {v: Fraction(0) for v in y}
    for rid, _k, _p, _x, st in spec["rxns"]:
        for v, c in st:
            d[v] += Fraction(c) * flux[rid]
    return d, flux


def frac_euler_rows(spec: dict, segments: list[tuple[dict[int, Fraction], list[Fraction]]], y0: dict[int, Fraction]):
    """segments = [(parameter values, points to step through)], starting at t = 0.
    -> rows [(t, {id: value}) ...] including the row at t = 0 (computed with the first segment's parameters)."""
    t, y = Fraction(0), dict(y0)
    rows = []
    first = True
    for pars, pts in segments:
        if first:
            _d, fl = frac_rhs(spec, pars, y)
            rows.append((t, {**y, **fl}))
            first = False
        for p in pts:
            d, _ = frac_rhs(spec, pars, y)
            y = {v: y[v] + (p - t) * d[v] for v in y}
            t = p
            _d, fl = frac_rhs(spec, pars, y)
            rows.append((t, {**y, **fl}))
    return rows
