"""C06 corpus: hand-written functions (a real module file, so inspect.getsource works) that are run
FIRST on every check.  Each one made the unrepaired translator return a WRONG expression (or is a
shape next to one); the oracle decides them like any generated program.  WITNESSES lists
(function name, model argument names or None) pairs."""

K = 2.5


def swap(a, b):
    return a - b


def inner(x, y):
    return x - 2 * y


def nested_swap(a, b):
    return inner(b, a) + inner(a, a)


def eqf(a, b):
    if a == b:
        return 1
    return 0


def nef(a, b):
    return a if a != b else b + 1


def chained_eq(a, b):
    return 1 if 0 <= a == b else 0


def leak(a):
    b = 0
    if a > 1:
        b = a
    return b


def after_else(a):
    if a > 1:
        b = a
    else:
        b = a**2
    return b + 1


def after_else2(a):
    if a > 1:
        b = a
    else:
        b = a**2
    c = b * 2
    return c


def if_then_more(a):
    b = a
    if a > 1:
        b = 2 * a
    c = b + 1
    return c


def nested_fallthrough(a, b):
    if a > 0:
        if b > 0:
            return 1
    return 3


def seq_if(a, b):
    c = 0
    if a > 0:
        c = c + 1
    if b > 0:
        c = c + 2
    return c


def tuple_swap(a, b):
    a, b = b, a
    return a - b


def aug(a):
    b = a
    b += 1
    return b


def while_loop(a):
    while a > 0:
        a = a - 1
    return a


def ann(a):
    b: float = a * K
    return b


def elif_assign(a):
    if a > 1:
        b = a
    elif a > 0:
        b = 2
    else:
        b = 3
    return b


def early(a):
    if a > 0:
        return a
    b = a * a
    return b


def cond_single_return(a):
    if a > 1:
        b = a
    else:
        b = a**2
    return b


def guard_then_reassign(x, k):
    if x > 1:
        if k > 0:
            return k
    x = x * 2
    return x + 1


def pass_then_reassign(x):
    if x > 1:
        pass
    x = x * 2
    return x + 1


def two_guards_then_reassign(x, k):
    if x > 1:
        if k > 0:
            return k
    if k > 2:
        pass
    else:
        x = x + k
    x = x * 2
    k = k + x
    return x + k


def uses_k(a, b):
    return a * K - b


def uses_k_branch(a):
    if a > K:
        return a - K
    return K


# functions reading the module constant K: translated again after K is rebound (same interpreter)
REBIND = [("uses_k", None), ("uses_k", ["b", "a"]), ("uses_k_branch", None)]


def mod_common_factor(a):
    return (-a) % (2 * a)


def diff2(a, b):
    return a - b


def outer_expr(a, b):
    # every argument mentions the helper's own parameter names crosswise and none is a bare name (seeded C06-2:
    # simultaneous substitution only when a bare model name collides)
    return diff2(b * 2, a + 1)


def hill3(s, k, n):
    return s**n / (k**n + s**n)


def outer_expr3(s, k, n):
    return hill3(k * s, s + 1.0, n)


def saturation(s, n=2.0):
    return s**n / (1.0 + s**n)


def hill(s, vmax):
    return vmax * saturation(s)  # relies on the default: must be refused, or translated with n = 2.0


def hill_explicit(s, vmax):
    return vmax * saturation(s, 2.0)


def kwonly(s, *, n=2.0):
    return s * n


def call_kwonly(s):
    return kwonly(s)


def varargs(s, *rest):
    return s * 2


def call_varargs(s):
    return varargs(s)


def call_varargs_more(s):
    return varargs(s, 5.0)


def two_defaults(a, b=3.0, c=0.5):
    return a * b - c


def call_two_defaults(a, b):
    return two_defaults(a) + two_defaults(a, b) + two_defaults(b, a, 2.0)


def allopt(n=2.0):
    return n * 3


def caller0(a):
    return a + allopt()  # zero arguments: the shipped code skips the strict zip and leaves `n` in the expression


def no_return(a, b):
    b = b
    pass  # falls off its end: CPython returns None; the translator's fallback says "b"


def compares_none(a, b):
    if no_return(1, 3.0) == b:  # None == b is False for every number b
        return a * 2
    return b


# ---- keyword arguments of nested calls (seeded C06-7: keyword values appended positionally in written order) ----
def mm3(s, km, vmax):
    return vmax * s / (km + s)


def kw_param_order(s, k, v):
    return mm3(s, km=k, vmax=v)


def kw_other_order(s, k, v):
    return mm3(s, vmax=v, km=k)  # CPython binds by name: mm3(s, k, v)


def kw_only_call(s, k, v):
    return mm3(vmax=v, s=s, km=k)


def kw_with_expressions(s, k, v):
    if s > 1:
        return mm3(s, vmax=2 * v, km=k + 1)
    return mm3(s, km=k, vmax=v)


def kw_in_assignment(s, k, v):
    r = mm3(km=k, vmax=v, s=s)
    return r + diff2(b=s, a=k)


# ---- a local named like a module constant, bound from something without an expression (seeded C06-6: the None
# is stored and the later read falls through to the module constant) ----
vmax = 10.0
gain = 0.5
order = 3.0


class Settings:
    order = 2  # an int, not a float: not a translatable constant


def _damped(x):
    for _ in range(3):  # a loop: outside the supported subset
        x = x / 2
    return x


def mm_rounded(s, e0, kcat):
    vmax = round(kcat * e0, 6)  # shadows the module constant; round is no function of the module
    return vmax * s / (1.0 + s)


def shadow_abs(s, e0):
    vmax = abs(e0 * s)
    return vmax * s / (1.0 + s)


def shadow_default(s):
    vmax = saturation(s)  # relies on the default: the nested translation returns None
    return vmax * s


def feedback(s, p):
    gain = _damped(p)  # the helper is untranslatable
    if s > 1:
        return gain * s
    return gain


def power_law(s, k):
    order = Settings.order  # the attribute is an int
    return k * s**order


def shadow_tuple(s, e0, kcat):
    vmax, half = round(kcat * e0, 6), 0.5  # the tuple form
    return vmax * s / (half + s)


def shadow_control_constant(s):
    return vmax * s / (1.0 + s)  # the module constant really is what Python uses here


def shadow_control_local(s, e0, kcat):
    vmax = kcat * e0  # a translatable local shadows the module constant
    return vmax * s / (1.0 + s)


# ---- function-local imports that shadow module-level names (seeded C06-9: the operands of the
# `members-of-the-module | local imports` merges swapped, so the module-level binding wins) ----
from harness.c06_libfast import consts, scale  # noqa: E402


def scope_global_fn(s):
    return scale(s)


def scope_local_fn(s):
    from harness.c06_libslow import scale

    return scale(s)  # CPython calls the locally imported function: 3 s


def scope_local_const(s):
    from harness.c06_libslow import consts

    return consts.K * s


def scope_local_module_fn(s):
    from harness.c06_libslow import consts

    return consts.sat(s)


def scope_global_const(s):
    return consts.K * s + consts.sat(s)


def scope_local_in_branch(s, k):
    if s > 1:
        from harness.c06_libslow import scale

        return scale(s) + k
    return k * s


def scope_helper_with_import(x):
    from harness.c06_libslow import scale

    return scale(x) + 1.0


def scope_calls_helper(s):
    return scale(s) + scope_helper_with_import(s)  # the caller's scale is the module-level one


def scope_alias_unused(s):
    from harness.c06_libslow import scale as sc  # noqa: F401

    return scale(s)  # Python: the module-level scale (finding local-import-alias-ignored: translated with slow.scale)


def scope_alias_used(s):
    from harness.c06_libslow import scale as sc

    return sc(s) + scale(s)


def scope_alias_module(s):
    import harness.c06_constsslow as consts

    return consts.K * s


# ---- lambdas (seeded C06-10: the first lambda of the source statement with the same parameter names is translated) ----
lam_single = lambda s, k: k * s  # noqa: E731
lam_fwd_named, lam_bwd_named = (lambda a, kf: kf * a), (lambda b, kr: kr * b / (1.0 + b))
RATES = {"fwd": lambda s, k: k * s, "bwd": lambda s, k: k * s / (1.0 + s)}
lam_rates_fwd, lam_rates_bwd = RATES["fwd"], RATES["bwd"]
NESTED = [[lambda s: 2.0 * s], lambda s: s + 1.0]  # ast.walk finds the SECOND lambda first
lam_nested_first, lam_nested_second = NESTED[0][0], NESTED[1]


def rate_with_alt(s, k, alt=lambda s, k: s + k):  # noqa: ARG001
    return k * s


lam_on_def_line = rate_with_alt.__defaults__[0]  # its source statement is the def (finding lambda-on-def-line)


# witnesses of recorded (unrepaired) findings: id -> (function, model_args)
KNOWN = {
    "sympy-mod-common-factor": ("mod_common_factor", None),
    "fallthrough-callee-compared": ("compares_none", None),
    "zero-arg-call-of-defaulted-helper": ("caller0", None),
    "local-import-alias-ignored": ("scope_alias_unused", None),
    "lambda-on-def-line": ("lam_on_def_line", None),
}

# further witnesses of a recorded finding (same guard): run as ordinary witnesses once the finding is no longer recorded
KNOWN_MORE = {"local-import-alias-ignored": [("scope_alias_module", ["x"]), ("scope_alias_module", None)]}

WITNESSES = [
    ("swap", ["b", "a"]),
    ("swap", ["a", "b"]),
    ("inner", ["y", "x"]),
    ("nested_swap", ["b", "a"]),
    ("nested_swap", ["a", "b"]),
    ("eqf", None),
    ("nef", None),
    ("chained_eq", ["b", "a"]),
    ("leak", None),
    ("after_else", None),
    ("after_else2", None),
    ("if_then_more", ["s"]),
    ("nested_fallthrough", None),
    ("nested_fallthrough", ["b", "a"]),
    ("seq_if", None),
    ("tuple_swap", None),
    ("aug", None),
    ("while_loop", None),
    ("ann", None),
    ("elif_assign", None),
    ("early", None),
    ("cond_single_return", ["x"]),
    ("guard_then_reassign", None),
    ("guard_then_reassign", ["k", "x"]),
    ("pass_then_reassign", None),
    ("two_guards_then_reassign", None),
    ("outer_expr", None),
    ("outer_expr", ["b", "a"]),
    ("outer_expr3", None),
    ("hill", None),
    ("hill", ["vmax", "s"]),
    ("hill", ["n", "vmax"]),
    ("hill_explicit", ["vmax", "s"]),
    ("call_kwonly", None),
    ("call_varargs", ["x"]),
    ("call_varargs_more", None),
    ("call_two_defaults", None),
    ("call_two_defaults", ["b", "a"]),
    ("saturation", ["n", "s"]),
    ("kw_param_order", None),
    ("kw_other_order", None),
    ("kw_other_order", ["v", "s", "k"]),
    ("kw_only_call", ["x", "y", "z"]),
    ("kw_with_expressions", None),
    ("kw_in_assignment", ["k", "s", "v"]),
    ("mm_rounded", None),
    ("mm_rounded", ["kcat", "s", "e0"]),
    ("shadow_abs", None),
    ("shadow_default", ["x"]),
    ("feedback", None),
    ("power_law", None),
    ("shadow_tuple", None),
    ("shadow_control_constant", None),
    ("shadow_control_local", ["e0", "kcat", "s"]),
    ("scope_global_fn", None),
    ("scope_local_fn", None),
    ("scope_local_fn", ["x"]),
    ("scope_local_const", None),
    ("scope_local_module_fn", ["x"]),
    ("scope_global_const", None),
    ("scope_local_in_branch", ["k", "s"]),
    ("scope_calls_helper", None),
    ("scope_alias_used", None),
    ("lam_single", ["S", "K"]),
    ("lam_fwd_named", None),
    ("lam_bwd_named", ["B", "KR"]),
    ("lam_rates_fwd", ["S", "K"]),
    ("lam_rates_bwd", ["S", "K"]),
    ("lam_rates_bwd", None),
    ("lam_nested_first", ["x"]),
    ("lam_nested_second", None),
]
