"""C06 corpus: hand-written functions (a real module file, so inspect.getsource works) that are run
FIRST on every check.  Each one made the unrepaired translator return a WRONG expression (or is a
shape next to one); the oracle decides them like any generated program.  WITNESSES lists
(function name, model argument names or None) pairs."""

K = 2.5


def swap(a, b):
    return a - b


def inner(x, y):
    return x - 2 * y


def nested_swap(a, b):
    return inner(b, a) + inner(a, a)


def eqf(a, b):
    if a == b:
        return 1
    return 0


def nef(a, b):
    return a if a != b else b + 1


def chained_eq(a, b):
    return 1 if 0 <= a == b else 0


def leak(a):
    b = 0
    if a > 1:
        b = a
    return b


def after_else(a):
    if a > 1:
        b = a
    else:
        b = a**2
    return b + 1


def after_else2(a):
    if a > 1:
        b = a
    else:
        b = a**2
    c = b * 2
    return c


def if_then_more(a):
    b = a
    if a > 1:
        b = 2 * a
    c = b + 1
    return c


def nested_fallthrough(a, b):
    if a > 0:
        if b > 0:
            return 1
    return 3


def seq_if(a, b):
    c = 0
    if a > 0:
        c = c + 1
    if b > 0:
        c = c + 2
    return c


def tuple_swap(a, b):
    a, b = b, a
    return a - b


def aug(a):
    b = a
    b += 1
    return b


def while_loop(a):
    while a > 0:
        a = a - 1
    return a


def ann(a):
    b: float = a * K
    return b


def elif_assign(a):
    if a > 1:
        b = a
    elif a > 0:
        b = 2
    else:
        b = 3
    return b


def early(a):
    if a > 0:
        return a
    b = a * a
    return b


def cond_single_return(a):
    if a > 1:
        b = a
    else:
        b = a**2
    return b


def guard_then_reassign(x, k):
    if x > 1:
        if k > 0:
            return k
    x = x * 2
    return x + 1


def pass_then_reassign(x):
    if x > 1:
        pass
    x = x * 2
    return x + 1


def two_guards_then_reassign(x, k):
    if x > 1:
        if k > 0:
            return k
    if k > 2:
        pass
    else:
        x = x + k
    x = x * 2
    k = k + x
    return x + k


def uses_k(a, b):
    return a * K - b


def uses_k_branch(a):
    if a > K:
        return a - K
    return K


# functions reading the module constant K: translated again after K is rebound (same interpreter)
REBIND = [("uses_k", None), ("uses_k", ["b", "a"]), ("uses_k_branch", None)]


def mod_common_factor(a):
    return (-a) % (2 * a)


# witnesses of recorded (unrepaired) findings: id -> (function, model_args)
KNOWN = {"sympy-mod-common-factor": ("mod_common_factor", None)}

WITNESSES = [
    ("swap", ["b", "a"]),
    ("swap", ["a", "b"]),
    ("inner", ["y", "x"]),
    ("nested_swap", ["b", "a"]),
    ("nested_swap", ["a", "b"]),
    ("eqf", None),
    ("nef", None),
    ("chained_eq", ["b", "a"]),
    ("leak", None),
    ("after_else", None),
    ("after_else2", None),
    ("if_then_more", ["s"]),
    ("nested_fallthrough", None),
    ("nested_fallthrough", ["b", "a"]),
    ("seq_if", None),
    ("tuple_swap", None),
    ("aug", None),
    ("while_loop", None),
    ("ann", None),
    ("elif_assign", None),
    ("early", None),
    ("cond_single_return", ["x"]),
    ("guard_then_reassign", None),
    ("guard_then_reassign", ["k", "x"]),
    ("pass_then_reassign", None),
    ("two_guards_then_reassign", None),
]
