"""C17 helper: abstract SBML documents -> SBML L3V2 files (python-libsbml) and their meaning.

An abstract document is a plain dict (JSON-able):

  {"compartments": [{"id","size"}],                       (constant compartments)
   "species":      [{"id","comp","init","kind"}],         kind: "conc" (initialConcentration, hasOnlySubstanceUnits=false)
                                                                | "amount" (initialAmount, hasOnlySubstanceUnits=true)
                                                                | "boundary" (conc, boundaryCondition=true)
   "parameters":   [{"id","value"}],                      (constant unless target of an assignment rule)
   "functions":    [{"id","args":[..],"math":E}],
   "rules":        [{"var","math":E}],                    assignment rules (on parameters)
   "inits":        [{"sym","math":E}],                    initial assignments (parameters / species / compartments)
   "reactions":    [{"id","reactants":[[sp,st]],"products":[[sp,st]],"math":E}]}

Expressions E are nested lists:
  ["num", p, q] (p/q, q a power of two)   ["sym", id]   ["add"|"sub"|"mul"|"div", a, b]   ["neg", a]
  ["pow", a, n] (n a small non-negative integer)          ["call", f, [args]]
  ["pw", v1, ["lt"|"le"|"gt"|"ge"|"eq"|"ne", a, b], v2]  (piecewise v1 if cond else v2; eq/ne since round 3)
  ["exp"|"ln"|"sin"|"cos"|"sqrt"|"abs", a]

`meaning(doc)` is the INDEPENDENT reading of the document (SBML L3 semantics of this subset); it
shares no code with mxlpy, pysbml or the Coq model:  values are `fractions.Fraction` while only
field operations occur, floats after a transcendental function was applied.
"""

from __future__ import annotations

import math
from fractions import Fraction
from pathlib import Path
from typing import Any

Num = Any  # Fraction | float


# ---------------------------------------------------------------------------------------
# writer
# ---------------------------------------------------------------------------------------


def _ast(e, libsbml):
    k = e[0]
    A = libsbml.ASTNode
    if k == "num":
        n = A(libsbml.AST_REAL)
        n.setValue(float(Fraction(e[1], e[2])))
        return n
    if k == "sym":
        n = A(libsbml.AST_NAME)
        n.setName(e[1])
        return n
    binop = {"add": libsbml.AST_PLUS, "sub": libsbml.AST_MINUS, "mul": libsbml.AST_TIMES, "div": libsbml.AST_DIVIDE}
    if k in binop:
        n = A(binop[k])
        n.addChild(_ast(e[1], libsbml))
        n.addChild(_ast(e[2], libsbml))
        return n
    if k == "neg":
        n = A(libsbml.AST_MINUS)
        n.addChild(_ast(e[1], libsbml))
        return n
    if k == "pow":
        n = A(libsbml.AST_POWER)
        n.addChild(_ast(e[1], libsbml))
        c = A(libsbml.AST_INTEGER)
        c.setValue(int(e[2]))
        n.addChild(c)
        return n
    if k == "call":
        n = A(libsbml.AST_FUNCTION)
        n.setName(e[1])
        for a in e[2]:
            n.addChild(_ast(a, libsbml))
        return n
    if k == "pw":
        n = A(libsbml.AST_FUNCTION_PIECEWISE)
        n.addChild(_ast(e[1], libsbml))
        rel = {"lt": libsbml.AST_RELATIONAL_LT, "le": libsbml.AST_RELATIONAL_LEQ, "gt": libsbml.AST_RELATIONAL_GT, "ge": libsbml.AST_RELATIONAL_GEQ,
               "eq": libsbml.AST_RELATIONAL_EQ, "ne": libsbml.AST_RELATIONAL_NEQ}
        c = A(rel[e[2][0]])
        c.addChild(_ast(e[2][1], libsbml))
        c.addChild(_ast(e[2][2], libsbml))
        n.addChild(c)
        n.addChild(_ast(e[3], libsbml))
        return n
    un = {
        "exp": libsbml.AST_FUNCTION_EXP,
        "ln": libsbml.AST_FUNCTION_LN,
        "sin": libsbml.AST_FUNCTION_SIN,
        "cos": libsbml.AST_FUNCTION_COS,
        "sqrt": libsbml.AST_FUNCTION_ROOT,
        "abs": libsbml.AST_FUNCTION_ABS,
    }
    if k in un:
        n = A(un[k])
        n.addChild(_ast(e[1], libsbml))
        return n
    raise ValueError(f"unknown expression node {k!r}")


def write_sbml(doc: dict, path: Path) -> None:
    import libsbml

    d = libsbml.SBMLDocument(3, 2)
    m = d.createModel()
    m.setId("verif_model")
    for c in doc.get("compartments", []):
        x = m.createCompartment()
        x.setId(c["id"])
        x.setSize(float(Fraction(*c["size"])))
        x.setConstant(True)
        x.setSpatialDimensions(3.0)
    for s in doc.get("species", []):
        x = m.createSpecies()
        x.setId(s["id"])
        x.setCompartment(s["comp"])
        v = float(Fraction(*s["init"]))
        if s["kind"] == "amount":
            x.setInitialAmount(v)
            x.setHasOnlySubstanceUnits(True)
        else:
            x.setInitialConcentration(v)
            x.setHasOnlySubstanceUnits(False)
        x.setBoundaryCondition(s["kind"] == "boundary")
        x.setConstant(False)
    rule_targets = {r["var"] for r in doc.get("rules", [])}
    for p in doc.get("parameters", []):
        x = m.createParameter()
        x.setId(p["id"])
        x.setValue(float(Fraction(*p["value"])))
        x.setConstant(p["id"] not in rule_targets)
    for f in doc.get("functions", []):
        x = m.createFunctionDefinition()
        x.setId(f["id"])
        lam = libsbml.ASTNode(libsbml.AST_LAMBDA)
        for a in f["args"]:
            b = libsbml.ASTNode(libsbml.AST_NAME)
            b.setName(a)
            lam.addChild(b)
        lam.addChild(_ast(f["math"], libsbml))
        x.setMath(lam)
    for r in doc.get("rules", []):
        x = m.createAssignmentRule()
        x.setVariable(r["var"])
        x.setMath(_ast(r["math"], libsbml))
    for i in doc.get("inits", []):
        x = m.createInitialAssignment()
        x.setSymbol(i["sym"])
        x.setMath(_ast(i["math"], libsbml))
    for r in doc.get("reactions", []):
        x = m.createReaction()
        x.setId(r["id"])
        x.setReversible(False)
        for sp, st in r["reactants"]:
            sr = x.createReactant()
            sr.setSpecies(sp)
            sr.setStoichiometry(float(Fraction(*st)))
            sr.setConstant(True)
        for sp, st in r["products"]:
            sr = x.createProduct()
            sr.setSpecies(sp)
            sr.setStoichiometry(float(Fraction(*st)))
            sr.setConstant(True)
        used = {sp for sp, _ in r["reactants"]} | {sp for sp, _ in r["products"]}
        species = {s["id"] for s in doc.get("species", [])}
        for sp in sorted((syms(r["math"], doc) & species) - used):
            mr = x.createModifier()
            mr.setSpecies(sp)
        kl = x.createKineticLaw()
        kl.setMath(_ast(r["math"], libsbml))
    path.parent.mkdir(parents=True, exist_ok=True)
    if not libsbml.writeSBMLToFile(d, str(path)):
        raise RuntimeError(f"libsbml could not write {path}")
    _full_precision(doc, path)


def _short(v: float) -> bool:
    """libsbml writes attribute values with 15 significant digits: does that text read back as v?"""
    return float("%.15g" % v) == v


def _full_precision(doc: dict, path: Path) -> None:
    """Numbers that need 16/17 digits are re-written with their repr (the file then SAYS that double); files
    whose numbers all print exactly with 15 digits (every document of the older streams) are left as libsbml
    wrote them."""
    import re

    sto = [float(Fraction(*st)) for r in doc.get("reactions", []) for sp, st in r["reactants"] + r["products"]]
    attrs: list[tuple[str, str, str, float]] = []
    for c in doc.get("compartments", []):
        attrs.append(("compartment", c["id"], "size", float(Fraction(*c["size"]))))
    for s in doc.get("species", []):
        attrs.append(("species", s["id"], "initialAmount" if s["kind"] == "amount" else "initialConcentration", float(Fraction(*s["init"]))))
    for p in doc.get("parameters", []):
        attrs.append(("parameter", p["id"], "value", float(Fraction(*p["value"]))))
    if all(_short(v) for v in sto) and all(_short(a[3]) for a in attrs):
        return
    text = path.read_text()
    it = iter(sto)
    n_seen = 0

    def sub_sto(m):  # noqa: ANN001, ANN202
        nonlocal n_seen
        n_seen += 1
        v = next(it)
        return m.group(0) if _short(v) else f'stoichiometry="{v!r}"'

    text = re.sub(r'stoichiometry="[^"]*"', sub_sto, text)
    if n_seen != len(sto):
        raise RuntimeError(f"{path}: {n_seen} stoichiometry attributes written, {len(sto)} expected")
    for tag, ident, attr, v in attrs:
        if _short(v):
            continue
        pat = re.compile(r"<" + tag + r'\b[^>]*\bid="' + re.escape(ident) + r'"[^>]*>')
        m = pat.search(text)
        if m is None:
            raise RuntimeError(f"{path}: element {tag} {ident} not found")
        new_tag, k = re.subn(r"\b" + attr + r'="[^"]*"', f'{attr}="{v!r}"', m.group(0))
        if k != 1:
            raise RuntimeError(f"{path}: attribute {attr} of {tag} {ident} not found")
        text = text[: m.start()] + new_tag + text[m.end() :]
    path.write_text(text)


def syms(e, doc: dict | None = None) -> set[str]:
    k = e[0]
    if k == "num":
        return set()
    if k == "sym":
        return {e[1]}
    if k == "call":
        out: set[str] = set()
        for a in e[2]:
            out |= syms(a, doc)
        return out
    if k == "pw":
        return syms(e[1], doc) | syms(e[2][1], doc) | syms(e[2][2], doc) | syms(e[3], doc)
    if k == "pow":
        return syms(e[1], doc)
    out = set()
    for a in e[1:]:
        out |= syms(a, doc)
    return out


# ---------------------------------------------------------------------------------------
# independent meaning
# ---------------------------------------------------------------------------------------


class Undefined(Exception):
    """the document's math is undefined at this state (division by zero, log of <= 0, ...)"""


def ev(e, env: dict[str, Num], fns: dict[str, tuple[list[str], Any]]) -> Num:
    k = e[0]
    if k == "num":
        return Fraction(e[1], e[2])
    if k == "sym":
        v = env[e[1]]
        return v() if callable(v) else v
    if k in ("add", "sub", "mul", "div"):
        a, b = ev(e[1], env, fns), ev(e[2], env, fns)
        if isinstance(a, float) or isinstance(b, float):
            a, b = float(a), float(b)
        if k == "add":
            return a + b
        if k == "sub":
            return a - b
        if k == "mul":
            return a * b
        if b == 0:
            raise Undefined("division by zero")
        return a / b
    if k == "neg":
        return -ev(e[1], env, fns)
    if k == "pow":
        a = ev(e[1], env, fns)
        return a ** int(e[2])
    if k == "call":
        params, body = fns[e[1]]
        vals = [ev(a, env, fns) for a in e[2]]
        if len(vals) != len(params):
            raise Undefined("arity")
        return ev(body, dict(zip(params, vals)), fns)
    if k == "pw":
        rel, a, b = e[2]
        x, y = ev(a, env, fns), ev(b, env, fns)
        # MathML eq / neq compare the two VALUES (no tolerance)
        c = {"lt": x < y, "le": x <= y, "gt": x > y, "ge": x >= y, "eq": x == y, "ne": x != y}[rel]
        return ev(e[1], env, fns) if c else ev(e[3], env, fns)
    a = ev(e[1], env, fns)
    if k == "abs":
        return abs(a)
    x = float(a)
    try:
        if k == "exp":
            return math.exp(x)
        if k == "ln":
            if x <= 0:
                raise Undefined("ln of non-positive")
            return math.log(x)
        if k == "sin":
            return math.sin(x)
        if k == "cos":
            return math.cos(x)
        if k == "sqrt":
            if x < 0:
                raise Undefined("sqrt of negative")
            return math.sqrt(x)
    except OverflowError as e2:
        raise Undefined("overflow") from e2
    raise ValueError(k)


class Meaning:
    """What the document says (SBML L3 semantics of the generated subset).

    Quantities: a "conc"/"boundary" species id denotes its concentration, an "amount" species id its
    amount.  `state` gives a value to every non-boundary species id (in those units).
    `values(state)` -> every id (species, parameters incl. rule-defined ones, compartments, reaction
    rates); `derivative(state)` -> d(id)/dt for every non-boundary species, in the units of the id:
       amount species:  sum_r  s_r * v_r          conc species:  (sum_r s_r * v_r) / size(comp)
    `initial()` -> the initial value of every species / parameter / compartment with initial
    assignments applied (they override the attribute values, evaluated at the initial state).
    """

    def __init__(self, doc: dict) -> None:
        self.doc = doc
        self.fns = {f["id"]: (list(f["args"]), f["math"]) for f in doc.get("functions", [])}
        self.rules = {r["var"]: r["math"] for r in doc.get("rules", [])}
        self.inits = {i["sym"]: i["math"] for i in doc.get("inits", [])}
        self.species = {s["id"]: s for s in doc.get("species", [])}

    def _lazy_env(self, base: dict[str, Num], extra_exprs: dict[str, Any]) -> dict[str, Any]:
        env: dict[str, Any] = dict(base)
        busy: set[str] = set()
        memo: dict[str, Num] = {}

        def thunk(name: str, e):  # noqa: ANN001
            def go():
                if name in memo:
                    return memo[name]
                if name in busy:
                    raise Undefined(f"cyclic definition of {name}")
                busy.add(name)
                try:
                    memo[name] = ev(e, env, self.fns)
                finally:
                    busy.discard(name)
                return memo[name]

            return go

        for n, e in extra_exprs.items():
            env[n] = thunk(n, e)
        return env

    def initial(self) -> dict[str, Num]:
        base: dict[str, Num] = {}
        for c in self.doc.get("compartments", []):
            base[c["id"]] = Fraction(*c["size"])
        for p in self.doc.get("parameters", []):
            base[p["id"]] = Fraction(*p["value"])
        for s in self.doc.get("species", []):
            base[s["id"]] = Fraction(*s["init"])
        exprs = dict(self.rules)
        exprs.update(self.inits)
        # SBML L3: a reaction id inside other math stands for the rate of that reaction
        for r in self.doc.get("reactions", []):
            exprs.setdefault(r["id"], r["math"])
        env = self._lazy_env(base, exprs)
        out = {}
        for n in base:
            v = env[n]
            out[n] = v() if callable(v) else v
        return out

    def values(self, state: dict[str, Num], consts: dict[str, Num] | None = None) -> dict[str, Num]:
        """All quantities at a state; constants (parameters, compartments, boundary species) take their
        initial values (initial assignments applied) unless overridden by `consts`."""
        init = self.initial() if consts is None else consts
        base = {k: v for k, v in init.items() if k not in self.rules}
        base.update(state)
        exprs = dict(self.rules)
        for r in self.doc.get("reactions", []):
            exprs[r["id"]] = r["math"]
        env = self._lazy_env(base, exprs)
        out = {}
        for n in env:
            v = env[n]
            out[n] = v() if callable(v) else v
        return out

    def derivative(self, state: dict[str, Num], consts: dict[str, Num] | None = None) -> dict[str, Num]:
        vals = self.values(state, consts)
        out: dict[str, Num] = {}
        for sid, s in self.species.items():
            if s["kind"] == "boundary":
                continue
            tot: Num = Fraction(0)
            for r in self.doc.get("reactions", []):
                rate = vals[r["id"]]
                for sp, st in r["reactants"]:
                    if sp == sid:
                        tot = tot - Fraction(*st) * rate
                for sp, st in r["products"]:
                    if sp == sid:
                        tot = tot + Fraction(*st) * rate
            if s["kind"] == "conc":
                size = vals[s["comp"]]
                if size == 0:
                    raise Undefined("zero compartment")
                tot = tot / size
            out[sid] = tot
        return out
