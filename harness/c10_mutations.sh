#!/bin/bash
# C10 mutation self-test.  usage: harness/c10_mutations.sh snapshot|repaired   (log: work/c10_mut_<mode>.log)
#   snapshot  base = copy of /repo; switches as delivered (snapshot); mutations M1..M11 of the anchored mechanism
#   repaired  base = copy of /repo + fixes/C10-prodcons-per-segment.diff + fixes/C10-segment-parameters-keep-assignments.diff,
#             both switches flipped to `repaired` for the duration of the script (flipped back at the end);
#             mutations R1..R8 of the REPAIRED code
# Never run while another ./check C10 runs (shared Gen file, corr dir and switch).
MODE=${1:-snapshot}
BASE=/var/tmp/mxlpy-C10-mb
M=/var/tmp/mxlpy-C10-m
cd /verif || exit 2
rm -rf $BASE $M; cp -a /repo $BASE
restore() {
  if [ "$MODE" = repaired ]; then python3 tools/c10_switch.py prodcons snapshot >/dev/null; python3 tools/c10_switch.py assign snapshot >/dev/null; fi
  rm -rf $M $BASE; ./check --regen >/dev/null 2>&1
}
trap restore EXIT
if [ "$MODE" = repaired ]; then
  (cd $BASE && patch -p1 < /verif/fixes/C10-prodcons-per-segment.diff >/dev/null && patch -p1 < /verif/fixes/C10-segment-parameters-keep-assignments.diff >/dev/null) || exit 2
  python3 tools/c10_switch.py prodcons repaired mutation-test >/dev/null; python3 tools/c10_switch.py assign repaired mutation-test >/dev/null
fi
out=$(MXLPY_VERIF_REPO=$BASE ./check C10 2>&1); echo "BASE ($MODE): exit=$? :: $(echo "$out" | tail -1)"
run() {
  name="$1"; cmd="$2"
  rm -rf $M; cp -a $BASE $M
  (cd $M && eval "$cmd") || { echo "MUT $name: mutation failed"; return; }
  if diff -rq $BASE/src $M/src >/dev/null; then echo "MUT $name: NO CHANGE"; return; fi
  out=$(MXLPY_VERIF_REPO=$M ./check C10 2>&1); code=$?
  viol=$(echo "$out" | grep -c '^VIOLATION')
  first=$(echo "$out" | grep '^VIOLATION' | grep -v no-failing-input-found | head -1); [ -z "$first" ] && first=$(echo "$out" | grep '^VIOLATION' | head -1)
  what=$(echo "$out" | grep -B1 '^VIOLATION' | grep -v '^VIOLATION\|^--' | head -1 | cut -c1-200)
  rp=$(echo "$first" | sed -n 's/.*replay=\([^ ]*\).*/\1/p')
  facts=$(python3 -c "import json;f=json.load(open('/verif/work/evidence-scratch/C10.json'))['coverage']['gen_facts'];print(' '.join(f'{k}={v}' for k,v in f.items() if v not in ('true','NRFixed')))")
  rcode=NA
  if [ -n "$rp" ]; then cp "$rp" work/c10_mut_$name.json; MXLPY_VERIF_REPO=$M ./check C10 --replay work/c10_mut_$name.json >/dev/null 2>&1; rcode=$?; fi
  corr=$(python3 -c "import json;c=json.load(open('/verif/work/evidence-scratch/C10.json'))['coverage'];print(c.get('correspondence_mismatches'))")
  echo "MUT $name: exit=$code violations=$viol replay_exit=$rcode facts=[$facts] corr_mismatches=$corr :: $what :: $first"
}
S=src/mxlpy/simulation.py
if [ "$MODE" = snapshot ]; then
run M1_fill_no_reapply "python3 - <<'P'
p='$S'; s=open(p).read(); s=s.replace('            self.model.update_parameters(p)\n            self.raw_args.append(','            self.raw_args.append(',1); open(p,'w').write(s)
P"
run M2_rhs_no_reapply "sed -i 's/self.model.update_parameters(p).get_right_hand_side_time_course(/self.model.get_right_hand_side_time_course(/' $S"
run M3_start_plus_end "sed -i 's/        start = end$/        start += end/' $S"
run M4_consumer_sign "sed -i 's/v.loc\[:, k\] \*= -stoichs\[k\]/v.loc[:, k] *= stoichs[k]/' $S"
run M5_producer_ge "sed -i 's/            if v > 0$/            if v >= 0/' $S"
run M6_no_invalidate "python3 - <<'P'
p='src/mxlpy/model.py'; s=open(p).read(); s=s.replace('    @_invalidate_cache\n    def update_parameter(','    def update_parameter(',1); open(p,'w').write(s)
P"
run M7_guard_gt1 "sed -i 's/if len(self.raw_args) > 0:/if len(self.raw_args) > 1:/' $S"
run M8_scalar_mul "sed -i 's/return \[i \/ normalise for i in results\]/return [i * normalise for i in results]/' $S"
run M9_y0_first "sed -i 's/).iloc\[-1\]/).iloc[0]/' $S"
run M10_restore_first "sed -i 's/self.model.update_parameters(self.raw_parameters\[-1\])/self.model.update_parameters(self.raw_parameters[0])/' $S"
run M11_perseg_noT "sed -i 's/return \[(i.T \/ j).T for i, j in zip(results, normalise, strict=True)\]/return [(i \/ j) for i, j in zip(results, reversed(normalise), strict=True)]/' $S"
run M12_rhs_dyn_coef_at_t0 "python3 - <<'P'
p='src/mxlpy/model.py'; s=open(p).read(); a=\"args=variables.to_dict() | {\\\"time\\\": time},\"; assert a in s, 'shape'; s=s.replace(a, \"args=variables.to_dict() | {\\\"time\\\": 0.0},\",1); open(p,'w').write(s)
P"
else
run R1_mask_ge "sed -i 's/flux.loc\[:, names\].where(coef.loc\[:, names\] > 0)/flux.loc[:, names].where(coef.loc[:, names] >= 0)/' $S"
run R2_names_all "sed -i 's/if any((c\[k\] > 0).any() for c in coefficients)/if any((c[k] > 0).all() for c in coefficients)/' $S"
run R3_scale_first_segment "sed -i 's/for flux, coef in zip(fluxes, coefficients, strict=True)/for flux, coef in zip(fluxes, [coefficients[0].set_axis(f.index) if len(f) == len(coefficients[0]) else c for f, c in zip(fluxes, coefficients)], strict=True)/' $S"
run R4_coef_time_zero "sed -i 's/values.to_dict() | {\"time\": time}/values.to_dict() | {\"time\": 0.0}/' $S"
run R5_sign_dropped "python3 - <<'P'
p='$S'; s=open(p).read(); a='                        sign\n                        * (\n'; assert a in s; s=s.replace(a,'                        1\n                        * (\n',1); open(p,'w').write(s)
P"
run R6_coef_from_initial_state "python3 - <<'P'
p='$S'; s=open(p).read(); a='for time, values in args.iterrows()'; assert a in s; s=s.replace(a,'for time, values in args.assign(**self.model.get_initial_conditions()).iterrows()',1); open(p,'w').write(s)
P"
run R7_snapshot_plain_values "python3 - <<'P'
import re
p='src/mxlpy/simulator.py'; s=open(p).read(); i=s.index('                self.simulation_parameters.append(\n'); j=s.index('                )\n', i)+len('                )\n'); s=s[:i]+'                self.simulation_parameters.append(self.model.get_parameter_values())\n'+s[j:]; open(p,'w').write(s)
P"
run R8_no_restore "python3 - <<'P'
p='$S'; s=open(p).read(); a='        self.model.update_parameters(self.raw_parameters[-1])\n        if concatenated:\n            return pd.concat(fluxes, axis=0)\n        return fluxes\n\n    @overload\n    def get_producers'; assert a in s; s=s.replace(a, a.replace('        self.model.update_parameters(self.raw_parameters[-1])\n',''),1); open(p,'w').write(s)
P"
fi
echo DONE
