#!/bin/bash
# C10 mutation self-test.  usage: harness/c10_mutations.sh current|assign   (log: work/c10_mut_<mode>.log)
#   current  base = copy of /repo (producers/consumers repaired since b146866, views put the model's parameters back
#            since 4167248); mutations M* of the anchored mechanism, R* of _get_fluxes_by_sign, V* of the put-back
#            mechanism, S* = the seeded changes seeded/C10-1 and seeded/C10-4 re-based onto 4167248 (their stored
#            patch.diff no longer applies) and seeded/C10-5
#   assign   base = copy of /repo + fixes/C10-segment-parameters-keep-assignments.diff, switch `assign` flipped to
#            `repaired` for the duration of the script (flipped back at the end); mutation R7 (revert of that repair)
# Never run while another ./check C10 runs (shared Gen file, corr dir and switch).
MODE=${1:-current}
BASE=/var/tmp/mxlpy-C10-mb
M=/var/tmp/mxlpy-C10-m
cd /verif || exit 2
rm -rf $BASE $M; mkdir -p $BASE; rsync -a --exclude .git --exclude docs --exclude publication-figures /repo/ $BASE/
restore() {
  if [ "$MODE" = assign ]; then python3 tools/c10_switch.py assign snapshot >/dev/null; fi
  rm -rf $M $BASE; ./check --regen >/dev/null 2>&1
}
trap restore EXIT
if [ "$MODE" = assign ]; then
  (cd $BASE && patch -p1 < /verif/fixes/C10-segment-parameters-keep-assignments.diff >/dev/null) || exit 2
  python3 tools/c10_switch.py assign repaired mutation-test >/dev/null
fi
out=$(MXLPY_VERIF_REPO=$BASE ./check C10 2>&1); echo "BASE ($MODE): exit=$? :: $(echo "$out" | tail -1)"
run() {
  name="$1"; cmd="$2"
  rm -rf $M; cp -a $BASE $M
  (cd $M && eval "$cmd") || { echo "MUT $name: mutation failed"; return; }
  if diff -rq $BASE/src $M/src >/dev/null; then echo "MUT $name: NO CHANGE"; return; fi
  out=$(MXLPY_VERIF_REPO=$M ./check C10 2>&1); code=$?
  viol=$(echo "$out" | grep -c '^VIOLATION')
  first=$(echo "$out" | grep '^VIOLATION' | grep -v no-failing-input-found | head -1); [ -z "$first" ] && first=$(echo "$out" | grep '^VIOLATION' | head -1)
  what=$(echo "$out" | grep -B1 '^VIOLATION' | grep -v '^VIOLATION\|^--' | head -1 | cut -c1-200)
  rp=$(echo "$first" | sed -n 's/.*replay=\([^ ]*\).*/\1/p')
  facts=$(python3 -c "import json;f=json.load(open('/verif/work/evidence-scratch/C10.json'))['coverage']['gen_facts'];print(' '.join(f'{k}={v}' for k,v in f.items() if v not in ('true','NRFixed','PKRows','VKRestores') and k != 'view_bodies'))")
  rcode=NA
  if [ -n "$rp" ]; then cp "$rp" work/c10_mut_$name.json; MXLPY_VERIF_REPO=$M ./check C10 --replay work/c10_mut_$name.json >/dev/null 2>&1; rcode=$?; fi
  corr=$(python3 -c "import json;c=json.load(open('/verif/work/evidence-scratch/C10.json'))['coverage'];print(c.get('correspondence_mismatches'))")
  echo "MUT $name: exit=$code violations=$viol replay_exit=$rcode facts=[$facts] corr_mismatches=$corr :: $what :: $first"
}
# edit.py OLD NEW: replace exactly one occurrence in simulation.py (fails when the shape is not there)
edit() { python3 - "$1" "$2" "${3:-src/mxlpy/simulation.py}" <<'P'
import sys
a, b, p = sys.argv[1].encode().decode('unicode_escape'), sys.argv[2].encode().decode('unicode_escape'), sys.argv[3]
s = open(p).read(); assert s.count(a) == 1, (s.count(a), a); open(p, 'w').write(s.replace(a, b))
P
}
export -f edit
S=src/mxlpy/simulation.py
if [ "$MODE" = current ]; then
run M1_fill_no_reapply "edit '                self.model.update_parameters(p)\n                self.raw_args.append(' '                self.raw_args.append('"
run M2_rhs_no_reapply "sed -i 's/self.model.update_parameters(p).get_right_hand_side_time_course(/self.model.get_right_hand_side_time_course(/' $S"
run M3_start_plus_end "sed -i 's/        start = end$/        start += end/' $S"
run M6_no_invalidate "edit '    @_invalidate_cache\n    def update_parameter(' '    def update_parameter(' src/mxlpy/model.py"
run M7_guard_gt1 "sed -i 's/if len(self.raw_args) > 0:/if len(self.raw_args) > 1:/' $S"
run M8_scalar_mul "sed -i 's/return \[i \/ normalise for i in results\]/return [i * normalise for i in results]/' $S"
run M9_y0_first "sed -i 's/).iloc\[-1\]/).iloc[0]/' $S"
run M11_perseg_noT "sed -i 's/return \[(i.T \/ j).T for i, j in zip(results, normalise, strict=True)\]/return [(i \/ j) for i, j in zip(results, reversed(normalise), strict=True)]/' $S"
run M12_rhs_dyn_coef_at_t0 "edit 'args=variables.to_dict() | {\"time\": time},' 'args=variables.to_dict() | {\"time\": 0.0},' src/mxlpy/model.py"
run R1_mask_ge "sed -i 's/flux.loc\[:, names\].where(coef.loc\[:, names\] > 0)/flux.loc[:, names].where(coef.loc[:, names] >= 0)/' $S"
run R2_names_all "sed -i 's/if any((c\[k\] > 0).any() for c in coefficients)/if any((c[k] > 0).all() for c in coefficients)/' $S"
run R3_scale_first_segment "sed -i 's/for flux, coef in zip(fluxes, coefficients, strict=True)/for flux, coef in zip(fluxes, [coefficients[0].set_axis(f.index) if len(f) == len(coefficients[0]) else c for f, c in zip(fluxes, coefficients)], strict=True)/' $S"
run R4_coef_time_zero "sed -i 's/values.to_dict() | {\"time\": time}/values.to_dict() | {\"time\": 0.0}/' $S"
run R5_sign_dropped "edit '                        sign\n                        * (\n' '                        1\n                        * (\n'"
run R6_coef_from_initial_state "edit 'for time, values in args.iterrows()' 'for time, values in args.assign(**self.model.get_initial_conditions()).iterrows()'"
# the put-back mechanism of 4167248 (property C04's concern; C10 pins the shape and models the parameter state)
run V1_fill_no_put_back "edit '        finally:\n            self.model.update_parameters(in_force)\n        return self.raw_args' '        finally:\n            pass\n        return self.raw_args'"
run V2_rhs_no_put_back "edit '        finally:\n            self.model.update_parameters(in_force)\n        return self._adjust_data(\n            rhs,' '        finally:\n            pass\n        return self._adjust_data(\n            rhs,'"
run V3_by_sign_leaves_last "edit '        if concatenated:\n            return pd.concat(fluxes, axis=0)\n        return fluxes' '        self.model.update_parameters(self.raw_parameters[-1])\n        if concatenated:\n            return pd.concat(fluxes, axis=0)\n        return fluxes'"
run V4_put_back_before_the_loop "edit '        in_force = self._parameters_in_force()\n        try:\n            rhs = [' '        in_force = self._parameters_in_force()\n        self.model.update_parameters(self.raw_parameters[0])\n        try:\n            rhs = ['"
run V5_rhs_under_in_force "edit '                self.model.update_parameters(p).get_right_hand_side_time_course(\n                    args=args\n                )' '                self.model.update_parameters(in_force).get_right_hand_side_time_course(\n                    args=args\n                )'"
# seeded changes whose stored patch.diff no longer applies to /repo (context rewritten by 4167248), re-based
run S1_seeded_C10_1_rebased "edit '                self.model.update_parameters(p).get_right_hand_side_time_course(\n                    args=args\n                )\n                for args, p in zip(args_by_simulation, self.raw_parameters, strict=True)' '                self.model.get_right_hand_side_time_course(args=args)\n                for args in args_by_simulation'"
run S4_seeded_C10_4_rebased "edit '        if concatenated:\n            return pd.concat(fluxes, axis=0)\n        return fluxes' '        return self._adjust_data(\n            fluxes,\n            normalise=normalise,\n            concatenated=concatenated,\n        )'"
run S5_seeded_C10_5 "patch -p1 -s < /verif/seeded/C10-5/patch.diff"
else
run R7_snapshot_plain_values "python3 - <<'P'
p='src/mxlpy/simulator.py'; s=open(p).read(); i=s.index('                self.simulation_parameters.append(\n'); j=s.index('                )\n', i)+len('                )\n'); s=s[:i]+'                self.simulation_parameters.append(self.model.get_parameter_values())\n'+s[j:]; open(p,'w').write(s)
P"
fi
echo DONE
