"""C07 -- scope correspondence: the Gallina model of fn_to_sympy's NAME RESOLUTION
(coq/codegen/NameScope.v: _handle_name + the local assignments of _handle_fn_body) against the real
fn_to_sympy.

harness/c07_fns.py defines two module-level float constants (c_half, c_gain) and functions that read
them as globals, have a PARAMETER or a LOCAL of the same name, rebind such a parameter, read a local
before it is assigned (CPython: UnboundLocalError; fn_to_sympy: the constant) or read a name that is
defined nowhere.  For each of them and a few ordinary straight-line functions, with as many model
arguments as the function has parameters and with one more, the harness

  * REGENERATES the description from the Python source: the parameters (inspect), the assignments
    `x = <expression>` and the final `return <expression>` (ast: + - *, names, numbers) -- fail-closed:
    anything else raises ValueError; the module's float constants are read from the module's own ast
    (top-level `NAME = <float literal>`), not through inspect.getmembers;
  * calls the real fn_to_sympy(fn, origin, model_args=[m1, ...]) and records whether it refused (None
    or an exception), the free symbols of the result and its value at two argument tuples;
  * calls the Python function itself (UnboundLocalError / NameError / TypeError = no value).

coq/codegen/CgInst.v::check_scase compares all of it with `translate_for gen_name_fact gen_bind_fact`,
`py_run` and the hand-written `scope_entry` / `fsemQ` / `fn_globals`."""

from __future__ import annotations

import ast
import inspect
import textwrap
from fractions import Fraction
from typing import Any

from harness import c07_arity as A
from harness import c07_fns as FN
from harness.common import cbool, clist, cn, cq

# identifier codes shared with coq/codegen/CgInst.v (a, b, c, g, s: harness/c07_arity.py)
A.IDENT.update({"c_half": 9106, "c_gain": 9107, "r": 9108, "c_missing": 9109})

HELPERS = ("k_shadow", "k_unbound", "k_nameerr", "k_localconst")
PLAIN = (4, 5, 6, 7)  # f_mul, f_lin, f_sq, f_poly2
_VALS = ([Fraction(3), Fraction(5), Fraction(7)], [Fraction(-2), Fraction(1, 2), Fraction(4)])


def module_constants() -> list[tuple[int, Fraction]]:
    """top-level `NAME = <float literal>` of harness/c07_fns.py, sorted by name (the order of
    inspect.getmembers; the names are distinct, so the order is immaterial)"""
    tree = ast.parse(inspect.getsource(FN))
    out = []
    for st in tree.body:
        if (isinstance(st, ast.Assign) and len(st.targets) == 1 and isinstance(st.targets[0], ast.Name)
                and isinstance(st.value, ast.Constant) and isinstance(st.value.value, float)):
            out.append((st.targets[0].id, Fraction(st.value.value)))
    names = [n for n, _ in out]
    if len(set(names)) != len(names):
        raise ValueError("a module constant is assigned twice")
    return [(A.code(n), v) for n, v in sorted(out)]


def describe(fn: Any) -> tuple[list[int], list[tuple[int, str]], str]:
    """(parameter codes, [(target code, Gallina texp)], Gallina texp of the return expression)"""
    P = inspect.Parameter
    params = []
    for p in inspect.signature(fn).parameters.values():
        if p.kind != P.POSITIONAL_OR_KEYWORD or p.default is not P.empty:
            raise ValueError(f"{fn.__name__}: parameter {p.name} is not a plain positional one")
        params.append(A.code(p.name))
    fd = ast.parse(textwrap.dedent(inspect.getsource(fn))).body[0]
    if not isinstance(fd, ast.FunctionDef):
        raise ValueError("not a function definition")
    stmts = [s for s in fd.body if not (isinstance(s, ast.Expr) and isinstance(s.value, ast.Constant))]
    if not stmts or not isinstance(stmts[-1], ast.Return) or stmts[-1].value is None:
        raise ValueError(f"{fn.__name__}: the body does not end in `return <expression>`")
    body = []
    for st in stmts[:-1]:
        if not (isinstance(st, ast.Assign) and len(st.targets) == 1 and isinstance(st.targets[0], ast.Name)):
            raise ValueError(f"{fn.__name__}: statement {ast.unparse(st)!r} is not `name = expression`")
        body.append((A.code(st.targets[0].id), A._texp(st.value, None)))  # noqa: SLF001
    return params, body, A._texp(stmts[-1].value, None)  # noqa: SLF001


def coq_sfn(fn: Any) -> str:
    params, body, ret = describe(fn)
    return f"(@mkSFn Q {clist(map(cn, params))} {clist('(' + cn(x) + ', ' + e + ')' for x, e in body)} {ret})"


def observe(fn: Any, nargs: int) -> dict:
    import sympy

    from harness import common
    from mxlpy.meta.source_tools import fn_to_sympy

    msyms = [sympy.Symbol(f"m{i + 1}") for i in range(nargs)]
    out: dict[str, Any] = {"refused": True, "syms": [], "how": "None", "points": []}
    try:
        expr = fn_to_sympy(fn, origin="scope", model_args=msyms)
    except Exception as e:  # noqa: BLE001  (KeyError of the name lookup: a refusal)
        expr = None
        out["how"] = type(e).__name__
    if expr is not None:
        expr = sympy.sympify(expr)
        out.update(refused=False, how="expression", text=str(expr), syms=sorted(A.code(str(s)) for s in expr.free_symbols))
    for vals in _VALS:
        vals = vals[:nargs]
        try:
            py = Fraction(fn(*[float(v) for v in vals]))
        except (TypeError, NameError):  # wrong number of arguments; UnboundLocalError is a NameError
            py = None
        tr = None
        if expr is not None:
            env = {f"m{i + 1}": v for i, v in enumerate(vals)}
            if {str(s) for s in expr.free_symbols} <= set(env):
                tr = common.to_fraction(float(expr.subs({sympy.Symbol(k): sympy.Rational(v.numerator, v.denominator) for k, v in env.items()})))
        out["points"].append((vals, tr, py))
    return out


def _opt(v: Fraction | None) -> str:
    return "None" if v is None else f"(Some {cq(v)})"


def cases() -> tuple[list[str], list[dict]]:
    consts = module_constants()
    g = clist(f"({cn(n)}, {cq(v)})" for n, v in consts)
    jobs: list[tuple[int | None, Any, int]] = []
    for fid in sorted(FN.MODULE_CONSTANTS - FN.SCOPE_CALLS_HELPER):
        jobs += [(fid, FN.FNS[fid], FN.ARITY[fid]), (None, FN.FNS[fid], FN.ARITY[fid] + 1)]
    for name in HELPERS:
        fn = getattr(FN, name)
        k = len(inspect.signature(fn).parameters)
        jobs += [(None, fn, k), (None, fn, k + 1)]
    for fid in PLAIN:
        jobs += [(None, FN.FNS[fid], FN.ARITY[fid])]
    terms, info = [], []
    for fid, fn, k in jobs:
        ob = observe(fn, k)
        pts = clist(f"mkSPt {clist(map(cq, vals))} {_opt(tr)} {_opt(py)}" for vals, tr, py in ob["points"])
        fidt = "None" if fid is None else f"(Some {cn(fid)})"
        terms.append(f"mkSCase {fidt} {g} {coq_sfn(fn)} {k}%nat {cbool(ob['refused'])} {clist(map(cn, ob['syms']))} {pts}")
        info.append({"fn": fn.__name__, "id": fid, "model_arguments": k, "fn_to_sympy": ob["how"], "text": ob.get("text"),
                     "python": [None if py is None else str(py) for _v, _t, py in ob["points"]]})
    return terms, info


ASPECT = {1: "refused or not", 2: "free symbols of the translation", 3: "value of the translation",
          4: "CPython's value of the function (description regenerated from the source)",
          5: "the hand-written scope_entry / fsemQ / fn_globals of coq/codegen/CgInst.v"}


def corr_file(terms: list[str]) -> str:
    defs = "\n".join(f"Definition scase_{i} : scase := {c}." for i, c in enumerate(terms))
    names = "; ".join(f"scase_{i}" for i in range(len(terms)))
    return (
        "From Coq Require Import List NArith ZArith QArith.\nFrom MxlBase Require Import ListX.\n"
        "From Codegen Require Import Codegen CodegenSpec CallArity NameScope RustLit GenCodegenFacts CgInst.\nImport ListNotations.\nOpen Scope Q_scope.\n"
        + defs
        + f"\nDefinition scases : list scase := [{names}].\n"
        "Definition mismatches := smismatches_of gen_name_fact gen_bind_fact scases.\nEval vm_compute in mismatches.\n"
    )
