"""C02, value level through the public API on models WITH multi-output surrogates, initial assignments, reactions,
derived chains, data and time (descriptions from harness/modelgen.py, the generator of C01/C13):

  (a) declaration-order independence: the same description is built in several declaration orders (kinds interleaved,
      base values first / last / anywhere); every order must give the values of the independent evaluator through all
      eight entry points, and the re-ordered model is also evaluated by the Coq model (c01 correspondence cases);
  (b) bad graphs at model level: a component is re-wired (argument replaced, arity kept) so that it names something
      that does not exist -- a fresh name, or the CONTAINER name of a surrogate, which is not a value --, closes a cycle,
      or names itself; every query must raise MissingDependenciesError listing EXACTLY the non-existent names per
      component / CircularDependencyError, in every declaration order; compared with create_cache of the Coq model;
  (c) edit-then-query: after a successful query the same re-wirings are applied to the LIVE model through the public
      update_* API (args only); the next query must have the outcome of the new graph (error, or the new values), and a
      second edit back into a legal graph must give that graph's values.

The expected outcome of a graph is computed by modelgen.graph_outcome (Kahn + completeness on the description; shares
no code with the sorter or the Coq model); values by modelgen.Oracle."""

from __future__ import annotations

import signal

from harness import c01, common, modelgen
from harness.common import Run, clist, cn
from harness.modelgen import Oracle, nm

FOREIGN_MISSING = 9100


class _Timeout(Exception):
    pass


def _alarm(signum, frame):  # noqa: ANN001, ARG001
    raise _Timeout


# ---------------------------------------------------------------------------------------
# outcomes
# ---------------------------------------------------------------------------------------


def query_outcomes(m) -> list[tuple]:
    """Outcome of each public query on the default state: ("ok",) | ("missing", {comp: [names]}) | ("circular",) |
    ("err", type name, text).  Resolution must terminate: 5 s alarm per query."""
    from harness.c02 import _parse_payload
    from mxlpy.model import CircularDependencyError, MissingDependenciesError

    out = []
    for q in ("get_args", "get_initial_conditions", "get_right_hand_side"):
        signal.signal(signal.SIGALRM, _alarm)
        signal.setitimer(signal.ITIMER_REAL, 5.0)
        try:
            getattr(m, q)()
            out.append((q, ("ok",)))
        except MissingDependenciesError as e:
            out.append((q, ("missing", dict(_parse_payload(str(e))), [k for k, _ in _parse_payload(str(e))])))
        except CircularDependencyError:
            out.append((q, ("circular",)))
        except _Timeout:
            out.append((q, ("err", "Timeout", "no answer within 5 s")))
        except Exception as e:  # noqa: BLE001
            out.append((q, ("err", type(e).__name__, str(e)[:120])))
        finally:
            signal.setitimer(signal.ITIMER_REAL, 0)
    return out


def judge_outcome(expected: tuple, outs: list[tuple]) -> str | None:
    for q, o in outs:
        if expected[0] == "ok":
            if o[0] != "ok":
                return f"{q}() on a complete acyclic graph: {o}"
        elif expected[0] == "missing":
            if o[0] != "missing":
                return f"{q}(): components name things that do not exist {_names(expected[1])} but the outcome is {o[:2]}"
            if o[1] != expected[1]:
                return f"{q}(): missing-dependency error lists {_names(o[1])}, exactly {_names(expected[1])} do not exist"
        else:
            if o[0] != "circular":
                return f"{q}(): the graph has a dependency cycle among {[nm(x) for x in expected[1]]} but the outcome is {o[:2]}"
    return None


def _names(d: dict) -> dict:
    return {nm(k): [nm(x) for x in v] for k, v in d.items()}


# ---------------------------------------------------------------------------------------
# re-wirings
# ---------------------------------------------------------------------------------------


def downstream(desc: dict, comp_name: int) -> list[int]:
    """value names provided by components that (transitively) require something `comp_name` provides"""
    comps = modelgen.graph_components(desc)
    prov = {n: set(p) for n, _, p in comps}
    reach = set(prov[comp_name])
    changed = True
    hit: list[int] = []
    seen = {comp_name}
    while changed:
        changed = False
        for n, req, p in comps:
            if n not in seen and set(req) & reach:
                seen.add(n)
                reach |= set(p)
                hit += list(p)
                changed = True
    return hit


def pick_rewire(rng, desc: dict, want: str):
    """-> (kind, name, new_args) or None.  want: missing | surname | cycle | self | legal"""
    cands = modelgen.rewirable(desc)
    if not cands:
        return None
    rng.shuffle(cands)
    base = [0] + [n for n, v in desc["par"] if v[0] == "plain"] + [n for n, v in desc["var"] if v[0] == "plain"]
    for kind, name, args in cands:
        pos = rng.randrange(len(args))
        new = list(args)
        if want == "missing":
            new[pos] = FOREIGN_MISSING + rng.randint(0, 2)
        elif want == "surname":
            if not desc["sur"]:
                return None
            new[pos] = rng.choice(desc["sur"])[0]
        elif want == "self":
            own = [s for s in desc["sur"] if s[0] == name]
            new[pos] = rng.choice(own[0][3]) if own else name
        elif want == "cycle":
            ds = downstream(desc, name)
            if not ds:
                continue
            new[pos] = rng.choice(ds)
        else:
            new[pos] = rng.choice(base)
            if new == args:
                continue
        return kind, name, new
    return None


def ia_below_surrogate(desc: dict) -> bool:
    outs = {o for s in desc["sur"] for o in s[3]}
    if not outs:
        return False
    comps = {n: set(req) for n, req, _ in modelgen.graph_components(desc)}
    tainted = set(outs)
    changed = True
    while changed:
        changed = False
        for n, req in comps.items():
            if n not in tainted and req & tainted and not any(n == s[0] for s in desc["sur"]):
                tainted.add(n)
                changed = True
    return any(v[0] == "ia" and n in tainted for n, v in desc["par"] + desc["var"])


# ---------------------------------------------------------------------------------------
# Coq side
# ---------------------------------------------------------------------------------------

CORR_HEADER = """From Coq Require Import ZArith List Bool.
From MxlBase Require Import ListX.
From Core Require Import Sort GenSortFacts FnLib Model Cache Query CorrC01 CorrC02v.
Import ListNotations.
"""


def coq_expect(expected: tuple, desc: dict, ic) -> str:
    if expected[0] == "ok":
        return f"VBuilt {c01.coq_pairs(ic)}"
    if expected[0] == "missing":
        # payload in the order of the implementation's message (checked against the expected dict by the oracle)
        return "VMissing " + clist(f"({cn(k)}, {clist(map(cn, v))})" for k, v in ic)
    return "VCircular"


def corr_file_v(cases: list[str]) -> str:
    return (
        CORR_HEADER
        + "Definition cases : list c02v_case := [\n  "
        + ";\n  ".join(cases)
        + "\n].\nEval vm_compute in (filter_idx (fun c => negb (c02v_case_ok c)) cases).\n"
    )


# ---------------------------------------------------------------------------------------
# the stage
# ---------------------------------------------------------------------------------------


def _orders(rng, desc) -> list[list]:
    seq = modelgen.decl_items(desc)
    base_kinds = ("dat", "par", "var")
    late = [x for x in seq if x[0] not in base_kinds] + [x for x in seq if x[0] in base_kinds]  # base values LAST
    out = [seq, list(reversed(seq)), late]
    for _ in range(2):
        s = list(seq)
        rng.shuffle(s)
        out.append(s)
    return out


def _ok_case(run, m, d_o, orc, points, rng, cases01, keys01) -> str | None:
    for t, s in points:
        mode = rng.choice(c01.KEY_MODES)
        obs = c01.observe(m, d_o, t, s, mode, False)
        bad = c01.judge(d_o, orc, t, s, obs)
        if bad:
            return f"[t={t}, state={s}] {bad}"
        cases01.append(c01.coq_case(d_o, t, s, obs))
        keys01.append((d_o, t, s))
    return None


def run_stage(run: Run, rng, thorough: bool) -> None:
    n_models = 260 if thorough else 60
    dist = {"models": 0, "with_surrogate": 0, "ia_below_surrogate": 0, "orders": 0, "bad_graph_variants": {}, "edit_sequences": {},
            "discarded_unbounded": 0}
    cases01: list[str] = []
    keys01: list = []
    casesv: list[str] = []
    keysv: list = []
    n_viol = 0

    def viol(what, rep):
        nonlocal n_viol
        if n_viol < 6:
            n_viol += 1
            run.violation(what, rep)

    for i in range(n_models):
        desc = None
        for _ in range(30):
            d = modelgen.gen_model(rng, ia_bias=0.9, max_comp=9)
            if i % 3 == 2 or ia_below_surrogate(d):
                desc = d
                break
        if desc is None:
            desc = d
        orc = Oracle(desc)
        t1, s1 = modelgen.gen_state(rng, desc)
        points = [(0, None), (t1, s1)]
        if not c01.bounded(orc, points):
            dist["discarded_unbounded"] += 1
            continue
        dist["models"] += 1
        dist["with_surrogate"] += bool(desc["sur"])
        dist["ia_below_surrogate"] += ia_below_surrogate(desc)
        # (a) declaration orders
        m = None
        seq_used = None
        for seq in _orders(rng, desc):
            dist["orders"] += 1
            d_o = modelgen.reorder(desc, seq)
            run.count_case(("valsur", repr(desc), repr(seq)), nontrivial=True)
            try:
                m = modelgen.build_ordered(desc, seq)
                bad = _ok_case(run, m, d_o, orc, points, rng, cases01, keys01)
                ic = [(modelgen.un(k), common.exact_int(v)) for k, v in m.get_initial_conditions().items()]
                casesv.append(f"({modelgen.coq_model(d_o)}, {coq_expect(('ok',), d_o, ic)})")
                keysv.append((d_o, "ok"))
            except Exception as e:  # noqa: BLE001
                bad = f"raised {type(e).__name__}: {e}"
            if bad:
                viol(f"acyclic complete model (surrogates/initial assignments) declared in order {[nm(n) for _, n in seq]}: {bad}",
                     {"kind": "valsur", "desc": desc, "seq": seq, "points": points})
                m = None
                break
            seq_used = seq
        # (b) bad graphs, fresh models in two declaration orders
        for want in ("missing", "surname", "cycle", "self"):
            rw = pick_rewire(rng, desc, want)
            if rw is None:
                continue
            d_v = modelgen.rewire(desc, *rw)
            if want in ("surname", "missing") and rng.random() < 0.35:
                rw2 = pick_rewire(rng, d_v, "missing" if want == "surname" else "surname")
                if rw2 is not None and (rw2[0], rw2[1]) != (rw[0], rw[1]):
                    d_v = modelgen.rewire(d_v, *rw2)
            expected = modelgen.graph_outcome(d_v)
            if expected[0] == "ok":
                continue
            dist["bad_graph_variants"][want] = dist["bad_graph_variants"].get(want, 0) + 1
            seqs = [modelgen.decl_items(d_v)]
            s2 = list(seqs[0])
            rng.shuffle(s2)
            seqs.append(s2)
            for seq in seqs:
                run.count_case(("badgraph", repr(d_v), repr(seq)), nontrivial=True)
                d_o = modelgen.reorder(d_v, seq)
                try:
                    mv = modelgen.build_ordered(d_v, seq)
                    outs = query_outcomes(mv)
                    bad = judge_outcome(expected, outs)
                except Exception as e:  # noqa: BLE001
                    outs = []
                    bad = f"building the model raised {type(e).__name__}: {e}"
                if bad:
                    viol(f"model whose component {nm(rw[1])} was wired to {[nm(a) for a in rw[2]]} ({want}), declared in order {[nm(n) for _, n in seq]}: {bad}",
                         {"kind": "badgraph", "desc": d_v, "seq": seq})
                    break
                o = outs[0][1]
                payload = [(k, o[1][k]) for k in o[2]] if o[0] == "missing" else None
                casesv.append(f"({modelgen.coq_model(d_o)}, {coq_expect(expected, d_o, payload)})")
                keysv.append((d_o, expected[0]))
        # (c) edit the live, already queried model
        if m is None:
            continue
        for want in rng.sample(["missing", "surname", "cycle", "self", "legal", "legal"], 3):
            rw = pick_rewire(rng, desc, want)
            if rw is None:
                continue
            d_v = modelgen.rewire(desc, *rw)
            expected = modelgen.graph_outcome(d_v)
            if expected[0] == "ok" and not c01.bounded(Oracle(d_v), points):
                dist["discarded_unbounded"] += 1
                continue
            # back into a legal graph: the original wiring, or another legal one
            orig_args = dict((x[1], x[2]) for x in modelgen.rewirable(desc))[rw[1]]
            back = (rw[0], rw[1], orig_args)
            if rng.random() < 0.5:
                base = [0] + [n for n, v in desc["par"] if v[0] == "plain"] + [n for n, v in desc["var"] if v[0] == "plain"]
                alt_args = list(orig_args)
                alt_args[rng.randrange(len(alt_args))] = rng.choice(base)
                if c01.bounded(Oracle(modelgen.rewire(desc, rw[0], rw[1], alt_args)), points):
                    back = (rw[0], rw[1], alt_args)
            d_b = modelgen.rewire(desc, *back)
            dist["edit_sequences"][want] = dist["edit_sequences"].get(want, 0) + 1
            run.count_case(("edit", repr(desc), repr(seq_used), repr(rw), repr(back)), nontrivial=True)
            rep = {"kind": "edit", "desc": desc, "seq": seq_used, "points": points, "rewire": list(rw), "back": list(back)}
            bad = edit_sequence(m, desc, seq_used, points, rw, back, rng)
            if bad:
                viol(f"query, then {rw[0]} {nm(rw[1])}.args <- {[nm(a) for a in rw[2]]} through the update API ({want}), then query: {bad}", rep)
                m = None
                break
    run.coverage["value_stage_surrogates"] = dist
    # Coq: the re-ordered models through the c01 cases, the bad graphs through create_cache
    files = {f"c02v1_{k:04d}": c01.corr_file(chunk) for k, chunk in enumerate(common.chunks(cases01, 150))}
    files.update({f"c02v2_{k:04d}": corr_file_v(chunk) for k, chunk in enumerate(common.chunks(casesv, 200))})
    res = common.coq_eval_many("core", files, timeout_s=900)
    mism = 0
    for name in sorted(files):
        ok, out = res[name]
        lists = common.parse_eval_list(out) if ok else None
        if not ok or not lists:
            run.broken_correspondence.append(f"value-level correspondence shard {name} did not evaluate: {out[-400:]}")
            continue
        k = int(name.split("_")[1])
        for j in lists[-1]:
            mism += 1
            if len(run.broken_correspondence) < 4:
                key = keys01[k * 150 + j] if name.startswith("c02v1") else keysv[k * 200 + j]
                run.broken_correspondence.append(f"model/implementation disagree (value level, {name}): {key}")
    run.coverage["value_stage_traces_validated"] = len(cases01) + len(casesv) - mism
    run.coverage["value_stage_mismatches"] = mism


def edit_sequence(m, desc, seq, points, rw, back, rng=None) -> str | None:
    """m: live model of `desc` (already queried).  Apply rw, query, apply back, query.  Leaves m as desc+back... the
    caller's description is restored at the end when back is the original wiring; otherwise the original is re-applied."""
    import random

    rng = rng or random.Random(0)
    d_v = modelgen.rewire(desc, *rw)
    expected = modelgen.graph_outcome(d_v)
    try:
        modelgen.apply_rewire(m, desc, *rw)
        outs = query_outcomes(m)
        bad = judge_outcome(expected, outs)
        if bad:
            return f"{bad} (a freshly built model with this content: {judge_outcome(expected, query_outcomes(modelgen.build_ordered(d_v, seq))) or 'as expected'})"
        if expected[0] == "ok":
            d_o = modelgen.reorder(d_v, seq)
            bad = _ok_case(None, m, d_o, Oracle(d_v), points, rng, [], [])
            if bad:
                return f"values are not those of the re-wired graph: {bad}"
        d_b = modelgen.rewire(desc, *back)
        modelgen.apply_rewire(m, desc, *back)
        outs = query_outcomes(m)
        bad = judge_outcome(("ok",), outs)
        if bad is None:
            bad = _ok_case(None, m, modelgen.reorder(d_b, seq), Oracle(d_b), points, rng, [], [])
        if bad:
            return f"then {back[0]} {nm(back[1])}.args <- {[nm(a) for a in back[2]]} (a legal graph again): {bad}"
        # restore the original wiring for the next sequence on this model
        orig = dict((x[1], x[2]) for x in modelgen.rewirable(desc))[rw[1]]
        if list(back[2]) != list(orig):
            modelgen.apply_rewire(m, desc, rw[0], rw[1], orig)
            m.get_args()
    except Exception as e:  # noqa: BLE001
        return f"raised {type(e).__name__}: {e}"
    return None


def replay(r: dict) -> int:
    desc = {k: [c01._tup(x) for x in v] for k, v in r["desc"].items()}
    seq = [tuple(x) for x in r["seq"]]
    import random

    rng = random.Random(0)
    try:
        if r["kind"] == "badgraph":
            expected = modelgen.graph_outcome(desc)
            bad = judge_outcome(expected, query_outcomes(modelgen.build_ordered(desc, seq)))
        else:
            points = [(t, None if s is None else {int(k): v for k, v in s.items()}) for t, s in r["points"]]
            m = modelgen.build_ordered(desc, seq)
            bad = _ok_case(None, m, modelgen.reorder(desc, seq), Oracle(desc), points, rng, [], [])
            if r["kind"] == "edit" and not bad:
                rw, back = r["rewire"], r["back"]
                bad = edit_sequence(m, desc, seq, points, (rw[0], rw[1], list(rw[2])), (back[0], back[1], list(back[2])), rng)
    except Exception as e:  # noqa: BLE001
        bad = f"raised {type(e).__name__}: {e}"
    print(bad or "property holds on this input")
    return 1 if bad else 0
