"""C03 -- edit histories: answers depend only on the model's current content.

Tie: (1) GenEditFacts.v regenerated from src/mxlpy/model.py: for each public mutator whether it carries
@_invalidate_cache, plus the list of container-writing public methods the model does not know
(must be empty) -- pinned by C03_facts_pinned; (2) correspondence on histories: the Gallina state
machine (coq/edit/ModelSM.v) and the real Model run the same operation sequences, compared after
EVERY step (outcome class, id registry, container keys, query answers; exact); (3) independent
oracle: after every query a fresh Model is rebuilt from the raw content through the public add_* API
and must answer identically; a rejected edit must leave ids and raw content untouched.
Second round: every edit is also made on a fresh rebuild of the content before it (edits depend on the content only), equal
arguments of one history are ONE Python object, the caller's argument containers and the objects queries returned are
overwritten after the call (containers cross the API as values), get_right_hand_side is probed after every query (queries
leave no trace); GenEditFacts.v also carries the aliasing facts (harness/c03_facts.py::extract_alias).
Third round: right after every edit a deep copy of the model must answer get_right_hand_side / get_stoichiometries like a fresh
rebuild (an edit leaves no stale memo behind, seeded/C03-8), coefficients given by name through update_reaction have a family of
their own, the presence of the memo after every step is compared with the state machine, GenEditFacts.v carries which mutator
bodies can build or read the cache (harness/c03_facts.py::extract_cache_uses)."""

from __future__ import annotations

import ast
import copy
import itertools

from harness import c03_facts, common, fnlib, modelgen
from harness.common import Run, clist, cn, copt, cz
from harness.modelgen import nm, un

AREA = "edit"
PROPS = "PropsC03.v"
BATCH = c03_facts.BATCH
FINDING_BATCH = "C03-batch-partial-application"
SINGLE_OF = {"add_parameters": "add_parameter", "remove_parameters": "remove_parameter", "update_parameters": "update_parameter",
             "scale_parameters": "scale_parameter", "add_variables": "add_variable", "remove_variables": "remove_variable",
             "update_variables": "update_variable"}

METHODS = [
    "add_parameter", "remove_parameter", "update_parameter", "scale_parameter", "make_parameter_dynamic",
    "add_variable", "remove_variable", "update_variable", "make_variable_static",
    "add_derived", "update_derived", "remove_derived",
    "add_reaction", "update_reaction", "remove_reaction",
    "add_readout", "remove_readout",
    "add_surrogate", "update_surrogate", "remove_surrogate",
    "add_data", "update_data", "remove_data",
]
# public wrappers that only call other public mutators (batch forms) or internal helpers
KNOWN_OTHER = {"add_parameters", "remove_parameters", "update_parameters", "scale_parameters", "add_variables",
               "remove_variables", "update_variables", "_insert_id", "_remove_id", "_create_cache"}
CONTAINERS = {"_ids", "_variables", "_parameters", "_derived", "_readouts", "_reactions", "_surrogates", "_data"}


def _writes_containers(fn: ast.FunctionDef) -> bool:
    """Does the method body write one of the model's containers directly?"""
    for node in ast.walk(fn):
        targets = []
        if isinstance(node, ast.Assign):
            targets = node.targets
        elif isinstance(node, (ast.AugAssign, ast.AnnAssign)):
            targets = [node.target]
        elif isinstance(node, ast.Delete):
            targets = node.targets
        for t in targets:
            base = t
            while isinstance(base, (ast.Subscript, ast.Attribute)) and not (
                isinstance(base, ast.Attribute) and isinstance(base.value, ast.Name) and base.value.id == "self"
            ):
                base = base.value
            if isinstance(base, ast.Attribute) and base.attr in CONTAINERS:
                return True
        if isinstance(node, ast.Call) and isinstance(node.func, ast.Attribute) and node.func.attr in (
            "pop", "update", "setdefault", "clear", "popitem"
        ):
            v = node.func.value
            if isinstance(v, ast.Attribute) and isinstance(v.value, ast.Name) and v.value.id == "self" and v.attr in CONTAINERS:
                return True
    return False


def extract_facts() -> dict:
    tree = ast.parse((common.REPO / "src/mxlpy/model.py").read_text())
    cls = next(n for n in tree.body if isinstance(n, ast.ClassDef) and n.name == "Model")
    inval: dict[str, bool] = {}
    unknown = []
    for f in cls.body:
        if not isinstance(f, ast.FunctionDef):
            continue
        decos = {ast.unparse(d) for d in f.decorator_list}
        if f.name in METHODS:
            inval[f.name] = "_invalidate_cache" in decos
        elif f.name not in KNOWN_OTHER and _writes_containers(f):
            unknown.append(f.name)
    # the decorator itself must still clear the cache before calling the method
    deco = next((n for n in tree.body if isinstance(n, ast.FunctionDef) and n.name == "_invalidate_cache"), None)
    deco_ok = False
    if deco is not None:
        w = next((n for n in deco.body if isinstance(n, ast.FunctionDef)), None)
        if w is not None:
            body = [ast.unparse(s) for s in w.body]
            deco_ok = body == ["self = cast(Model, args[0])", "self._cache = None", "return method(*args, **kwargs)"]
    return {"invalidates": inval, "unknown_mutators": unknown, "decorator_clears_first": deco_ok,
            "missing_methods": [m for m in METHODS if m not in inval]} | c03_facts.extract(tree) | c03_facts.extract_cache_uses(tree, METHODS)


def gen() -> dict:
    f = extract_facts()
    ok_all = f["decorator_clears_first"] and not f["missing_methods"]
    cases = "\n".join(
        f"  | M_{m} => {'true' if (f['invalidates'].get(m, False) and ok_all) else 'false'}" for m in METHODS
    )
    text = (
        "(* REGENERATED from src/mxlpy/model.py (class Model) by harness/c03.py; do not edit. *)\n"
        "From Coq Require Import List String.\nImport ListNotations.\n"
        "Inductive method :=\n" + "\n".join(f"| M_{m}" for m in METHODS) + ".\n"
        "(* does the public method carry @_invalidate_cache (and does the decorator clear the cache first)? *)\n"
        "Definition invalidates (m : method) : bool :=\n  match m with\n" + cases + "\n  end.\n"
        "(* public methods of Model that write a container directly and are unknown to the state machine *)\n"
        "Definition unknown_mutators : list string := "
        + clist('"' + u + '"%string' for u in f["unknown_mutators"])
        + ".\n"
        + c03_facts.coq(f)
        + c03_facts.coq_cache_uses(f, METHODS)
    )
    common.write_if_changed(common.area_dir(AREA) / "GenEditFacts.v", text)
    return f


# ---------------------------------------------------------------------------------------
# operations: abstract form  ("add_parameter", n, valia) ... ; applied to the real Model
# ---------------------------------------------------------------------------------------

KINDCODE = {"parameter": 0, "variable": 1, "derived": 2, "reaction": 3, "readout": 4, "surrogate": 5, "data": 6}
# ArityMismatchError shares the class of TypeError ("called with the wrong number of arguments", coq/edit/ModelSM.v build_cache)
ERRCODE = {"MissingDependenciesError": 0, "CircularDependencyError": 1, "KeyError": 2, "TypeError": 3, "ValueError": 4,
           "NameError": 6, "ArityMismatchError": 3}


class Discard(Exception):
    pass


def errcode(e: BaseException) -> int:
    c = ERRCODE.get(type(e).__name__)
    if c is None:
        raise Discard(f"unmodelled exception class {type(e).__name__}: {e}")
    return c


_UNIQUE = itertools.count()


class Inputs:
    """The container objects one history hands to the mutators.  Equal abstract values share ONE Python object
    (the same dict as stoichiometry= of two reactions, the same list as args= of several components, the same
    mapping for two batch calls ...): the model must treat what it is given as a VALUE.  Two classes of use site:
      "map"   stoichiometry= of add_/update_reaction, stoichiometries= of make_parameter_dynamic, the mapping / list
              argument of the seven batch forms
      "args"  args= lists of derived / reactions / readouts, args= / outputs= / stoichiometries= of add_/update_surrogate
    `touched` collects (class, object) for the current call; run_history poisons them after the call."""

    def __init__(self) -> None:
        self.pool: dict = {}
        self.touched: list[tuple[str, object]] = []
        self.shared = 0  # calls that were handed an object an earlier call had been given already

    def get(self, cls: str, key, build):
        k = (cls, repr(key))
        o = self.pool.get(k)
        if o is None:
            o = self.pool[k] = build()
        else:
            self.shared += 1
        self.touched.append((cls, o))
        return o


def apply_mutator(m, op: tuple, inp: Inputs | None = None) -> None:
    """one public mutator call; with `inp` the container arguments come from the history's pool of shared objects"""

    def C(cls: str, key, build):
        return build() if inp is None else inp.get(cls, key, build)

    def names(x):
        return None if x is None else C("args", ("names", tuple(x)), lambda: [nm(a) for a in x])

    def sto(x):
        return None if x is None else C("map", ("sto", x), lambda: {nm(c): modelgen.py_coef(cf) for c, cf in x})

    def valmap(x):
        return C("map", ("valmap", x), lambda: {nm(n): modelgen.py_valia(v) for n, v in x})

    k = op[0]
    if k == "add_parameter":
        m.add_parameter(nm(op[1]), modelgen.py_valia(op[2]))
    elif k == "remove_parameter":
        m.remove_parameter(nm(op[1]))
    elif k == "update_parameter":
        m.update_parameter(nm(op[1]), modelgen.py_valia(op[2]))
    elif k == "scale_parameter":
        m.scale_parameter(nm(op[1]), op[2])
    elif k == "make_parameter_dynamic":
        m.make_parameter_dynamic(
            nm(op[1]),
            None if op[2] is None else modelgen.py_valia(op[2]),
            None if op[3] is None else C("map", ("zmap", op[3]), lambda: {nm(r): q for r, q in op[3]}),
        )
    elif k == "add_variable":
        m.add_variable(nm(op[1]), modelgen.py_valia(op[2]))
    elif k == "remove_variable":
        m.remove_variable(nm(op[1]), remove_stoichiometries=op[2])
    elif k == "update_variable":
        m.update_variable(nm(op[1]), modelgen.py_valia(op[2]))
    elif k == "make_variable_static":
        m.make_variable_static(nm(op[1]), None if op[2] is None else modelgen.py_valia(op[2]))
    elif k == "add_derived":
        m.add_derived(nm(op[1]), fn=fnlib.FNS[op[2]], args=names(op[3]))
    elif k == "update_derived":
        m.update_derived(nm(op[1]), None if op[2] is None else fnlib.FNS[op[2]], args=names(op[3]))
    elif k == "remove_derived":
        m.remove_derived(nm(op[1]))
    elif k == "add_reaction":
        m.add_reaction(nm(op[1]), fn=fnlib.FNS[op[2]], args=names(op[3]), stoichiometry=sto(op[4]))
    elif k == "update_reaction":
        m.update_reaction(nm(op[1]), None if op[2] is None else fnlib.FNS[op[2]], args=names(op[3]), stoichiometry=sto(op[4]))
    elif k == "remove_reaction":
        m.remove_reaction(nm(op[1]))
    elif k == "add_readout":
        m.add_readout(nm(op[1]), fn=fnlib.FNS[op[2]], args=names(op[3]))
    elif k == "remove_readout":
        m.remove_readout(nm(op[1]))
    elif k == "add_surrogate":
        m.add_surrogate(nm(op[1]), modelgen.py_surrogate(op[2]), **_sur_kwargs(op[3], op[4], op[5], C))
    elif k == "update_surrogate":
        m.update_surrogate(nm(op[1]), None if op[2] is None else modelgen.py_surrogate(op[2]), **_sur_kwargs(op[3], op[4], op[5], C))
    elif k == "remove_surrogate":
        m.remove_surrogate(nm(op[1]))
    elif k == "add_data":
        m.add_data(nm(op[1]), op[2])
    elif k == "update_data":
        m.update_data(nm(op[1]), op[2])
    elif k == "remove_data":
        m.remove_data(nm(op[1]))
    elif k in ("add_parameters", "update_parameters", "add_variables", "update_variables"):
        getattr(m, k)(valmap(op[1]))
    elif k == "scale_parameters":
        m.scale_parameters(C("map", ("zmap", op[1]), lambda: {nm(n): q for n, q in op[1]}))
    elif k == "remove_parameters":
        m.remove_parameters(C("map", ("namelist", tuple(op[1])), lambda: [nm(n) for n in op[1]]))
    elif k == "remove_variables":
        m.remove_variables(iter([nm(n) for n in op[1]]), remove_stoichiometries=op[2])
    else:
        raise AssertionError(k)


def batch_items(op: tuple) -> list[tuple]:
    """the single-item calls a batch form stands for (dict semantics for the mapping arguments)"""
    k = op[0]
    if k in ("remove_parameters",):
        return [("remove_parameter", n) for n in op[1]]
    if k == "remove_variables":
        return [("remove_variable", n, op[2]) for n in op[1]]
    d: dict = {}
    for n, v in op[1]:
        d[n] = v
    return [(SINGLE_OF[k], n, v) for n, v in d.items()]


def _sur_kwargs(args, outs, sto, C=None) -> dict:
    if C is None:
        C = lambda _cls, _key, build: build()  # noqa: E731
    return {
        "args": None if args is None else C("args", ("names", tuple(args)), lambda: [nm(a) for a in args]),
        "outputs": None if outs is None else C("args", ("names", tuple(outs)), lambda: [nm(o) for o in outs]),
        # never shared between calls: remove_variable / make_parameter_dynamic write into a surrogate's inner dicts in place
        "stoichiometries": None if sto is None else C(
            "args", ("sursto", next(_UNIQUE)), lambda: {nm(o): {nm(c): modelgen.py_coef(cf) for c, cf in ent} for o, ent in sto}),
    }


def ask(m, q: tuple, raw: list | None = None):
    """-> ("ids", [...]) | ("pairs", [...]) | ("names", [...]) | ("err", code); the object the method returned is appended to `raw`"""
    k = q[0]

    def keep(x):
        if raw is not None:
            raw.append(x)
        return x

    try:
        if k == "q_ids":
            return ("ids", [(un(a), KINDCODE[b]) for a, b in keep(m.ids).items()])
        if k in ("q_args", "q_rhs"):
            vars_d = None if q[1] is None else {nm(a): float(b) for a, b in q[1]}
            s = keep((m.get_args if k == "q_args" else m.get_right_hand_side)(vars_d, time=float(q[2])))
            if vars_d is not None:
                keep(vars_d)
            return ("pairs", [(un(a), common.exact_int(b)) for a, b in s.items()])
        if k == "q_fluxes":
            vars_d = None if q[1] is None else {nm(a): float(b) for a, b in q[1]}
            s = keep(m.get_fluxes(vars_d, time=float(q[2])))
            return ("pairs", [(un(a), common.exact_int(b)) for a, b in s.items()])
        if k == "q_stoich":
            vars_d = None if q[1] is None else {nm(a): float(b) for a, b in q[1]}
            df = keep(m.get_stoichiometries(vars_d, time=float(q[2])))
            rows, cols = [un(r) for r in df.index], [un(c) for c in df.columns]
            ent = [(un(r), un(c), common.exact_int(df.loc[r, c])) for r in df.index for c in df.columns]
            return ("table", sorted(rows), sorted(cols), sorted(ent))
        if k == "q_ic":
            return ("pairs", [(un(a), common.exact_int(b)) for a, b in keep(m.get_initial_conditions()).items()])
        if k == "q_parvals":
            return ("pairs", [(un(a), common.exact_int(b)) for a, b in keep(m.get_parameter_values()).items()])
        if k == "q_derpar":
            return ("names", [un(a) for a in keep(m.get_derived_parameter_names())])
    except ValueError as e:
        if "exactly representable" in str(e) or "non-finite" in str(e):
            raise Discard(str(e)) from e
        return ("err", errcode(e))
    except Exception as e:  # noqa: BLE001
        return ("err", errcode(e))
    raise AssertionError(k)


def content_keys(m) -> list[list[int]]:
    return [
        [un(k) for k in m.get_raw_parameters(as_copy=False)],
        [un(k) for k in m.get_raw_variables(as_copy=False)],
        [un(k) for k in m.get_raw_derived(as_copy=False)],
        [un(k) for k in m.get_raw_reactions(as_copy=False)],
        [un(k) for k in m.get_raw_readouts(as_copy=False)],
        [un(k) for k in m.get_raw_surrogates(as_copy=False)],
        [un(k) for k in m._data],  # noqa: SLF001 -- no public accessor for data names
    ]


def content_vals(m) -> list[list[tuple]]:
    from mxlpy.types import InitialAssignment

    def one(v):
        return None if isinstance(v, InitialAssignment) else common.exact_int(v)

    try:
        return [
            [(un(k), one(v.value)) for k, v in m.get_raw_parameters(as_copy=False).items()],
            [(un(k), one(v.initial_value)) for k, v in m.get_raw_variables(as_copy=False).items()],
        ]
    except ValueError as e:
        raise Discard(str(e)) from e


def deep_content(m):
    """Everything a later query can depend on, as comparable plain data."""
    def val(v):
        from mxlpy.types import Derived, InitialAssignment

        if isinstance(v, (Derived, InitialAssignment)):
            return (type(v).__name__, v.fn.__name__, tuple(v.args))
        return v

    return (
        dict(m.ids),
        [(k, val(v.value)) for k, v in m.get_raw_parameters(as_copy=False).items()],
        [(k, val(v.initial_value)) for k, v in m.get_raw_variables(as_copy=False).items()],
        [(k, val(v)) for k, v in m.get_raw_derived(as_copy=False).items()],
        [(k, v.fn.__name__, tuple(v.args), [(c, val(f)) for c, f in v.stoichiometry.items()]) for k, v in m.get_raw_reactions(as_copy=False).items()],
        [(k, val(v)) for k, v in m.get_raw_readouts(as_copy=False).items()],
        [(k, v.fn.__name__, tuple(v.args), tuple(v.outputs), [(o, [(c, val(f)) for c, f in ent.items()]) for o, ent in v.stoichiometries.items()])
         for k, v in m.get_raw_surrogates(as_copy=False).items()],
        list(m._data.items()),  # noqa: SLF001
    )


def rebuild_fresh(m):
    """A freshly built model with the same content, through the public add_* API only."""
    from mxlpy import Model

    f = Model()
    for k, v in m._data.items():  # noqa: SLF001
        f.add_data(k, v)
    for k, v in m.get_raw_parameters().items():
        f.add_parameter(k, v.value)
    for k, v in m.get_raw_variables().items():
        f.add_variable(k, v.initial_value)
    for k, v in m.get_raw_derived().items():
        f.add_derived(k, fn=v.fn, args=list(v.args))
    for k, v in m.get_raw_reactions().items():
        f.add_reaction(k, fn=v.fn, args=list(v.args), stoichiometry=dict(v.stoichiometry))
    for k, v in m.get_raw_surrogates().items():
        f.add_surrogate(k, copy.deepcopy(v))
    for k, v in m.get_raw_readouts().items():
        f.add_readout(k, fn=v.fn, args=list(v.args))
    return f


# ---------------------------------------------------------------------------------------
# generator of histories
# ---------------------------------------------------------------------------------------

POOL = [11, 12, 13, 14, 15, 16]
EXTRA = [21, 22, 23]  # surrogate outputs


def gen_valia(rng, names) -> tuple:
    if rng.random() < 0.75 or not names:
        return ("plain", rng.randint(-2, 2))
    ar = rng.choice([1, 2])
    args = [rng.choice(names) for _ in range(ar)]
    if rng.random() < WRONG_ARITY:
        ar = 3 - ar
    return ("ia", rng.choice(fnlib.BY_ARITY[ar]), args)


WRONG_ARITY = 0.04  # share of generated functions whose arity differs from the argument list


def gen_fn(rng, names) -> tuple[int, list[int]]:
    ar = rng.choice([0, 1, 1, 2, 2, 3]) if names else 0
    args = [rng.choice(names) for _ in range(ar)]
    if rng.random() < WRONG_ARITY:
        ar = rng.choice([a for a in fnlib.BY_ARITY if a != ar])
    return rng.choice(fnlib.BY_ARITY[ar]), args


def gen_coef(rng, names, allow_named=True) -> tuple:
    r = rng.random()
    if r < 0.6 or not names:
        return ("stat", rng.choice([-2, -1, 1, 2]))
    if r < 0.75 and allow_named:
        return ("named", rng.choice(names))
    f, a = gen_fn(rng, names)
    return ("dyn", f, a)


def gen_sur(rng, name, names, free) -> tuple:
    mf = rng.randrange(len(fnlib.MULTI))
    args = [rng.choice(names or POOL) for _ in range(fnlib.MULTI_ARITY[mf])]
    outs = rng.sample(EXTRA + free, fnlib.MULTI_OUT[mf]) if len(EXTRA + free) >= fnlib.MULTI_OUT[mf] else EXTRA[: fnlib.MULTI_OUT[mf]]
    st = []
    for o in outs:
        if rng.random() < 0.5:
            st.append((o, [(rng.choice(names or POOL), gen_coef(rng, names, allow_named=False))]))
    return (name, mf, args, outs, st)


def gen_batch(rng, choice: str, names, by, free, illegal: bool, hints: dict | None = None) -> tuple:
    """a batch form with 1-3 items; an illegal one gets a bad name (taken / unknown / other kind / repeated / time)
    at a random position, so that rejections happen at the first as well as at later items"""
    k = rng.choice([1, 2, 2, 3, 3])
    if choice in ("add_parameters", "add_variables"):
        pool = list(free)
        rng.shuffle(pool)
        items = [(n, gen_valia(rng, names)) for n in (pool[:k] or [rng.choice(POOL)])]
        if illegal:
            items.insert(rng.randint(0, len(items)), (rng.choice(POOL + [0]), gen_valia(rng, names)))
        return (choice, items)
    xs = by("parameter" if "parameter" in choice else "variable")
    ns = rng.sample(xs, min(k, len(xs))) if xs else []
    ia = (hints or {}).get("ia") or {}
    if choice == "scale_parameters" and ia and rng.random() < 0.6:
        # an assignment-defined parameter together with a parameter it reads, in either order (seeded/C03-4)
        p = rng.choice(sorted(ia))
        deps = [a for a in ia[p] if a in xs and a != p]
        pair = [rng.choice(deps), p] if deps else [p]
        if rng.random() < 0.3:
            pair.reverse()
        ns = pair + [n for n in ns if n not in pair][: max(0, k - len(pair))]
    if illegal or not ns:
        ns.insert(rng.randint(0, len(ns)), rng.choice(POOL + [0, 31] + ns))
    if choice == "remove_parameters":
        return (choice, ns)
    if choice == "remove_variables":
        return (choice, ns, rng.random() < 0.7)
    if choice == "scale_parameters":
        return (choice, [(n, rng.choice([-1, 2, 3])) for n in ns])
    return (choice, [(n, gen_valia(rng, names)) for n in ns])


def gen_op(rng, known: dict[int, str], force: str | None = None, hints: dict | None = None) -> tuple:
    """known: our (approximate) view of name -> kind, to make most ops legal; ~25% deliberately illegal."""
    names = list(known) + [0]
    by = lambda k: [n for n, kk in known.items() if kk == k]  # noqa: E731
    free = [n for n in POOL if n not in known]
    illegal = rng.random() < 0.25

    def pick(kind: str) -> int:
        xs = by(kind)
        if illegal or not xs:
            return rng.choice(POOL + [0, 31])
        return rng.choice(xs)

    def newname() -> int:
        if illegal or not free:
            return rng.choice(POOL + [0])
        return rng.choice(free)

    vars_ = by("variable")
    r = rng.random() if force is None else 1.0
    if r < 0.30:  # queries
        q = rng.choice(["q_ids", "q_args", "q_args", "q_rhs", "q_rhs", "q_ic", "q_parvals", "q_derpar", "q_fluxes", "q_stoich", "q_stoich"])
        if q in ("q_args", "q_rhs", "q_fluxes", "q_stoich"):
            st = None if rng.random() < 0.5 else [(v, rng.randint(-2, 2)) for v in vars_]
            return (q, st, rng.randint(0, 2))
        return (q,)
    choice = rng.choice(METHODS + BATCH) if force is None else force
    if choice in BATCH:
        return gen_batch(rng, choice, names, by, free, illegal, hints)
    need = {"parameter": "parameter", "variable": "variable", "derived": "derived", "reaction": "reaction", "readout": "readout",
            "surrogate": "surrogate", "data": "data"}
    kind_needed = next((v for k, v in need.items() if choice.endswith(k) and not choice.startswith("add_")), None)
    if choice in ("make_parameter_dynamic", "scale_parameter"):
        kind_needed = "parameter"
    if choice == "make_variable_static":
        kind_needed = "variable"
    if kind_needed is not None and not by(kind_needed) and rng.random() < 0.8:
        choice = "add_" + kind_needed  # nothing of that kind yet: build up the model instead
    if choice == "add_parameter":
        return (choice, newname(), gen_valia(rng, names))
    if choice == "remove_parameter":
        return (choice, pick("parameter"))
    if choice == "update_parameter":
        return (choice, pick("parameter"), gen_valia(rng, names))
    if choice == "scale_parameter":
        return (choice, pick("parameter"), rng.choice([-1, 2, 3]))
    if choice == "make_parameter_dynamic":
        sto = None
        if rng.random() < 0.5:
            # reactions, and surrogate outputs with (21) and without (22, ...) a stoichiometry entry of their own
            rx = by("reaction") + EXTRA[:2] + [n for n in by("surrogate") if rng.random() < 0.5]
            sto = [(rng.choice(rx if not illegal else rx + [31]), rng.choice([-1, 1, 2]))] if rx else None
        return (choice, pick("parameter"), None if rng.random() < 0.6 else ("plain", rng.randint(-2, 2)), sto)
    if choice == "add_variable":
        return (choice, newname(), gen_valia(rng, names))
    if choice == "remove_variable":
        return (choice, pick("variable"), rng.random() < 0.7)
    if choice == "update_variable":
        return (choice, pick("variable"), gen_valia(rng, names))
    if choice == "make_variable_static":
        return (choice, pick("variable"), None if rng.random() < 0.6 else ("plain", rng.randint(-2, 2)))
    if choice == "add_derived":
        f, a = gen_fn(rng, names)
        return (choice, newname(), f, a)
    if choice == "update_derived":
        f, a = gen_fn(rng, names)
        mode = rng.random()
        return (choice, pick("derived"), f if mode < 0.7 else None, a if mode < 0.7 else None)
    if choice == "remove_derived":
        return (choice, pick("derived"))
    if choice == "add_reaction":
        f, a = gen_fn(rng, names)
        tg = rng.sample(vars_, min(len(vars_), rng.randint(0, 2))) if vars_ else []
        return (choice, newname(), f, a, [(c, gen_coef(rng, by("parameter") + vars_)) for c in tg])
    if choice == "update_reaction":
        f, a = gen_fn(rng, names)
        tg = rng.sample(vars_, min(len(vars_), rng.randint(0, 2))) if vars_ else []
        mode = rng.random()
        return (choice, pick("reaction"), f if mode < 0.6 else None, a if mode < 0.6 else None,
                [(c, gen_coef(rng, by("parameter") + vars_)) for c in tg] if rng.random() < 0.5 else None)
    if choice == "remove_reaction":
        return (choice, pick("reaction"))
    if choice == "add_readout":
        f, a = gen_fn(rng, names)
        return (choice, newname(), f, a)
    if choice == "remove_readout":
        return (choice, pick("readout"))
    if choice == "add_surrogate":
        n = newname()
        s = gen_sur(rng, n, [x for x in names if x], [x for x in free if x != n])
        over = rng.random() < 0.25
        return (choice, n, s, None, (s[3][::-1] if over else None), None)
    if choice == "update_surrogate":
        n = pick("surrogate")
        mode = rng.random()
        s = gen_sur(rng, n, [x for x in names if x], free) if mode < 0.5 else None
        outs = None
        if mode >= 0.5:
            k = rng.choice([1, 2])
            outs = rng.sample(EXTRA + free, k) if len(EXTRA + free) >= k else None
        return (choice, n, s, None, outs, None)
    if choice == "remove_surrogate":
        return (choice, pick("surrogate"))
    if choice == "add_data":
        return (choice, newname(), rng.randint(-2, 2))
    if choice == "update_data":
        return (choice, pick("data"), rng.randint(-2, 2))
    if choice == "remove_data":
        return (choice, pick("data"))
    raise AssertionError(choice)


# minimised past failures (seeded changes, earlier defects): always run first
_ALLQ = [("q_ids",), ("q_args", None, 0), ("q_rhs", None, 0), ("q_ic",), ("q_parvals",), ("q_derpar",), ("q_fluxes", None, 0), ("q_stoich", None, 0)]
CORPUS: list[list[tuple]] = [
    # a parameter read ONLY as a named / computed stoichiometric coefficient is rescaled after a query (seeded/C03-1)
    [("add_parameter", 11, ("plain", 2)), ("add_variable", 12, ("plain", 1)), ("add_variable", 16, ("plain", -1)),
     ("add_parameter", 36, ("plain", 2)), ("add_reaction", 35, 4, [11, 12], [(16, ("named", 36)), (12, ("dyn", 1, [36]))]),
     ("q_stoich", None, 0), ("scale_parameter", 36, 2), *_ALLQ, ("update_parameters", [(36, ("plain", 5))]), *_ALLQ,
     ("scale_parameters", [(36, 3)]), *_ALLQ],
    # a surrogate replaced by an object with other outputs, outputs= not given (seeded/C03-2)
    [("add_data", 13, 2), ("add_parameter", 12, ("plain", 1)),
     ("add_surrogate", 16, (16, 2, [13], [11, 14, 22], [(14, [(13, ("dyn", 2, [13, 12]))]), (22, [(13, ("stat", -1))])]), None, None, None),
     ("update_surrogate", 16, (16, 1, [13, 22], [22, 23], [(23, [(14, ("stat", -1))])]), None, None, None), ("q_ids",),
     ("add_variable", 11, ("plain", 0)), ("add_variable", 23, ("plain", 0)), ("remove_surrogate", 16), ("q_ids",)],
    # make_parameter_dynamic with a surrogate output that is not a flux as stoichiometry target (seeded/C03-3)
    [("add_parameter", 13, ("plain", 2)), ("q_derpar",),
     ("add_surrogate", 12, (12, 3, [13, 13], [21, 16], [(16, [(13, ("dyn", 6, [13]))])]), None, [16, 21], None),
     ("make_parameter_dynamic", 13, ("plain", 1), [(21, 2)]), ("q_ids",), ("q_ic",)],
    # batch edits rejected at the second / third item, after a query
    [("add_parameters", [(11, ("plain", 2)), (17, ("ia", 0, [11]))]), ("add_variables", [(12, ("plain", 1)), (16, ("plain", 3))]),
     ("q_ic",), ("add_parameters", [(14, ("plain", 1)), (0, ("plain", 2)), (15, ("plain", 3))]), ("remove_parameters", [11, 11]),
     ("update_parameters", [(11, ("plain", 7)), (31, ("plain", 1))]), ("add_derived", 13, 0, [31]),
     ("scale_parameters", [(11, 3), (17, 2)]), ("remove_derived", 13), ("add_variables", [(14, ("plain", 0)), (11, ("plain", 0))]),
     ("update_variables", [(12, ("plain", 5)), (31, ("plain", 0))]), ("remove_variables", [12, 31], True), *_ALLQ],
    # a function of wrong arity is accepted by every mutator; the error surfaces at the next cache construction
    [("add_parameter", 11, ("plain", 2)), ("add_variable", 12, ("plain", 1)), ("add_parameter", 17, ("ia", 0, [11])),
     ("add_derived", 13, 2, [11]), ("q_ic",), ("scale_parameter", 17, 2), ("add_derived", 14, 0, [31]), ("q_args", None, 0),
     ("update_derived", 13, 0, None), ("q_args", None, 0), ("remove_derived", 14), ("add_readout", 15, 4, [12]), ("q_ic",),
     ("remove_readout", 15), ("add_reaction", 15, 0, [11, 12], [(12, ("dyn", 2, [11]))]), ("q_rhs", None, 0),
     ("update_reaction", 15, None, [11], None), *_ALLQ],
    # scale_parameters over a parameter and an assignment-defined parameter that reads it, after a query, in both orders: the
    # later entry is scaled from the value the earlier entries of the SAME batch left behind (seeded/C03-4)
    [("add_parameter", 11, ("plain", 2)), ("add_parameter", 17, ("ia", 4, [11, 11])), ("add_variable", 12, ("plain", 1)),
     ("add_reaction", 14, 4, [12, 17], [(12, ("stat", -1))]), ("q_args", None, 0), ("scale_parameters", [(11, 2), (17, 3)]), *_ALLQ,
     ("update_parameter", 17, ("ia", 2, [11, 11])), ("q_parvals",), ("scale_parameters", [(17, 3), (11, 2)]), *_ALLQ],
    # ONE stoichiometry mapping for two reactions, then make_parameter_dynamic names one of them (seeded/C03-5); the same through
    # update_reaction; the harness hands the same dict object to both calls and overwrites it afterwards
    [("add_variable", 12, ("plain", 1)), ("add_variable", 16, ("plain", 2)), ("add_parameter", 11, ("plain", 2)),
     ("add_parameter", 13, ("plain", 3)), ("add_reaction", 14, 4, [12, 11], [(12, ("stat", -1)), (16, ("stat", 1))]),
     ("add_reaction", 15, 4, [16, 11], [(12, ("stat", -1)), (16, ("stat", 1))]), ("q_rhs", None, 0),
     ("make_parameter_dynamic", 13, None, [(14, 1)]), *_ALLQ,
     ("update_reaction", 14, None, None, [(12, ("stat", 2))]), ("update_reaction", 15, None, None, [(12, ("stat", 2))]), ("q_args", None, 0),
     ("make_variable_static", 13, None), ("make_parameter_dynamic", 13, ("plain", 1), [(15, 2)]), *_ALLQ],
    # a computed coefficient over a VARIABLE (dyn_stoich_by_cpds): get_stoichiometries for several states, every other query in
    # between -- a query must not change what later queries answer (seeded/C03-6)
    [("add_variable", 12, ("plain", 2)), ("add_variable", 16, ("plain", 1)), ("add_parameter", 11, ("plain", 2)),
     ("add_reaction", 14, 4, [12, 11], [(12, ("stat", -1)), (16, ("dyn", 6, [12]))]),
     ("add_reaction", 15, 4, [16, 11], [(16, ("named", 12))]),
     ("q_stoich", None, 0), ("q_rhs", None, 0), ("q_stoich", [(12, -2), (16, 1)], 1), ("q_rhs", None, 0), ("q_rhs", [(12, 1), (16, 2)], 0),
     ("q_fluxes", None, 0), ("q_stoich", None, 0), ("q_args", None, 0), ("update_parameter", 11, ("plain", 2)),
     ("q_stoich", [(12, 2), (16, -1)], 0), *_ALLQ],
    # update_derived(args=...) alone after a query: the answers follow the new wiring, errors included (seeded/C02-6)
    [("add_parameter", 11, ("plain", 2)), ("add_parameter", 12, ("plain", 5)), ("add_derived", 13, 0, [11]), ("add_derived", 14, 1, [13]),
     ("q_args", None, 0), ("update_derived", 13, None, [12]), ("q_args", None, 0), ("q_parvals",), ("q_derpar",),
     ("update_derived", 13, None, [14]), ("q_args", None, 0), ("update_derived", 13, None, [31]), ("q_args", None, 0),
     ("update_derived", 13, None, [11]), *_ALLQ],
    # update_reaction(stoichiometry=...) with a coefficient given by NAME, after a query: every answer follows the new
    # stoichiometry at once; then rate arguments + named coefficient together, an edit of the named parameter, a name the model
    # does not know (accepted; the next cache construction reports the missing dependency), and back to numbers (seeded/C03-8)
    [("add_parameter", 11, ("plain", 2)), ("add_parameter", 13, ("plain", 3)), ("add_parameter", 36, ("plain", 2)),
     ("add_variable", 12, ("plain", 4)), ("add_variable", 16, ("plain", 1)),
     ("add_reaction", 14, 4, [12, 11], [(12, ("stat", -1)), (16, ("stat", 1))]), ("q_rhs", None, 0),
     ("update_reaction", 14, None, None, [(12, ("stat", -1)), (16, ("named", 36))]), *_ALLQ,
     ("update_reaction", 14, None, [12, 13], [(12, ("named", 36)), (16, ("stat", 1))]), *_ALLQ,
     ("update_parameter", 36, ("plain", 5)), *_ALLQ,
     ("update_reaction", 14, None, None, [(12, ("stat", -1)), (16, ("named", 41))]), *_ALLQ,
     ("update_reaction", 14, None, None, [(12, ("stat", -1)), (16, ("stat", 2))]), *_ALLQ],
    # the same on a model that was never asked anything before the update (seeded/C03-8, "no query before")
    [("add_parameter", 11, ("plain", 2)), ("add_parameter", 36, ("plain", 3)), ("add_variable", 12, ("plain", 4)),
     ("add_variable", 16, ("plain", 1)), ("add_reaction", 14, 4, [12, 11], [(12, ("stat", -1)), (16, ("stat", 1))]),
     ("update_reaction", 14, None, None, [(12, ("stat", -1)), (16, ("named", 36))]), ("q_stoich", None, 0), ("q_rhs", None, 0),
     ("update_reaction", 14, 2, [12, 11], [(16, ("named", 12))]), ("q_rhs", [(12, 2), (16, 1)], 1), *_ALLQ],
]


def is_query(op: tuple) -> bool:
    return op[0].startswith("q_")


# ---------------------------------------------------------------------------------------
# Gallina literals
# ---------------------------------------------------------------------------------------


def coq_opt_valia(v) -> str:
    return copt(None if v is None else "(" + modelgen.coq_valia(v) + ")")


def coq_sur(s) -> str:
    _n, f, a, o, st = s
    return (
        f"(mkSur {cn(f)} {clist(map(cn, a))} {clist(map(cn, o))} "
        f"{clist('(' + cn(x) + ', ' + modelgen.coq_st(e) + ')' for x, e in st)})"
    )


def coq_names_opt(x) -> str:
    return copt(None if x is None else clist(map(cn, x)))


def coq_op(op: tuple) -> str:
    k = op[0]
    if k == "q_ids":
        return "Ask QIds"
    if k in ("q_args", "q_rhs"):
        st = copt(None if op[1] is None else modelgen.coq_env(op[1]))
        return f"Ask ({'QArgs' if k == 'q_args' else 'QRhs'} {st} {cz(op[2])})"
    if k in ("q_fluxes", "q_stoich"):
        st = copt(None if op[1] is None else modelgen.coq_env(op[1]))
        return f"Ask ({'QFluxes' if k == 'q_fluxes' else 'QStoich'} {st} {cz(op[2])})"
    if k == "q_ic":
        return "Ask QIc"
    if k == "q_parvals":
        return "Ask QParVals"
    if k == "q_derpar":
        return "Ask QDerParNames"
    if k in BATCH:
        if k == "remove_parameters":
            return f"Bat (RemovePars {clist(map(cn, op[1]))})"
        if k == "remove_variables":
            return f"Bat (RemoveVars {clist(map(cn, op[1]))} {'true' if op[2] else 'false'})"
        if k == "scale_parameters":
            return f"Bat (ScalePars {clist(f'({cn(n)}, {cz(q)})' for n, q in op[1])})"
        con = {"add_parameters": "AddPars", "update_parameters": "UpdatePars", "add_variables": "AddVars", "update_variables": "UpdateVars"}[k]
        return f"Bat ({con} {clist(f'({cn(n)}, {modelgen.coq_valia(v)})' for n, v in op[1])})"
    n = cn(op[1])
    if k == "add_parameter":
        return f"Mut (AddPar {n} ({modelgen.coq_valia(op[2])}))"
    if k == "remove_parameter":
        return f"Mut (RemovePar {n})"
    if k == "update_parameter":
        return f"Mut (UpdatePar {n} (Some ({modelgen.coq_valia(op[2])})))"
    if k == "scale_parameter":
        return f"Mut (ScalePar {n} {cz(op[2])})"
    if k == "make_parameter_dynamic":
        sto = copt(None if op[3] is None else clist(f"({cn(r)}, {cz(q)})" for r, q in op[3]))
        return f"Mut (MakeParDynamic {n} {coq_opt_valia(op[2])} {sto})"
    if k == "add_variable":
        return f"Mut (AddVar {n} ({modelgen.coq_valia(op[2])}))"
    if k == "remove_variable":
        return f"Mut (RemoveVar {n} {'true' if op[2] else 'false'})"
    if k == "update_variable":
        return f"Mut (UpdateVar {n} ({modelgen.coq_valia(op[2])}))"
    if k == "make_variable_static":
        return f"Mut (MakeVarStatic {n} {coq_opt_valia(op[2])})"
    if k == "add_derived":
        return f"Mut (AddDer {n} {cn(op[2])} {clist(map(cn, op[3]))})"
    if k == "update_derived":
        return f"Mut (UpdateDer {n} {copt(None if op[2] is None else cn(op[2]))} {coq_names_opt(op[3])})"
    if k == "remove_derived":
        return f"Mut (RemoveDer {n})"
    if k == "add_reaction":
        return f"Mut (AddRxn {n} {cn(op[2])} {clist(map(cn, op[3]))} {modelgen.coq_st(op[4])})"
    if k == "update_reaction":
        return (
            f"Mut (UpdateRxn {n} {copt(None if op[2] is None else cn(op[2]))} {coq_names_opt(op[3])} "
            f"{copt(None if op[4] is None else modelgen.coq_st(op[4]))})"
        )
    if k == "remove_reaction":
        return f"Mut (RemoveRxn {n})"
    if k == "add_readout":
        return f"Mut (AddRo {n} {cn(op[2])} {clist(map(cn, op[3]))})"
    if k == "remove_readout":
        return f"Mut (RemoveRo {n})"
    if k == "add_surrogate":
        return f"Mut (AddSur {n} {coq_sur(op[2])} {coq_names_opt(op[3])} {coq_names_opt(op[4])} None)"
    if k == "update_surrogate":
        return f"Mut (UpdateSur {n} {copt(None if op[2] is None else coq_sur(op[2]))} {coq_names_opt(op[3])} {coq_names_opt(op[4])} None)"
    if k == "remove_surrogate":
        return f"Mut (RemoveSur {n})"
    if k == "add_data":
        return f"Mut (AddDat {n} {cz(op[2])})"
    if k == "update_data":
        return f"Mut (UpdateDat {n} {cz(op[2])})"
    if k == "remove_data":
        return f"Mut (RemoveDat {n})"
    raise AssertionError(k)


def coq_obs(o: tuple) -> str:
    if o[0] == "mut":
        ids = clist(f"({cn(a)}, {cn(b)})" for a, b in o[2])
        cont = clist(clist(map(cn, ks)) for ks in o[3])
        vals = clist(clist(f"({cn(a)}, {copt(None if b is None else cz(b))})" for a, b in vs) for vs in o[4])
        return f"OMut {copt(None if o[1] is None else cn(o[1]))} {ids} {cont} {vals}"
    if o[0] == "ids":
        return "OIds " + clist(f"({cn(a)}, {cn(b)})" for a, b in o[1])
    if o[0] == "pairs":
        return "OPairs " + modelgen.coq_env(o[1])
    if o[0] == "names":
        return "ONames " + clist(map(cn, o[1]))
    if o[0] == "table":
        return f"OTable {clist(map(cn, o[1]))} {clist(map(cn, o[2]))} {clist(f'({cn(r)}, {cn(c)}, {cz(v)})' for r, c, v in o[3])}"
    return f"OErr {cn(o[1])}"


CORR_HEADER = """From Coq Require Import ZArith List Bool.
From MxlBase Require Import ListX.
From Core Require Import Sort Model.
From Edit Require Import GenEditFacts ModelSM CorrC03.
Import ListNotations.
"""


def corr_file(hists: list[str]) -> str:
    return (
        CORR_HEADER
        + "Definition cases : list (list (op * obs * bool)) := [\n  "
        + ";\n  ".join(hists)
        + "\n].\nEval vm_compute in (filter_idx (fun h => negb (history_ok h)) cases).\n"
    )


# ---------------------------------------------------------------------------------------
# running one history on the implementation (+ oracle)
# ---------------------------------------------------------------------------------------


_FINDINGS: list[dict] | None = None


def known_findings() -> list[dict]:
    """the recorded findings of C03, read ONCE per process (the merged file is rewritten by tools/mkmanifest.py, which other
    engineers run concurrently: a read that hits the file half-written is repeated)"""
    global _FINDINGS
    if _FINDINGS is None:
        import json
        import time

        for attempt in range(5):
            try:
                _FINDINGS = common.load_known_findings("C03")
                break
            except (json.JSONDecodeError, OSError):
                time.sleep(0.5 * (attempt + 1))
        else:
            _FINDINGS = common.load_known_findings("C03")
    return _FINDINGS


FINDING_GETTERS = "C03-query-results-alias-cache"
FINDING_INPUTS = "C03-mutators-keep-caller-lists"
ALIASING_GETTERS = ("q_ic", "q_parvals")  # guard of FINDING_GETTERS: get_initial_conditions / get_parameter_values
PROBE = ("q_rhs", None, 0)


def listed(fid: str) -> bool:
    return any(f.get("id") == fid for f in known_findings())


def batch_listed() -> bool:
    """is the partial application of rejected batch edits a recorded finding (the tree before the fix)?"""
    return listed(FINDING_BATCH)


def partial_as_fold(before_model, op: tuple, after) -> bool:
    """independent replay of a rejected batch edit on a copy of the pre-state: the single-item calls one by one
    until the first one raises; True iff that is exactly the state the batch form left behind"""
    for it in batch_items(op):
        try:
            apply_mutator(before_model, it)
        except Exception:  # noqa: BLE001
            break
    return deep_content(before_model) == after


def poison(objs) -> list:
    """the CALLER changes objects it owns: every dict / list (recursively) is emptied and given one junk entry, a Series /
    DataFrame is overwritten in place.  -> what is needed to undo it"""
    import pandas as pd

    saved: list = []
    seen: set[int] = set()

    def rec(o) -> None:
        if id(o) in seen:
            return
        if isinstance(o, dict):
            seen.add(id(o))
            for v in list(o.values()):
                rec(v)
            saved.append((o, dict(o)))
            o.clear()
            o[nm(77)] = 77
        elif isinstance(o, list):
            seen.add(id(o))
            for v in o:
                rec(v)
            saved.append((o, list(o)))
            o.clear()
            o.append(nm(77))
        elif isinstance(o, (pd.Series, pd.DataFrame)):
            seen.add(id(o))
            saved.append((o, o.copy()))
            if o.size:
                o[:] = 77.0

    for o in objs:
        rec(o)
    return saved


def unpoison(saved: list) -> None:
    import pandas as pd

    for o, old in reversed(saved):
        if isinstance(o, dict):
            o.clear()
            o.update(old)
        elif isinstance(o, list):
            o.clear()
            o.extend(old)
        elif isinstance(o, (pd.Series, pd.DataFrame)) and o.size:
            o[:] = old.to_numpy()


def safe_content(m):
    try:
        return deep_content(m)
    except Exception as e:  # noqa: BLE001 -- a poisoned container inside the model can make it unreadable
        return ("unreadable", type(e).__name__)


def _count(stats: dict | None, fid: str, example) -> None:
    if stats is not None:
        k = stats.setdefault("known", {})
        k[fid] = k.get(fid, 0) + 1
        stats.setdefault("known_example", {}).setdefault(fid, example)


class ObsList(list):
    """the observations of one history; `cached[i]`: did the model hold a memoised cache right after step i?"""

    def __init__(self) -> None:
        super().__init__()
        self.cached: list[bool] = []


def run_history(ops: list[tuple], stats: dict | None = None):
    """-> (observations, violation or None).  Raises Discard for histories outside the modelled domain.

    Oracles (none of them consults the Coq model):
      * after every query a fresh Model rebuilt from the raw content answers identically, and so does it for the probe
        get_right_hand_side() asked right after the query (a query must not change later answers);
      * the object a query returned is overwritten by the caller, the same query asked again answers as before;
      * every edit is applied as well to a fresh Model rebuilt from the content before the edit (no cache, own argument
        objects): same outcome, same content -- what an edit does depends on the content only;
      * the container arguments of the edit (shared between the calls of the history, see Inputs) are overwritten by the
        caller after the call: the content stays as it was;
      * a rejected edit changes nothing; the registry is the union of the containers."""
    from mxlpy import Model

    m = Model()
    obs = ObsList()
    viol = None
    listed_batch = batch_listed()
    inp = Inputs()
    for i, op in enumerate(ops):
        if is_query(op):
            raw: list = []
            a = ask(m, op, raw)
            obs.append(a)
            obs.cached.append(m._cache is not None)  # noqa: SLF001 -- memo presence, compared with the state machine
            if viol is not None:
                continue
            # oracle: a freshly built model with the same content answers identically
            try:
                fresh = rebuild_fresh(m)
                b = ask(fresh, op)
            except Discard:
                raise
            except Exception as e:  # noqa: BLE001
                b = ("rebuild-failed", f"{type(e).__name__}: {e}")
            same = (a == b) if a[0] != "ids" else (dict(a[1]) == dict(b[1]))
            if not same:
                viol = (i, f"after the history, {op[0]} answers {a} but a freshly built model with the same content answers {b}")
                continue
            # the caller overwrites what it was handed; the same question is answered as before
            saved = poison(raw)
            try:
                a2 = ask(m, op)
            except Discard:
                a2 = ("unreadable",)
            unpoison(saved)
            if a2 != a:
                if op[0] in ALIASING_GETTERS and listed(FINDING_GETTERS):
                    _count(stats, FINDING_GETTERS, {"history": list(ops[: i + 1])})
                else:
                    viol = (i, f"{op[0]} hands out an object that aliases the model: after the caller overwrote the returned "
                               f"object the same query answers {a2} instead of {a}")
                    continue
            # a query does not change later answers: the right hand side asked now equals that of a fresh model
            # (one that has not been asked `op` before)
            if b[0] != "rebuild-failed":
                try:
                    # asked of a COPY (memo state included): the model itself sees exactly the calls of the history, so that
                    # the presence of its memo can be compared with the state machine step by step
                    pa = ask(copy.deepcopy(m), PROBE)
                    pb = ask(rebuild_fresh(m), PROBE)
                except Discard:
                    continue
                except Exception as e:  # noqa: BLE001
                    pa, pb = ("probe",), ("rebuild-failed", f"{type(e).__name__}: {e}")
                if pa != pb:
                    viol = (i, f"after {op[0]} was answered, get_right_hand_side answers {pa} but a freshly built model with the "
                               f"same content answers {pb}: a query changed a later answer")
        else:
            before = deep_content(m)
            snapshot = copy.deepcopy(m) if op[0] in BATCH and listed_batch else None
            twin = None
            if viol is None:
                try:
                    twin = rebuild_fresh(m)
                    if deep_content(twin)[1:] != before[1:] or dict(twin.ids) != before[0]:
                        twin = None  # cannot happen while the registry is consistent; then this oracle is skipped
                except Exception:  # noqa: BLE001
                    twin = None
            inp.touched = []
            exc = None
            if stats is not None:
                _coverage(stats, m, op)
            try:
                apply_mutator(m, op, inp)
                rej = None
            except Exception as e:  # noqa: BLE001
                exc = e
                rej = errcode(e)
            obs.cached.append(m._cache is not None)  # noqa: SLF001
            after = deep_content(m)
            if rej is not None and after != before:
                # recorded finding (tree before fixes/C03-batch-edits-atomic.diff): a batch form is a plain fold and
                # leaves the items before the rejected one applied -- exactly that, nothing else, is excused
                if listed_batch and snapshot is not None and partial_as_fold(snapshot, op, after):
                    if stats is not None:
                        stats["batch_partial"] = stats.get("batch_partial", 0) + 1
                        stats.setdefault("batch_partial_example", {"history": list(ops[: i + 1]), "error": type(exc).__name__})
                    twin = None
                elif viol is None:
                    viol = (i, f"rejected edit {op[0]} ({type(exc).__name__}) changed the model: {before} -> {after}")
            obs.append(("mut", rej, [(un(a), KINDCODE[b]) for a, b in m.ids.items()], content_keys(m), content_vals(m)))
            # what an edit does depends on the content only: same call on a fresh model with the content before the edit
            if viol is None and twin is not None:
                try:
                    apply_mutator(twin, op)
                    trej = None
                except Exception as e:  # noqa: BLE001
                    trej = ERRCODE.get(type(e).__name__, type(e).__name__)
                tafter = deep_content(twin)
                if trej != rej or tafter != after:
                    viol = (i, f"{op[0]} depends on more than the content (memoised cache / objects shared with earlier calls): on this "
                               f"model outcome {rej}, content {after}; on a freshly built model with the same content before "
                               f"the edit outcome {trej}, content {tafter}")
            # the arguments were values: the caller overwrites its own containers, the model stays as it is
            if viol is None:
                for cls in ("map", "args"):
                    objs = [o for c, o in inp.touched if c == cls]
                    if not objs:
                        continue
                    saved = poison(objs)
                    now = safe_content(m)
                    unpoison(saved)
                    if now != after:
                        if cls == "args" and listed(FINDING_INPUTS):
                            _count(stats, FINDING_INPUTS, {"history": list(ops[: i + 1])})
                        else:
                            viol = (i, f"{op[0]} keeps the caller's {'mapping' if cls == 'map' else 'list'} object: after the call the "
                                       f"caller overwrote its own argument and the model changed without any edit: {after} -> {now}")
                            break
            # an edit leaves nothing behind that a later query could see: a COPY of the model as the edit left it (memo
            # state included; the model itself is not asked, so the history stays what it is) answers like a fresh rebuild
            if viol is None:
                viol = _edit_probe(m, op, i, rej)
            # single name space: the registry is exactly the union of the containers
            if viol is None:
                ck = content_keys(m)
                reg = set(un(a) for a in m.ids)
                outs = {un(o) for s in m.get_raw_surrogates(as_copy=False).values() for o in s.outputs}
                union = [x for ks in ck for x in ks] + list(outs)
                if reg != set(union) or len(union) != len(set(union)):
                    viol = (i, f"name space inconsistent after {op[0]}: ids={sorted(reg)} containers={ck} outputs={sorted(outs)}")
    if stats is not None:
        stats["shared_argument_objects"] = stats.get("shared_argument_objects", 0) + inp.shared
    return obs, viol


EDIT_PROBES = (("q_args", None, 0), ("q_rhs", None, 0), ("q_stoich", None, 0))


def _edit_probe(m, op: tuple, i: int, rej):
    """right after an edit (accepted or rejected): get_args / get_right_hand_side / get_stoichiometries of a deep copy of the model
    against the same questions to a freshly built model with the same content -> violation or None"""
    try:
        mc = copy.deepcopy(m)
        fresh = rebuild_fresh(m)
    except Exception:  # noqa: BLE001 -- cannot happen while the registry is consistent; then this oracle is skipped
        return None
    for pq in EDIT_PROBES:
        try:
            pa = ask(mc, pq)
            pb = ask(fresh, pq)
        except Discard:
            return None
        if pa != pb:
            return (i, f"right after {op[0]} ({'accepted' if rej is None else 'rejected'}), before any other call, {pq[0]} answers {pa} "
                       f"but a freshly built model with the same content answers {pb}: the edit left a stale memo behind")
    return None


def _coverage(stats: dict, m, op: tuple) -> None:
    """how often the generated edits hit the situations the aliasing / batch oracles need"""
    from mxlpy.types import InitialAssignment

    if op[0] == "scale_parameters" and len(op[1]) > 1:
        pars = m.get_raw_parameters(as_copy=False)
        if any(isinstance(getattr(pars.get(nm(n)), "value", None), InitialAssignment) for n, _q in op[1]):
            stats["scale_batches_with_assigned_parameter"] = stats.get("scale_batches_with_assigned_parameter", 0) + 1
    if op[0] == "update_reaction" and op[4] and any(cf[0] == "named" for _c, cf in op[4]) and nm(op[1]) in m.get_raw_reactions(as_copy=False):
        stats["update_reaction_with_named_coefficient"] = stats.get("update_reaction_with_named_coefficient", 0) + 1
    if op[0] in ("add_reaction", "update_reaction") and op[4]:
        vs = set(m.get_raw_variables(as_copy=False))
        for _c, cf in op[4]:
            reads = [cf[1]] if cf[0] == "named" else (cf[2] if cf[0] == "dyn" else [])
            if any(nm(a) in vs for a in reads):
                stats["variable_dependent_coefficients"] = stats.get("variable_dependent_coefficients", 0) + 1
                break


def track(known: dict[int, str], op: tuple, ob: tuple) -> None:
    """update the generator's view of the name space from what the implementation reported"""
    if ob[0] != "mut":
        return
    inv = {v: k for k, v in KINDCODE.items()}
    known.clear()
    for a, b in ob[2]:
        known[a] = inv[b]


def gen_history(rng, length: int):
    """Generate adaptively: ops are drawn knowing the registry the implementation reported so far, which parameters are
    given by an initial assignment (and what they read), and the stoichiometries used so far (re-used for other reactions
    with probability 0.3, so that the SAME mapping object reaches several reactions, see Inputs)."""
    from mxlpy import Model
    from mxlpy.types import InitialAssignment

    ops: list[tuple] = []
    known: dict[int, str] = {}
    recent: list[list] = []
    m = Model()
    for _ in range(length):
        ia = {un(k): [un(a) for a in v.value.args] for k, v in m.get_raw_parameters(as_copy=False).items()
              if isinstance(v.value, InitialAssignment)}
        op = gen_op(rng, dict(known), hints={"ia": ia})
        if op[0] in ("add_reaction", "update_reaction") and op[4] is not None:
            if recent and rng.random() < 0.3:
                op = (*op[:4], rng.choice(recent))
            elif op[4] and op[4] not in recent:
                recent.append(op[4])
        ops.append(op)
        if not is_query(op):
            try:
                apply_mutator(m, op)
            except Exception:  # noqa: BLE001
                pass
            known = {un(a): b for a, b in m.ids.items()}
    return ops


def gen_named_update(rng, base: list[tuple], base2: list[tuple], base3: list[tuple]) -> list[tuple]:
    """one history of the named-coefficient family (see check)"""
    pop, rxns, pars, ders = rng.choice([
        (base, [14], [11, 33], [13]),
        (base2, [14, 35], [11, 33, 36], [13, 34]),
        (base3, [14, 37, 38], [11, 33, 36, 39], [13]),
    ])
    rx = rng.choice(rxns)
    r = rng.random()
    named = (rng.choice(pars) if r < 0.55 else rng.choice([12, 16]) if r < 0.7 else rng.choice(ders) if r < 0.85
             else 0 if r < 0.92 else 41)
    tg = rng.sample([12, 16], rng.choice([1, 2, 2]))
    k = rng.randrange(len(tg))
    sto = [(c, ("named", named) if j == k else gen_coef(rng, pars + [12, 16])) for j, c in enumerate(tg)]
    f, a = (None, None)
    if rng.random() < 0.35:
        f, a = gen_fn(rng, pars + [12, 16] + ders)
    pre = rng.choice([[], [], [("q_rhs", None, 0)], [("q_stoich", None, 0)], [("q_args", None, 0)], [("q_fluxes", None, 0), ("q_ic",)]])
    if named in pars:
        heal = ("update_parameter", named, ("plain", rng.choice([-1, 3, 5])))
    elif named in (12, 16):
        heal = ("update_variable", named, ("plain", rng.choice([-1, 3, 5])))
    else:
        heal = ("update_parameter", 11, ("plain", rng.choice([-1, 3, 5])))
    qs = list(_ALLQ)
    if rng.random() < 0.5:
        qs = [("q_stoich", [(12, rng.randint(-2, 2)), (16, rng.randint(-2, 2))], rng.randint(0, 2)),
              ("q_rhs", [(12, rng.randint(-2, 2)), (16, rng.randint(-2, 2))], rng.randint(0, 2))] + qs
    return list(pop) + pre + [("update_reaction", rx, f, a, sto)] + qs + [heal] + list(_ALLQ)


def check(run: Run) -> None:
    global _FINDINGS
    _FINDINGS = None
    thorough = run.tier == "thorough"
    facts = gen()
    run.coverage["gen_facts"] = facts
    run.rule = (
        "histories of 3-14 public Model operations (23 single-item mutators incl. surrogate/readout/data ones, the 7 batch forms with "
        "1-3 items, 8 query kinds incl. get_fluxes / get_stoichiometries), names from a pool of 6 (+time, +3 surrogate outputs), ~25% "
        "deliberately illegal edits (duplicate/unknown/wrong-kind/repeated names; in a batch at a random position), ~4% functions whose "
        "arity differs from their argument list, generated adaptively from the registry so that most edits are legal; plus all "
        "histories `populate ; query ; mutator ; every query` over every single-item and batch mutator; compared with the Gallina "
        "state machine after every step (outcome class, registry, container keys, raw parameter/variable values, answers); "
        "second round: coefficients may read variables, stoichiometries are re-used between reactions (one mapping object), "
        "scale_parameters batches biased towards an assigned parameter plus a parameter it reads, a third populated model with two "
        "reactions built from one mapping, all ordered pairs of query kinds with non-initial states; every edit is also made on a fresh "
        "rebuild of the pre-state, argument containers and returned objects are overwritten by the caller, the rhs is probed after "
        "every query; third round: 30 (quick) / 120 (thorough) histories `populate ; [query] ; update_reaction with a coefficient given by "
        "NAME (parameter / variable / derived / time / unknown name) ; queries ; edit of the named quantity ; every query` from an own "
        "random stream, right after EVERY edit get_right_hand_side and get_stoichiometries of a deep copy of the model are compared with "
        "a fresh rebuild, and the presence of the memoised cache after every step is part of the comparison with the state machine; "
        "non-trivial = history contains a query followed later by a mutator and another query; distinct by content"
    )
    run.check_proofs(AREA, PROPS)
    run.check_proofs("editproofs", "PropsC03b.v")  # registry / rejected-edit / name-reuse theorems
    run.assumptions += [
        "Coq 8.16.1 kernel + vm_compute; theorems closed under the global context (see trusted_base)",
        "modelled: containers as ordered association lists, surrogates as MockSurrogate records, data sets as scalars, "
        "functions from the polynomial library (plain positional signatures; ArityMismatchError is recorded in the class of "
        "TypeError; units and sources are outside the model; objects handed over as such -- InitialAssignment, Derived coefficients, "
        "surrogate and data objects -- are shared by design and not part of the value discipline checked here)",
        "caller writes to exchanged containers: modelled in coq/edit/Alias.v by regenerated mode (body texts of the two getters and the "
        "seven container-taking mutators compared as a whole); the overwrite-and-compare of the harness is an oracle on the real code "
        "only, the Alias.v semantics are not in the vm_compute correspondence",
        "batch forms: modelled in the two forms harness/c03_facts.py recognises statement by statement (plain fold / validate-first "
        "of fixes/C03-batch-edits-atomic.diff); Mapping arguments as the list of pairs the dict is built from",
        "fact extractor (decorator presence per method, unknown container-writing methods, form of the batch methods, where the arity "
        "check sits, which mutator bodies mention a cache-building method of Model or read self._cache -- syntactic call graph over "
        "class Model) and correspondence harness are trusted glue; the memo presence is read from the private attribute Model._cache",
        "coq/edit/Prequery.v (a mutator that asks a cache-building getter between the decorator and its writes) is a regression model of "
        "the seeded shape, proved about but not run against the code (the code has no such mutator: C03_cache_uses_pinned)",
    ]
    rng = common.rng_for(run.seed, "c03")
    hists: list[list[tuple]] = [list(h) for h in CORPUS]
    # systematic: populate; query; each mutator (several argument choices); query
    base = [
        ("add_parameter", 11, ("plain", 2)), ("add_variable", 12, ("plain", 1)), ("add_variable", 16, ("plain", -1)),
        ("add_derived", 13, 2, [11, 12]),
        ("add_reaction", 14, 4, [11, 12], [(12, ("stat", -1)), (16, ("named", 11))]),
        ("add_surrogate", 15, (15, 1, [12, 11], [21, 22], [(21, [(12, ("stat", 1))])]), None, None, None),
        ("add_data", 31, 2), ("add_readout", 32, 0, [12]),
        ("add_parameter", 33, ("ia", 2, [11, 12])),
    ]
    n_sys = 0
    # every other round: parameter 36 is read ONLY as a named / computed stoichiometric coefficient
    base2 = base + [("add_derived", 34, 2, [33, 11]), ("add_parameter", 36, ("plain", 2)),
                    ("add_reaction", 35, 4, [13, 12], [(16, ("named", 36)), (12, ("dyn", 1, [36]))])]
    for rnd in range(8 if thorough else 4):
        for meth in METHODS + BATCH:
            known = {11: "parameter", 12: "variable", 16: "variable", 13: "derived", 14: "reaction", 15: "surrogate", 31: "data",
                     32: "readout", 33: "parameter"}
            if rnd % 2:
                known |= {36: "parameter", 34: "derived", 35: "reaction"}
            for _try in range(20):
                op = gen_op(rng, known, force=meth)
                if op[0] == meth:
                    break
            else:
                continue
            q1 = rng.choice([("q_args", None, 0), ("q_rhs", None, 1), ("q_ic",), ("q_derpar",), ("q_stoich", None, 0), ("q_fluxes", None, 0)])
            hists.append((base2 if rnd % 2 else base) + [q1, op, ("q_ids",), ("q_args", None, 0), ("q_rhs", None, 0), ("q_ic",), ("q_parvals",),
                                                        ("q_derpar",), ("q_fluxes", None, 0), ("q_stoich", None, 0)])
            n_sys += 1
    # every fourth round: two reactions given ONE stoichiometry mapping, a computed coefficient over a variable
    shared = [(12, ("stat", -1)), (16, ("dyn", 6, [12]))]
    base3 = base + [("add_parameter", 36, ("plain", 2)), ("add_reaction", 37, 4, [11, 12], shared), ("add_reaction", 38, 4, [11, 16], shared),
                    ("add_parameter", 39, ("ia", 4, [11, 36]))]
    known3 = {11: "parameter", 12: "variable", 16: "variable", 13: "derived", 14: "reaction", 15: "surrogate", 31: "data", 32: "readout",
              33: "parameter", 36: "parameter", 37: "reaction", 38: "reaction", 39: "parameter"}
    ia3 = {33: [11, 12], 39: [11, 36]}
    for rnd in range(4 if thorough else 2):
        for meth in METHODS + BATCH:
            for _try in range(20):
                op = gen_op(rng, dict(known3), force=meth, hints={"ia": ia3})
                if op[0] == meth:
                    break
            else:
                continue
            if meth in ("add_reaction", "update_reaction") and op[4] is not None and rng.random() < 0.5:
                op = (*op[:4], shared)
            if meth == "make_parameter_dynamic" and rng.random() < 0.7:
                op = (op[0], rng.choice([36, 11]), op[2], [(rng.choice([37, 38, 14]), rng.choice([-1, 1, 2]))])
            q1 = rng.choice([("q_args", None, 0), ("q_rhs", None, 1), ("q_parvals",), ("q_stoich", [(12, 2), (16, -1)], 0), ("q_fluxes", None, 0)])
            hists.append(base3 + [q1, op, *_ALLQ])
            n_sys += 1
    # query pairs: `populate ; qA ; qB` for every ordered pair of query kinds (states different from the initial one
    # included): no query changes what a later one answers
    qs = [("q_ids",), ("q_args", None, 0), ("q_args", [(12, -1), (16, 2)], 1), ("q_rhs", None, 0), ("q_rhs", [(12, 2), (16, 1)], 2), ("q_ic",),
          ("q_parvals",), ("q_derpar",), ("q_fluxes", None, 0), ("q_fluxes", [(12, -2), (16, -1)], 0), ("q_stoich", None, 0),
          ("q_stoich", [(12, -2), (16, 1)], 1), ("q_stoich", [(12, 2), (16, 2)], 0)]
    for qa in qs:
        hists.append(base3 + [qa] + [qb for qb in qs])
        n_sys += 1
    # coefficients given by NAME through update_reaction (own random stream, so the histories above and below stay what
    # they were): `populate ; [query] ; update_reaction(.., stoichiometry={.. var: "name" ..}) ; every query ; edit of the
    # named quantity ; every query` -- the name is a parameter, an assigned parameter, a variable, a derived quantity, time or
    # (rarely) unknown to the model (seeded/C03-8)
    rng_n = common.rng_for(run.seed, "c03-named")
    n_named = 0
    for _ in range(120 if thorough else 30):
        hists.append(gen_named_update(rng_n, base, base2, base3))
        n_sys += 1
        n_named += 1
    n_rand = 4000 if thorough else 500
    for _ in range(n_rand):
        hists.append(gen_history(rng, rng.randint(3, 14)))

    dist = {"histories": 0, "systematic": n_sys, "discarded": 0, "ops": {}, "rejected_edits": 0, "accepted_edits": 0,
            "query_answers": 0, "query_errors": 0, "stale_pattern": 0, "batch_partial": 0, "corpus": len(CORPUS), "known": {},
            "shared_argument_objects": 0, "scale_batches_with_assigned_parameter": 0, "variable_dependent_coefficients": 0,
            "named_update_histories": n_named, "update_reaction_with_named_coefficient": 0}
    coq_h, kept = [], []
    n_viol = 0
    for h in hists:
        try:
            obs, viol = run_history(h, dist)
        except Discard:
            dist["discarded"] += 1
            continue
        dist["histories"] += 1
        seen_q = False
        pattern = False
        phase = 0
        for op, ob in zip(h, obs):
            dist["ops"][op[0]] = dist["ops"].get(op[0], 0) + 1
            if ob[0] == "mut":
                dist["rejected_edits" if ob[1] is not None else "accepted_edits"] += 1
                if phase == 1:
                    phase = 2
            else:
                dist["query_errors" if ob[0] == "err" else "query_answers"] += 1
                if phase == 0:
                    phase = 1
                elif phase == 2:
                    pattern = True
        dist["stale_pattern"] += pattern
        run.count_case(repr(h), nontrivial=pattern)
        if viol is not None:
            if n_viol < 4:
                n_viol += 1
                run.violation(f"C03 step {viol[0]}: {viol[1]}", {"kind": "c03", "history": h[: viol[0] + 1]})
            continue
        coq_h.append(clist(f"({coq_op(op)}, {coq_obs(ob)}, {'true' if cb else 'false'})" for op, ob, cb in zip(h, obs, obs.cached)))
        kept.append(h)
    if hists:
        run.sample({"history": hists[-1]})
    run.coverage["input_distribution"] = dist
    files = {f"c03_{k:04d}": corr_file(chunk) for k, chunk in enumerate(common.chunks(coq_h, 100))}
    res = common.coq_eval_many(AREA, files, timeout_s=900)
    # engineers work concurrently in this tree: when another run recompiled coq/core underneath us the shards fail with
    # "makes inconsistent assumptions over library ..." -- that says nothing about /repo: rebuild the area and evaluate
    # the affected shards once more (a shard that fails for any other reason, or again, is reported as before)
    import time as _time

    for attempt in range(3):
        stale = {n: files[n] for n, (ok, out) in res.items() if not ok and "inconsistent assumptions" in out}
        if not stale:
            break
        run.note(f"{len(stale)} correspondence shards hit a concurrent rebuild of a dependency; rebuilding {AREA} and retrying them "
                 f"(attempt {attempt + 1} of 3)")
        _time.sleep(10 * attempt)
        common.coq_build(AREA)
        res.update(common.coq_eval_many(AREA, stale, timeout_s=900))
    mism = 0
    for k, name in enumerate(sorted(files)):
        ok, out = res[name]
        lists = common.parse_eval_list(out) if ok else None
        if not ok or not lists:
            run.broken_correspondence.append(f"correspondence shard {name} did not evaluate: {out[-400:]}")
            continue
        for j in lists[-1]:
            mism += 1
            if len(run.broken_correspondence) < 4:
                run.broken_correspondence.append(f"state machine/implementation disagree on history {kept[k * 100 + j]}")
    run.coverage["traces_validated_against_impl"] = len(coq_h) - mism
    run.coverage["correspondence_mismatches"] = mism
    # recorded findings: replay every witness; still failing => KNOWN-FINDING (exit code unaffected)
    for f in known_findings():
        st: dict = {}
        try:
            _o, v = run_history([modelgen_tup(op) for op in f["witness"]["history"]], st)
        except Exception as e:  # noqa: BLE001
            run.broken_correspondence.append(f"witness of finding {f['id']} no longer runs: {type(e).__name__}: {e}")
            continue
        hit = st.get("batch_partial") if f["id"] == FINDING_BATCH else st.get("known", {}).get(f["id"])
        seen = dist["batch_partial"] if f["id"] == FINDING_BATCH else dist["known"].get(f["id"], 0)
        if hit:
            run.known(f["id"], f["what_fails"] + f" [seen at {seen} steps of this run's histories]")
        else:
            run.note(f"finding {f['id']}: the witness no longer fails (violation on it: {v}) -- move it to 'fixed' (tools/c03_switch.py)")
    # a proof obligation or the correspondence broke but the oracle saw nothing wrong on this run's
    # histories: search harder for a concrete failing history (implementation + fresh-rebuild oracle
    # only; the Coq model is not consulted): `populate ; query ; mutator ; every query` for many
    # argument choices of every mutator, the populated model using each parameter in a rate, a derived
    # quantity, an initial assignment and as a named / computed stoichiometric coefficient
    if (run.broken_obligations or run.broken_correspondence) and n_viol == 0:
        found = _targeted_search(rng, base, 25 if thorough else 12, named=(base, base2, base3))
        run.coverage["targeted_search_histories"] = found[1]
        if found[0] is not None:
            h, viol = found[0]
            run.violation(f"C03 step {viol[0]}: {viol[1]}", {"kind": "c03", "history": h[: viol[0] + 1]})


def _targeted_search(rng, base: list[tuple], rounds: int, named: tuple | None = None):
    """-> ((history, violation) | None, histories tried)"""
    tried = 0
    # coefficients given by name through update_reaction first (cheap, cf. seeded/C03-8)
    for _ in range(60 if named is not None else 0):
        h = gen_named_update(rng, *named)
        tried += 1
        try:
            _obs, viol = run_history(h)
        except Exception:  # noqa: BLE001 -- Discard included; the search must not crash the check
            continue
        if viol is not None:
            return (h, viol), tried
    # parameter 36 is used ONLY as a named and as a computed stoichiometric coefficient (nothing else reads it)
    populated = base + [("add_derived", 34, 2, [33, 11]), ("add_parameter", 36, ("plain", 2)),
                        ("add_reaction", 35, 4, [13, 12], [(16, ("named", 36)), (12, ("dyn", 1, [36]))])]
    known0 = {11: "parameter", 12: "variable", 16: "variable", 13: "derived", 14: "reaction", 15: "surrogate", 31: "data",
              32: "readout", 33: "parameter", 36: "parameter", 34: "derived", 35: "reaction"}
    tail = [("q_ids",), ("q_args", None, 0), ("q_rhs", None, 0), ("q_rhs", None, 1), ("q_ic",), ("q_parvals",), ("q_derpar",),
            ("q_fluxes", None, 0), ("q_stoich", None, 0)]
    for pop in (populated, base):
        for _ in range(rounds):
            for meth in METHODS + BATCH:
                op = None
                for _try in range(30):
                    cand = gen_op(rng, dict(known0), force=meth)
                    if cand[0] == meth:
                        op = cand
                        break
                if op is None:
                    continue
                for q1 in (("q_args", None, 0), ("q_ic",), ("q_stoich", None, 0)):
                    h = pop + [q1, op] + tail
                    tried += 1
                    try:
                        _obs, viol = run_history(h)
                    except Discard:
                        continue
                    except Exception:  # noqa: BLE001 -- the search must not crash the check
                        continue
                    if viol is not None:
                        return (h, viol), tried
    return None, tried


def replay(rep: dict) -> int:
    h = [modelgen_tup(op) for op in rep["replay"]["history"]]
    try:
        _obs, viol = run_history(h)
    except Discard as e:
        print("discarded:", e)
        return 0
    print(viol or "property holds on this history")
    return 1 if viol else 0


def modelgen_tup(x):
    if isinstance(x, list):
        return tuple(_keep_lists(i) for i in x)
    return x


def _keep_lists(x):
    # ops are tuples whose list-valued fields (args, stoichiometries) may stay lists; nested descriptors become tuples
    if isinstance(x, list):
        return [_keep_lists(i) if not (isinstance(i, list) and i and isinstance(i[0], str)) else tuple(_keep_lists(j) for j in i) for i in x] if not (x and isinstance(x[0], str)) else tuple(_keep_lists(j) for j in x)
    return x
