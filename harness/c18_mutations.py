"""Mutation self-test for C18 (development aid, not a registered command).

    /venv/bin/python -m harness.c18_mutations <tree-with-the-fix-applied> [m1 m2 ...]

Copies the given tree (e.g. /repo once fixes/C18-restore-initial-values.diff is applied) to
/var/tmp/mxlpy-C18-m-<name>, applies one mutation to src/mxlpy/mca.py, runs ./check C18 against the copy
(MXLPY_VERIF_REPO), replays the first replay file, deletes the copy.  Expected for every mutation:
check exit 1 and replay exit 1.  Results of the last run are recorded in design/C18.md."""

from __future__ import annotations

import os
import re
import shutil
import subprocess
import sys

MUTATIONS: dict[str, str] = {
    'm1': r'''# parameter_elasticities: reset statement dropped (stale perturbed parameter)
p='src/mxlpy/mca.py'; s=open(p).read()
old="        # Reset\n        model.update_parameters({par: old})\n"
assert s.count(old)==1; s=s.replace(old,""); open(p,'w').write(s)
''',
    'm2': r'''# variable_elasticities: asymmetric lower displacement
p='src/mxlpy/mca.py'; s=open(p).read()
old="variables=variables | {var: old * (1 - displacement)}, time=time"
if s.count(old)==1: s=s.replace(old,"variables=variables | {var: old * (1 - 2 * displacement)}, time=time")
else:  # tree with the helper _displace
    old="variables=variables | {var: lower_value}, time=time"
    assert s.count(old)==1; s=s.replace(old,"variables=variables | {var: lower_value - (upper_value - old)}, time=time")
open(p,'w').write(s)
''',
    'm3': r'''# worker: parameter reset moved before the (lazy) result views are evaluated
p='src/mxlpy/mca.py'; s=open(p).read()
rst="    # Reset\n    model.update_parameters({parameter: old})\n"
assert s.count(rst)==1; s=s.replace(rst,"")
anchor="    conc_resp = (upper.variables.iloc[-1]"
assert s.count(anchor)==1; s=s.replace(anchor, rst+anchor); open(p,'w').write(s)
''',
    'm4': r'''# parameter_elasticities: reset after the normalisation (scaled by the flux at the perturbed parameter)
p='src/mxlpy/mca.py'; s=open(p).read()
old="""        # Reset
        model.update_parameters({par: old})
        elasticity_coef = (upper - lower) / (2 * displacement * old)
        if normalized:
            elasticity_coef *= old / model.get_fluxes(variables=variables, time=time)
"""
new="""        elasticity_coef = (upper - lower) / (2 * displacement * old)
        if normalized:
            elasticity_coef *= old / model.get_fluxes(variables=variables, time=time)
        # Reset
        model.update_parameters({par: old})
"""
if s.count(old)!=1:  # tree with the helper _displace
    old=old.replace("(2 * displacement * old)","distance"); new=new.replace("(2 * displacement * old)","distance")
assert s.count(old)==1; s=s.replace(old,new); open(p,'w').write(s)
''',
    'm5': r'''# worker: initial values restored too early (before the normalisation run)
p='src/mxlpy/mca.py'; s=open(p).read()
old="""    if y0 is not None:
        # Reset initial values as well
        model.update_variables(old_y0)
"""
assert s.count(old)==1; s=s.replace(old,"")
anchor="    if normalized:\n        norm = _steady_state_worker("
assert s.count(anchor)==1; s=s.replace(anchor, old+anchor); open(p,'w').write(s)
''',
    'm6': r'''# response_coefficients: the caller's `variables` are not handed to the worker
p='src/mxlpy/mca.py'; s=open(p).read()
old="            y0=variables,\n"
assert s.count(old)==1; s=s.replace(old,"            y0=None,\n"); open(p,'w').write(s)
''',
    'm7': r'''# displacement default of the elasticities 1e-4 -> 1e-2
p='src/mxlpy/mca.py'; s=open(p).read()
assert s.count("displacement: float = 1e-4,")==4; s=s.replace("displacement: float = 1e-4,","displacement: float = 1e-2,"); open(p,'w').write(s)
''',
    'm8': r'''# worker: upper / lower perturbations swapped (sign of every response coefficient flips)
p='src/mxlpy/mca.py'; s=open(p).read()
a="model.update_parameters({parameter: old * (1 + displacement)})"; b="model.update_parameters({parameter: old * (1 - displacement)})"
if s.count(a)!=1:  # tree with the helper _displace
    a="model.update_parameters({parameter: upper_value})"; b="model.update_parameters({parameter: lower_value})"
assert s.count(a)==1 and s.count(b)==1; s=s.replace(a,"@@").replace(b,a).replace("@@",b); open(p,'w').write(s)
''',
    'm9': '''# response_coefficients: the flux frame is built from the concentration series
p='src/mxlpy/mca.py'; s=open(p).read()
old="fluxes=pd.DataFrame({k: v[1] for k, v in res})"
assert s.count(old)==1; s=s.replace(old,"fluxes=pd.DataFrame({k: v[0] for k, v in res})"); open(p,'w').write(s)
''',
    'm10': '''# worker: the flux quotient loses the factor 2 (flux response coefficients doubled)
p='src/mxlpy/mca.py'; s=open(p).read()
import re
old="flux_resp = (upper.fluxes.iloc[-1] - lower.fluxes.iloc[-1]) / (\\n        2 * displacement * old\\n    )"
new="flux_resp = (upper.fluxes.iloc[-1] - lower.fluxes.iloc[-1]) / (\\n        displacement * old\\n    )"
if s.count(old)==1: s=s.replace(old,new)
else:
    old2="flux_resp = (upper.fluxes.iloc[-1] - lower.fluxes.iloc[-1]) / distance"
    assert s.count(old2)==1; s=s.replace(old2, old2+" * 2")
open(p,'w').write(s)
''',
    # ---- on top of a tree that has fixes/C18-zero-state.diff (run with `tools/c18_switch.py repaired` in force) ----
    'z1': '''# _displace: the distance at a zero value is d instead of 2 d
p='src/mxlpy/mca.py'; s=open(p).read()
old="        return displacement, -displacement, 2 * displacement\\n"
assert s.count(old)==1; s=s.replace(old,"        return displacement, -displacement, displacement\\n"); open(p,'w').write(s)
''',
    'z2': '''# _displace: one-sided difference at a zero value (lower point 0) with the central divisor
p='src/mxlpy/mca.py'; s=open(p).read()
old="        return displacement, -displacement, 2 * displacement\\n"
assert s.count(old)==1; s=s.replace(old,"        return displacement, 0.0, 2 * displacement\\n"); open(p,'w').write(s)
''',
    'z3': '''# _displace: the zero branch is dropped (the defect comes back)
p='src/mxlpy/mca.py'; s=open(p).read()
old="    if value == 0:\\n        return displacement, -displacement, 2 * displacement\\n"
assert s.count(old)==1; s=s.replace(old,""); open(p,'w').write(s)
''',
    'z4': '''# _displace: "close to zero" instead of "exactly zero" (absolute displacement for |value| < 1)
p='src/mxlpy/mca.py'; s=open(p).read()
old="    if value == 0:\\n"
assert s.count(old)==1; s=s.replace(old,"    if abs(value) < 1:\\n"); open(p,'w').write(s)
''',
    'z5': '''# _displace: tolerance-based zero test (shape of seeded C18-4): a tiny non-zero value is displaced absolutely
p='src/mxlpy/mca.py'; s=open(p).read()
old="    if value == 0:\\n"
assert s.count(old)==1; s=s.replace(old,"    if abs(value) <= 1e-8:\\n"); open(p,'w').write(s)
''',
    # ---- 4th pass: parameters acting indirectly (computed parameters, assigned initial values, stoichiometry) ----
    'i1': r'''# shape of seeded C18-7: parameter_elasticities hands the displaced value over in `variables`, model not updated
p='src/mxlpy/mca.py'; s=open(p).read()
old="""        model.update_parameters({par: upper_value})
        upper = model.get_fluxes(variables=variables, time=time)

        model.update_parameters({par: lower_value})
        lower = model.get_fluxes(variables=variables, time=time)

        # Reset
        model.update_parameters({par: old})
"""
new="""        upper = model.get_fluxes(variables=variables | {par: upper_value}, time=time)
        lower = model.get_fluxes(variables=variables | {par: lower_value}, time=time)
"""
assert s.count(old)==1; s=s.replace(old,new); open(p,'w').write(s)
''',
    'i2': r'''# shape of seeded C18-8: the worker snapshots the EVALUATED initial conditions of all variables
p='src/mxlpy/mca.py'; s=open(p).read()
old="        raw_variables = model.get_raw_variables(as_copy=False)\n        old_y0 = {k: raw_variables[k].initial_value for k in y0}\n"
assert s.count(old)==1; s=s.replace(old,"        old_y0 = model.get_initial_conditions()\n"); open(p,'w').write(s)
''',
    'i3': r'''# shape of seeded C18-9: parameters reported by get_unused_parameters() are not run, their columns are 0
p='src/mxlpy/mca.py'; s=open(p).read()
old="        inputs=list(zip(to_scan, to_scan, strict=True)),\n"
assert s.count(old)==1
s=s.replace(old,"        inputs=[(k, k) for k in to_scan if k not in model.get_unused_parameters()],\n")
a="variables=pd.DataFrame({k: v[0] for k, v in res}),"; b="fluxes=pd.DataFrame({k: v[1] for k, v in res}),"
assert s.count(a)==1 and s.count(b)==1
s=s.replace(a,"variables=pd.DataFrame({k: v[0] for k, v in res}).reindex(columns=to_scan, fill_value=0.0),")
s=s.replace(b,"fluxes=pd.DataFrame({k: v[1] for k, v in res}).reindex(columns=to_scan, fill_value=0.0),")
open(p,'w').write(s)
''',
    'i4': r'''# worker: snapshot = the evaluated value of the OVERRIDDEN variables only (an overridden assignment becomes a number)
p='src/mxlpy/mca.py'; s=open(p).read()
old="        raw_variables = model.get_raw_variables(as_copy=False)\n        old_y0 = {k: raw_variables[k].initial_value for k in y0}\n"
assert s.count(old)==1
s=s.replace(old,"        evaluated = model.get_initial_conditions()\n        old_y0 = {k: evaluated[k] for k in y0}\n"); open(p,'w').write(s)
''',
    'i5': r'''# parameter_elasticities: the default state is read AFTER the first perturbation (assigned initial values follow it)
p='src/mxlpy/mca.py'; s=open(p).read()
old="        model.update_parameters({par: upper_value})\n        upper = model.get_fluxes(variables=variables, time=time)\n"
assert s.count(old)==1
s=s.replace(old,"        model.update_parameters({par: upper_value})\n        upper = model.get_fluxes(variables=None if variables == model.get_initial_conditions() else variables, time=time)\n")
open(p,'w').write(s)
''',
}


def main() -> int:
    base = sys.argv[1]
    names = sys.argv[2:] or list(MUTATIONS)
    rc = 0
    for name in names:
        d = f"/var/tmp/mxlpy-C18-m-{name}"
        shutil.rmtree(d, ignore_errors=True)
        shutil.copytree(base, d, ignore=shutil.ignore_patterns(".git", "docs", "publication-figures"))
        subprocess.run([sys.executable, "-c", MUTATIONS[name]], cwd=d, check=True)
        env = dict(os.environ, MXLPY_VERIF_REPO=d)
        p = subprocess.run(["/verif/check", "C18"], env=env, capture_output=True, text=True)
        m = re.search(r"replay=(\S+)", p.stdout)
        r = subprocess.run(["/verif/check", "C18", "--replay", m.group(1)], env=env, capture_output=True, text=True).returncode if m else None
        first = next((line for line in p.stdout.splitlines() if line.startswith("[C18]") and "proof obligations" not in line), "")
        print(f"{name}: check exit={p.returncode} replay exit={r} | {first[:200]}")
        if p.returncode != 1 or r != 1:
            rc = 1
        shutil.rmtree(d, ignore_errors=True)
    return rc


if __name__ == "__main__":
    sys.exit(main())
