"""Mutation self-tests of the C05 / C16 checks (development tool, not a registered command).

Usage (from /verif):   MUTNAME=<name> tools/mutate.sh C05 harness/c05_mutations.py      (or C16)
tools/mutate.sh copies /repo to /var/tmp, runs this script with the copy as working directory, runs the
check against the copy and deletes it.  The script first brings the copy to the REPAIRED state (applies
fixes/C05-zero-label-initial.diff and fixes/C16-map-direction.diff unless /repo already contains them), then
applies the named mutation by exact text replacement (fails if the anchor text is not found exactly once).
`MUTNAME=list` prints the names.  Results are recorded in design/C05.md and design/C16.md.
"""

from __future__ import annotations

import os
import pathlib
import subprocess
import sys

ISO = "src/mxlpy/label_map.py"
LIN = "src/mxlpy/linear_label_map.py"
FIX_ZERO = "/verif/fixes/C05-zero-label-initial.diff"
FIX_DIR = "/verif/fixes/C16-map-direction.diff"

# name -> (file, old, new, what)
MUTATIONS: dict[str, tuple[str, str, str, str]] = {
    # ---- label_map.py (C05; the direction also matters to C16) ----
    "iso-direction-flipped": (
        ISO,
        '    return "".join([rate_suffix[i] for i in labelmap])\n',
        '    res = list(rate_suffix[: len(labelmap)])\n    for i, pos in enumerate(labelmap):\n        res[pos] = rate_suffix[i]\n    return "".join(res)\n',
        "isotopomer mapper reads the map inversely (product[map[i]] <- substrate[i])",
    ),
    "iso-index-off-by-one": (ISO, "rate_suffix[i] for i in labelmap", "rate_suffix[i - 1] for i in labelmap", "map index off by one"),
    "iso-external-unlabelled": (ISO, 'external_label_string = ["1"] * n_external_labels', 'external_label_string = ["0"] * n_external_labels', "external positions enter unlabelled"),
    "iso-short-map-accepted": (ISO, "if len(labelmap) - total_substrate_labels < 0:", "if len(labelmap) - total_substrate_labels < -1:", "a map one shorter than the substrates' atoms is accepted"),
    "iso-split-point": (ISO, "        cnt += labels_per_compound[i]\n", "        cnt += 1\n", "wrong split point of the label string"),
    "iso-repack-product": (ISO, "        new_stoichiometries[arg] += 1\n", "        new_stoichiometries[arg] = 1\n", "a product isotopomer produced twice counts once"),
    "iso-total-misses-one": (ISO, "                args=label_names,\n", "                args=label_names[1:] if len(label_names) > 1 else label_names,\n", "X__total omits the unlabelled isotopomer"),
    "iso-initial-last": (ISO, "                    variables[isos[0]] = v\n", "                    variables[isos[-1]] = v\n", "without a requested label the amount starts fully labelled"),
    "iso-substrate-pattern-reversed": (
        ISO,
        "            label=rate_suffix, labels_per_compound=labels_per_substrate\n",
        "            label=rate_suffix[::-1], labels_per_compound=labels_per_substrate\n",
        "substrates consume the reversed pattern",
    ),
    # ---- linear_label_map.py (C16) ----
    "lin-index-off-by-one": (LIN, "subs = [subs[i] for i in label_map]", "subs = [subs[i - 1] for i in label_map]", "map index off by one"),
    "lin-ext-padding-dropped": (LIN, '        substrates.extend(["EXT"] * diff)\n', "        pass\n", "label influx padding dropped"),
    "lin-ext-padding-substrate": (LIN, '        substrates.extend(["EXT"] * diff)\n', "        substrates.extend([substrates[-1] if substrates else \"EXT\"] * diff)\n", "extra product positions are fed from the last substrate position instead of EXT"),
    "lin-coefficient-sign": (LIN, "    return -1 / y\n", "    return 1 / y\n", "consumption coefficient +1/pool"),
    "lin-product-pool": (LIN, 'fn=_one_div, args=[product.split("__")[0]]', 'fn=_one_div, args=[(substrate if substrate != "EXT" else product).split("__")[0]]', "product coefficient uses the substrate's pool"),
    "lin-rate-from-product": (LIN, "                    args=[substrate, rxn_name],\n", "                    args=[product if product != \"EXT\" else substrate, rxn_name],\n", "transfer rate uses the product's enrichment"),
    "lin-ext-not-padded-efflux": (LIN, '        products.extend(["EXT"] * diff)\n', "        products.extend([products[-1] if products else \"EXT\"] * diff)\n", "label efflux positions are sent to the last product position"),
    # ---- stoichiometric coefficients of magnitude >= 2 (second deepening; seeded C16-4 = the first one) ----
    "lin-keys-only-expansion": (
        LIN,
        "            subs = _stoichiometry_to_duplicate_list(subs)\n            prods = _stoichiometry_to_duplicate_list(prods)\n"
        "            subs = [j for i in subs for j in isotopomers[i]]\n            prods = [j for i in prods for j in isotopomers[i]]\n",
        "            subs = [pos for name in subs for pos in isotopomers[name]]\n            prods = [pos for name in prods for pos in isotopomers[name]]\n",
        "build_model iterates the {compound: coefficient} dicts: every compound once whatever its coefficient (seeded C16-4)",
    ),
    "lin-products-not-duplicated": (LIN, "            prods = _stoichiometry_to_duplicate_list(prods)\n", "            prods = list(prods)\n", "only the substrate side is expanded by its coefficients"),
    "lin-duplicates-capped-at-two": (LIN, "        long_form.extend([k] * v)\n", "        long_form.extend([k] * min(v, 2))\n", "a coefficient 3 gives two copies"),
}
# ---- state of the LabelMapper OBJECT across build_model calls (closing pass for seeded C05-9); several edits per mutation ----
# name -> (file, [(old, new), ...], what)
MULTI: dict[str, tuple[str, list[tuple[str, str]], str]] = {
    "build-consumes-maps": (
        ISO,
        [
            ("        for rxn_name, rxn in self.model.get_raw_reactions().items():\n            if (label_map := self.label_maps.get(rxn_name)) is None:\n",
             "        open_maps = self.label_maps\n        for rxn_name, rxn in self.model.get_raw_reactions().items():\n            if (label_map := open_maps.pop(rxn_name, None)) is None:\n"),
        ],
        "the reaction loop pops the maps from the mapper's own dict (seeded C05-9 without the log line): later builds find no maps",
    ),
    "build-pops-initial-labels": (
        ISO,
        [("                label_pos = initial_labels.get(k)\n", "                label_pos = initial_labels.pop(k, None)\n")],
        "build_model consumes the caller's initial_labels dict: the same dict handed to a second call places no label",
    ),
    "build-drops-refused-map": (
        ISO,
        [
            ("            else:\n                _create_isotopomer_reactions(\n                    model=m,\n",
             "            else:\n                if len(label_map) < sum(self.label_variables.get(k, 0) * -int(v) for k, v in rxn.stoichiometry.items() if v < 0):\n"
             "                    del self.label_maps[rxn_name]  # 'unusable map'\n"
             "                _create_isotopomer_reactions(\n                    model=m,\n"),
        ],
        "a map that is too short is removed from the mapper before the call is refused: the next build treats the reaction as unmapped and succeeds",
    ),
    # ---- the LinearLabelMapper OBJECT over several build_model calls (closing pass for seeded C16-9; C16) ----
    "lin-maps-frozen-at-first-build": (
        LIN,
        [("    label_maps: dict[str, list[int]] = field(default_factory=dict)\n\n    def get_isotopomers",
          "    label_maps: dict[str, list[int]] = field(default_factory=dict)\n"
          "    _maps_seen: dict[str, list[int]] | None = field(default=None, init=False, repr=False, compare=False)\n\n    def get_isotopomers"),
         ("        for rxn_name, label_map in self.label_maps.items():\n",
          "        if self._maps_seen is None:\n            self._maps_seen = {k: list(v) for k, v in self.label_maps.items()}\n"
          "        for rxn_name, label_map in self._maps_seen.items():\n")],
        "the maps are copied onto the mapper at the first build and never looked at again: any later change of label_maps (in place or a new dict) is ignored",
    ),
    "lin-positions-cached": (
        LIN,
        [("    label_maps: dict[str, list[int]] = field(default_factory=dict)\n\n    def get_isotopomers",
          "    label_maps: dict[str, list[int]] = field(default_factory=dict)\n"
          "    _positions: dict[str, list[str]] | None = field(default=None, init=False, repr=False, compare=False)\n\n    def get_isotopomers"),
         ("            for name, num in self.label_variables.items()\n        }\n        variables = {k: 0.0 for iso in isotopomers.values() for k in iso}\n",
          "            for name, num in self.label_variables.items()\n        }\n"
          "        if self._positions is None:\n            self._positions = isotopomers\n        isotopomers = self._positions\n"
          "        variables = {k: 0.0 for iso in isotopomers.values() for k in iso}\n")],
        "the position names per compound are kept from the first build: a label count changed on the mapper afterwards is ignored",
    ),
    "lin-build-consumes-maps": (
        LIN,
        [("        for rxn_name, label_map in self.label_maps.items():\n",
          "        for rxn_name in list(self.label_maps):\n            label_map = self.label_maps.pop(rxn_name)\n")],
        "build_model pops the maps from the mapper's own dict: the second build transfers no label at all",
    ),
    # seeded C05-3 re-based onto the per-occurrence form (its patch.diff was written against the dict form, pre-1a03052)
    "repl-substrates-only": (
        ISO,
        [("            base_substrates + base_products,\n            new_substrates + new_products,\n            strict=True,\n",
          "            base_substrates,\n            new_substrates,\n            strict=True,\n")],
        "the renaming pools are filled from the substrates only: a reaction's own labelled product in the rate (reversible law) is read through its total",
    ),
    "build-caches-initial-variables": (
        ISO,
        [
            ("        variables: dict[str, float] = {}\n        for k, v in self.model.get_initial_conditions().items():\n",
             "        variables = next((v for o, v in _VARIABLES_CACHE if o is self), None)\n        if variables is None:\n            variables = {}\n"
             "            _VARIABLES_CACHE.append((self, variables))\n        for k, v in self.model.get_initial_conditions().items():\n"
             "            if k in variables or any(n.startswith(k + '__') for n in variables):\n                continue\n"),
            ("def _total_concentration(", "_VARIABLES_CACHE: list = []\n\n\ndef _total_concentration("),
        ],
        "the dict of initial amounts is cached per mapper and only completed: later builds keep the label placement of the first",
    ),
}
REVERSALS = {"revert-fix-zero-label": FIX_ZERO, "revert-fix-direction": FIX_DIR}


def patch(diff: str, *, reverse: bool = False, dry: bool = False) -> bool:
    cmd = ["patch", "-p1", "-s", "-f"] + (["-R"] if reverse else []) + (["--dry-run"] if dry else [])
    with open(diff) as fh:
        return subprocess.run(cmd, stdin=fh, capture_output=True, check=False).returncode == 0


def main() -> int:
    name = os.environ.get("MUTNAME", "list")
    if name == "list":
        for k, v in MUTATIONS.items():
            print(k, "--", v[3])
        for k, v in MULTI.items():
            print(k, "--", v[2])
        for k in REVERSALS:
            print(k)
        return 0
    # repaired state first
    for diff in (FIX_ZERO, FIX_DIR):
        if patch(diff, dry=True):
            assert patch(diff)
    if name == "none":
        return 0
    if name in REVERSALS:
        assert patch(REVERSALS[name], reverse=True), "fix not present?"
        return 0
    if name in MULTI:
        file, edits, _ = MULTI[name]
        p = pathlib.Path(file)
        s = p.read_text()
        for old, new in edits:
            if s.count(old) != 1:
                print(f"anchor of mutation {name} found {s.count(old)} times: {old[:60]!r}", file=sys.stderr)
                return 2
            s = s.replace(old, new)
        p.write_text(s)
        return 0
    file, old, new, _ = MUTATIONS[name]
    p = pathlib.Path(file)
    s = p.read_text()
    if s.count(old) != 1:
        print(f"anchor of mutation {name} found {s.count(old)} times", file=sys.stderr)
        return 2
    p.write_text(s.replace(old, new))
    return 0


if __name__ == "__main__":
    sys.exit(main())
