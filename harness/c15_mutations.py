"""Mutations of the C15 mechanism (development self-test).  Usage (cwd = scratch copy of /repo, done by tools/mutate.sh):
    MUTNAME=<name> tools/mutate.sh C15 harness/c15_mutations.py
All of them keep the repository's own test suite passing (checked for the ones marked *)."""
import os
import sys
from pathlib import Path

SCIPY = "src/mxlpy/integrators/int_scipy.py"
SIM = "src/mxlpy/simulator.py"
SCAN = "src/mxlpy/simulation.py"
M = {
    "cmp_le": (SCIPY, "if np.linalg.norm(diff, ord=2) < tolerance:", "if np.linalg.norm(diff, ord=2) <= tolerance:"),
    "step_50": (SCIPY, "step_size: int = 100,", "step_size: int = 50,"),
    "budget_100": (SCIPY, "max_steps: int = 1000,", "max_steps: int = 100,"),
    "alias": (SCIPY, "y2 = np.array(integ.integrate(t), dtype=float)", "y2 = integ.integrate(t)"),
    "stale_prev": (SCIPY, "            y1 = y2\n", "            pass\n"),
    "exhaust_success": (SCIPY, "        return Result(NoSteadyState())",
                        "        return Result(TimeCourse(time=np.array([t], dtype=float), values=np.array([y1], dtype=float)))"),
    "norm_inf": (SCIPY, "np.linalg.norm(diff, ord=2)", "np.linalg.norm(diff, ord=np.inf)"),
    "rel_by_new": (SCIPY, "diff = (y2 - y1) / y1 if rel_norm else y2 - y1", "diff = (y2 - y1) / y2 if rel_norm else y2 - y1"),
    "errors_hidden_by_results": (SIM, "        if len(self._errors) > 0:\n            # FIXME",
                                 "        if len(self._errors) > 0 and self.variables is None:\n            # FIXME"),
    "last_error": (SIM, "return Result(self._errors[0])", "return Result(self._errors[-1])"),
    "no_skipfirst": (SIM, "self.variables.append(results_df.iloc[1:, :])", "self.variables.append(results_df)"),
    "search_clears_errors": (SIM, "        if len(self._errors) > 0:\n            return self\n\n        self._handle_simulation_results(\n            self.integrator.integrate_to_steady_state(",
                             "        self._errors = []\n\n        self._handle_simulation_results(\n            self.integrator.integrate_to_steady_state("),
    "nan_default_zero": (SCAN, "fill_value=np.nan", "fill_value=0.0"),
    # NaN norms (round 3): the early-continue form of seeded change C15-4 written inline, and NaN silently mapped to 0
    "not_ge_inline": (SCIPY, "if np.linalg.norm(diff, ord=2) < tolerance:", "if not np.linalg.norm(diff, ord=2) >= tolerance:"),
    "nan_to_num": (SCIPY, "diff = (y2 - y1) / y1 if rel_norm else y2 - y1",
                   "diff = np.nan_to_num((y2 - y1) / y1 if rel_norm else y2 - y1)"),
    # lazily evaluated results use whatever parameters the shared model carries (seeded change C15-6, other wording)
    # (re-based in the closing round onto _compute_args as it is since 4167248: the loop now sits inside try/finally; the stored
    # seeded/C15-6/patch.diff no longer applies either)
    "lazy_params_single": (SCAN, "                self.model.update_parameters(p)\n                self.raw_args.append(",
                           "                if len(self.raw_parameters) != 1:\n                    self.model.update_parameters(p)\n                self.raw_args.append("),
    # seeded changes C15-1 and C15-3 re-based onto the loop as it is since a56e563 (their stored patch.diff no longer applies)
    "seeded1_rel_skips_empty": [
        (SCIPY, "y1 = copy.deepcopy(self.y0)", "y1 = np.array(self.y0, dtype=float)"),
        (SCIPY, "            diff = (y2 - y1) / y1 if rel_norm else y2 - y1\n",
         "            if rel_norm:\n                with np.errstate(divide=\"ignore\", invalid=\"ignore\"):\n"
         "                    diff = np.where(y1 == 0, 0.0, (y2 - y1) / y1)\n            else:\n                diff = y2 - y1\n"),
    ],
    "seeded3_allclose": (SCIPY, "            diff = (y2 - y1) / y1 if rel_norm else y2 - y1\n            if np.linalg.norm(diff, ord=2) < tolerance:\n",
                         "            converged = (\n                np.allclose(y2, y1, rtol=tolerance, atol=0.0)\n                if rel_norm\n"
                         "                else np.allclose(y2, y1, atol=tolerance)\n            )\n            if converged:\n"),
    # closing round (seeded changes C15-7 / C15-9): model changes between runs on ONE Simulator, names of the reported state
    "steady_skipfirst_true": (SIM, "            skipfirst=False,\n", "            skipfirst=True,\n"),
    "labels_sorted": (SIM, "columns=self.model.get_variable_names(),", "columns=sorted(self.model.get_variable_names()),"),
    "update_parameter_ignored": (SIM, "        self.model.update_parameter(parameter, value)\n", "        pass\n"),
    "shift_not_added": (SIM, "                    time += self._time_shift\n", "                    pass\n"),
    "y0_values_in_key_order": (SIM, "tuple(y0[k] for k in self.model.get_variable_names()),", "tuple(y0.values()),"),
}
name = os.environ.get("MUTNAME", "")
if name not in M:
    sys.exit(f"MUTNAME must be one of {sorted(M)}")
edits = M[name] if isinstance(M[name], list) else [M[name]]
for f, old, new in edits:
    p = Path(f)
    s = p.read_text()
    if s.count(old) != 1:
        sys.exit(f"{name}: pattern occurs {s.count(old)} times in {f}")
    p.write_text(s.replace(old, new))
    print(f"mutation {name} applied to {f}")
