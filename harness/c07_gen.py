"""C07 helpers: model descriptions (surrogate-free), generator, builder of the real mxlpy.Model
through the public API, an INDEPENDENT evaluator (memoised recursion over exact Fractions; no
sorting, no code shared with the Coq model) and the Gallina literal printer.

Names are small ints: 0 is "time"; k>0 is the string f"n{k:04d}".

desc = {
  "par":  [(n, value: Fraction, ia: None | (fid, [args]))],   # for ia the value is the resolved one
  "var":  [(n, init: Fraction)],
  "der":  [(n, fid, [args])],
  "rxn":  [(n, fid, [args], [(var, coef)])],     coef = ("stat", Fraction) | ("dyn", fid, [args])
  "free": [n, ...],                               # requested free parameters, in the requested order
}
"""

from __future__ import annotations

from fractions import Fraction
from typing import Any

from harness import c07_fns as FN
from harness.common import cbool, clist, cn, cq

BIG = 2**40
# the two switchable facts of the tree under test (set by harness/c07.py from the EXTRACTED facts):
# are assignment-defined parameters emitted (so that they may also be requested as free parameters),
# does a variable without a reaction get an explicit zero
IA_FROZEN = False
UT_ZERO = False
LANGS = ("py", "ts", "rs", "jl")
COQ_LANG = {"py": "Py", "ts": "Ts", "rs": "Rs", "jl": "Jl"}


def nm(k: int) -> str:
    return "time" if k == 0 else f"n{k:04d}"


# ---------------------------------------------------------------------------------------
# generator
# ---------------------------------------------------------------------------------------

_PVALS = [Fraction(v) for v in (-2, -1, 1, 2, 3)] + [Fraction(1, 2), Fraction(3, 2)]
_CVALS = [Fraction(v) for v in (-2, -1, -1, 1, 1, 1, 2, 3)] + [Fraction(1, 2), Fraction(-1, 2), Fraction(3, 2), Fraction(1, 4)]


def gen_desc(rng, *, profile: str | None = None) -> dict:
    """profile: None (mixed) | 'clean' (inside the guard of the partial theorem)."""
    nxt = [10]

    def fresh() -> int:
        nxt[0] += 1
        return nxt[0]

    clean = profile == "clean"
    d: dict[str, list] = {"par": [], "var": [], "der": [], "rxn": [], "free": []}
    plain: list[int] = []
    for _ in range(rng.randint(1, 3)):
        n = fresh()
        d["par"].append((n, rng.choice(_PVALS), None))
        plain.append(n)
    ia_names: list[int] = []
    if not clean and rng.random() < 0.15:
        n = fresh()
        ar = rng.choice([0, 1, 2])
        fid = rng.choice([f for f in FN.BY_ARITY[ar] if f not in FN.CONDITIONAL])
        args = [rng.choice(plain) for _ in range(ar)]
        pv = {k: v for k, v, _ in d["par"]}
        d["par"].append((n, Fraction(FN.fsem(fid, [pv[a] for a in args])), (fid, args)))
        ia_names.append(n)
    r = rng.random()
    nv = 1 if r < 0.2 else (0 if (r < 0.23 and not clean) else rng.randint(2, 3))
    variables: list[int] = []
    for _ in range(nv):
        n = fresh()
        d["var"].append((n, Fraction(rng.randint(-2, 2))))
        variables.append(n)
    pool: list[int] = plain + variables + ([0] if rng.random() < 0.5 else [])
    untrans_budget = 1 if (not clean and rng.random() < 0.1) else 0

    def pick_fn(allow_ia: bool = True, coef: bool = False) -> tuple[int, list[int]]:
        nonlocal untrans_budget
        if untrans_budget and rng.random() < 0.4:
            untrans_budget = 0
            ar = rng.choice([1, 2])
            # incl. the functions refused BY ARITY (default values, keyword-only parameters, *args)
            fid = rng.choice((FN.UNTRANSLATABLE_COEF_BY_ARITY if coef else FN.UNTRANSLATABLE_BY_ARITY)[ar])
            return fid, [rng.choice(pool) for _ in range(ar)]
        ar = rng.choice([0, 1, 1, 2, 2, 2, 3])
        fid = rng.choice(FN.BY_ARITY[ar])
        args = [rng.choice(pool) for _ in range(ar)]
        # an assignment-defined parameter may be read by polynomial functions only (a conditional
        # might not evaluate the branch that names it), and never twice by the same call (a
        # difference of equal arguments is simplified away together with the name)
        if ia_names and allow_ia and fid not in FN.CONDITIONAL and ar >= 1 and rng.random() < 0.5:
            args[rng.randrange(ar)] = rng.choice(ia_names)
        if fid == 3 and args[0] == args[1]:
            fid = 2
        return fid, args

    par_only_coef_args: list[int] = []

    def pick_coef() -> tuple:
        if rng.random() < 0.7:
            return ("stat", rng.choice(_CVALS))
        fid, args = pick_fn(allow_ia=False, coef=True)
        if FN.translates(fid) and args and rng.random() < 0.35:
            # every argument a plain parameter: the model's cache holds such a coefficient as a
            # NUMBER (evaluated at the stored values); the generator must emit the EXPRESSION, or a
            # free parameter among the arguments is ignored
            args = [rng.choice(plain) for _ in args]
            par_only_coef_args.extend(args)
        return ("dyn", fid, args)

    n_comp = rng.randint(1, 7)
    made_rxn = False
    for i in range(n_comp):
        want_rxn = rng.random() < 0.5 or (i == n_comp - 1 and not made_rxn and variables)
        n = fresh()
        fid, args = pick_fn()
        if want_rxn and variables:
            targets = rng.sample(variables, rng.randint(1, min(2, len(variables))))
            d["rxn"].append((n, fid, args, [(c, pick_coef()) for c in targets]))
            made_rxn = True
        else:
            d["der"].append((n, fid, args))
        pool.append(n)
    # variables without any reaction: a recorded finding -- keep some, repair most
    if d["rxn"] and (clean or rng.random() < 0.8):
        covered = {c for _n, _f, _a, st in d["rxn"] for c, _ in st}
        for v in variables:
            if v not in covered:
                k = rng.randrange(len(d["rxn"]))
                n, f, a, st = d["rxn"][k]
                d["rxn"][k] = (n, f, a, [*st, (v, pick_coef())])
    if clean and not d["rxn"]:
        return gen_desc(rng, profile=profile)
    if rng.random() < 0.7:
        rng.shuffle(d["der"])
        rng.shuffle(d["rxn"])
    if rng.random() < 0.3:
        rng.shuffle(d["par"])
    r = rng.random()
    # a free parameter never feeds an assignment-defined parameter (the model would re-resolve the
    # assignment when the parameter is updated; the recorded value in `par` would be stale)
    ia_reads = {a for _n, _v, ia in d["par"] if ia is not None for a in ia[1]}
    cand = [p for p in plain if p not in ia_reads]
    live = [p for p in dict.fromkeys(par_only_coef_args) if p in cand and any(
        cf[0] == "dyn" and p in cf[2] for _n, _f, _a, st in d["rxn"] for _c, cf in st)]
    if live and r < 0.7:
        # a free parameter that reaches the right-hand side only/also through a computed coefficient
        first = rng.choice(live)
        rest = [p for p in cand if p != first]
        d["free"] = [first] + (rng.sample(rest, 1) if rest and rng.random() < 0.4 else [])
        rng.shuffle(d["free"])
    elif r < 0.4 and cand:
        d["free"] = rng.sample(cand, rng.randint(1, min(2, len(cand))))
    elif r < 0.43 and not clean:
        d["free"] = [rng.choice(ia_names) if ia_names else 999]
    return d


def gen_points(rng, desc: dict, k: int = 3) -> list[tuple[Fraction, list[Fraction], list[Fraction]]]:
    pts = []
    for i in range(k):
        half = rng.random() < 0.25
        t = Fraction(rng.randint(0, 3))
        y = [Fraction(rng.randint(-3, 3)) + (Fraction(1, 2) if half and rng.random() < 0.5 else 0) for _ in desc["var"]]
        fv = [Fraction(rng.randint(-3, 3)) for _ in desc["free"]]
        pts.append((t, y, fv))
    # every free parameter is called at least once with a value that differs from the stored one
    stored = {n: v for n, v, _ia in desc["par"]}
    for j, f in enumerate(desc["free"]):
        if f in stored and pts and all(p[2][j] == stored[f] for p in pts):
            pts[-1][2][j] = stored[f] + 1
    return pts


def free_reaches_coefficient(desc: dict) -> bool:
    """a requested free parameter is an argument of a computed coefficient all of whose arguments
    are parameters (the cache stores such a coefficient as a number)"""
    pars = {n for n, _v, _ia in desc["par"]}
    return any(
        cf[0] == "dyn" and cf[2] and set(cf[2]) <= pars and set(cf[2]) & set(desc["free"])
        for _n, _f, _a, st in desc["rxn"] for _c, cf in st
    )


# ---------------------------------------------------------------------------------------
# function-table sweep: every translatable function on BOTH sides of every condition
# ---------------------------------------------------------------------------------------

_GRID = [Fraction(v) for v in (-3, -2, -1, 0, 1, 2, 3)] + [Fraction(-1, 2), Fraction(1, 2), Fraction(3, 2)]


class _RecTests(__import__("ast").NodeTransformer):
    """wrap the test of every `if` / `elif` / conditional expression in __rec(<index>, test)"""

    def __init__(self) -> None:
        self.n = 0

    def _wrap(self, test):
        import ast

        k, self.n = self.n, self.n + 1
        return ast.Call(func=ast.Name(id="__rec", ctx=ast.Load()), args=[ast.Constant(k), test], keywords=[])

    def visit_If(self, node):
        self.generic_visit(node)
        node.test = self._wrap(node.test)
        return node

    visit_IfExp = visit_If


def probes(fid: int, rng=None, cap: int = 8) -> tuple[list[tuple], int, int]:
    """Argument tuples for function `fid` that take every condition of its source to True AND to
    False (and every distinct path through the conditions met on the grid, up to `cap` points);
    returns (points, condition sides covered, condition sides in the source)."""
    import ast
    import inspect
    import itertools
    import textwrap

    fn = FN.FNS[fid]
    tree = ast.parse(textwrap.dedent(inspect.getsource(fn)))
    tr = _RecTests()
    tree = ast.fix_missing_locations(tr.visit(tree))
    seen: list[tuple] = []

    def rec(k, v):
        seen.append((k, bool(v)))
        return v

    # the instrumented copy lives among the table module's own globals (module constants, helpers)
    ns: dict[str, Any] = {**vars(FN), "__rec": rec}
    exec(compile(tree, f"<probe {fn.__name__}>", "exec"), ns)  # noqa: S102
    g = ns[fn.__name__]
    grid = list(itertools.product(_GRID, repeat=FN.ARITY[fid]))
    if rng is not None:
        rng.shuffle(grid)
    chosen: list[tuple] = []
    atoms: set[tuple] = set()
    paths: set[tuple] = set()
    for pass_ in (0, 1):  # first the sides of the conditions, then further distinct paths
        for args in grid:
            if len(chosen) >= cap:
                break
            seen.clear()
            g(*args)
            sig = tuple(seen)
            new = (set(sig) - atoms) if pass_ == 0 else ({sig} - paths)
            if new and args not in chosen:
                chosen.append(args)
                atoms |= set(sig)
                paths.add(sig)
    for args in grid:  # at least three points, also for straight-line functions
        if len(chosen) >= min(3, len(grid)):
            break
        if args not in chosen:
            chosen.append(args)
    return chosen, len(atoms), 2 * tr.n


def sweep_cases(rng=None) -> tuple[list[tuple[dict, list[tuple]]], dict]:
    """For every translatable function: (A) a model whose rate IS the function of the variables,
    evaluated at states on both sides of every condition; (B) a model in which the function is a
    computed stoichiometric coefficient over parameters that are all requested as free parameters
    and called at the probe values (the first probe is the stored value, the others differ)."""
    F = Fraction
    out: list[tuple[dict, list[tuple]]] = []
    sides = total = 0
    for fid in sorted(FN.TRANSLATABLE):
        k = FN.ARITY[fid]
        pts, got, want = probes(fid, rng)
        sides += got
        total += want
        if got != want:
            raise AssertionError(f"probes of {FN.FNS[fid].__name__} reach {got} of {want} condition sides")
        nv = max(k, 1)
        vs = [12 + i for i in range(nv)]
        rx = [(20 + i, 0, [v], [(v, ("stat", F(-1)))]) for i, v in enumerate(vs)]
        a = {"par": [(11, F(2), None)], "var": [(v, F(1)) for v in vs], "der": [],
             "rxn": [(30, fid, vs[:k], [(vs[0], ("stat", F(1)))]), *rx], "free": []}
        out.append((a, [(F(0), list(p) if k else [F(1)], []) for p in (pts if k else pts[:1])]))
        # the same function as a derived quantity read by a rate (the other emission loop branch)
        d = {"par": [(11, F(2), None)], "var": [(v, F(1)) for v in vs], "der": [(30, fid, vs[:k])],
             "rxn": [(31, 4, [30, 11], [(vs[0], ("stat", F(1)))]), *rx], "free": []}
        out.append((d, [(F(0), list(p) if k else [F(1)], []) for p in (pts if k else pts[:1])]))
        if k:
            ps = [40 + i for i in range(k)]
            free = list(reversed(ps))
            b = {"par": [(p, pts[0][i], None) for i, p in enumerate(ps)], "var": [(12, F(1)), (13, F(2))], "der": [],
                 "rxn": [(30, 0, [12], [(12, ("dyn", fid, ps)), (13, ("stat", F(1)))])], "free": free}
            out.append((b, [(F(1), [F(2), F(-1)], list(reversed(p))) for p in pts]))
    return out, {"functions": len(FN.TRANSLATABLE), "condition_sides_covered": sides, "condition_sides_in_source": total,
                 "cases": len(out)}


def refusal_sweep_cases() -> tuple[list[tuple[dict, list[tuple]]], dict]:
    """For EVERY function of the table that fn_to_sympy must refuse (subscript, and/or, lambda; the
    ten refused by arity: default values relied on, keyword-only parameters, *args, empty argument
    lists): a model in which it is the rate, one in which it is a derived quantity read by a rate, one
    in which it is a computed coefficient -- each WITH a model parameter called n0011 (the name of
    the helpers' defaulted parameter, value 4 where the default is 2 / 0.5) and without.  Python
    evaluates every one of them; generation must raise in every language."""
    F = Fraction
    out: list[tuple[dict, list[tuple]]] = []
    fids = sorted(set(range(len(FN.FNS))) - FN.TRANSLATABLE)
    pts = [(F(0), [F(3), F(5)], []), (F(1), [F(2), F(-1)], [])]
    for fid in fids:
        k = FN.ARITY[fid]
        args = [12, 13][:k]
        for pname in (11, 40):
            base = {"par": [(pname, F(4), None)], "var": [(12, F(1)), (13, F(2))], "free": []}
            st = [(12, ("stat", F(-1))), (13, ("stat", F(1)))]
            if fid not in FN.COEF_ONLY:
                out.append(({**base, "der": [], "rxn": [(20, fid, args, st)]}, pts))
                out.append(({**base, "der": [(19, fid, args)], "rxn": [(20, 4, [19, 12], st)]}, pts))
            out.append(({**base, "der": [], "rxn": [(20, 0, [12], [(12, ("stat", F(-1))), (13, ("dyn", fid, args))])]}, pts))
    return out, {"functions": len(fids), "refused_by_arity": len(FN.BY_ARITY_REFUSED), "cases": len(out)}


def used_fids(desc: dict) -> list[int]:
    fids = [f for _n, f, _a in desc["der"]] + [f for _n, f, _a, _s in desc["rxn"]]
    return fids + [c[1] for _n, _f, _a, st in desc["rxn"] for _v, c in st if c[0] == "dyn"]


def uses_untranslatable(desc: dict) -> bool:
    fids = [f for _n, f, _a in desc["der"]] + [f for _n, f, _a, _s in desc["rxn"]]
    fids += [c[1] for _n, _f, _a, st in desc["rxn"] for _v, c in st if c[0] == "dyn"]
    return any(not FN.translates(f) for f in fids)


def shape_flags(desc: dict) -> dict[str, Any]:
    covered = {c for _n, _f, _a, st in desc["rxn"] for c, _ in st}
    vars_ = [n for n, _ in desc["var"]]
    plain = {n for n, _v, ia in desc["par"] if ia is None or IA_FROZEN}
    ia_reads = {a for _n, _v, ia in desc["par"] if ia is not None for a in ia[1]}
    return {
        "no_equation": not any(st for _n, _f, _a, st in desc["rxn"]),
        "free_feeds_ia": bool(ia_reads & set(desc["free"])),
        "n_var": len(vars_),
        "n_ret": len([v for v in vars_ if v in covered]),
        "uncovered": [v for v in vars_ if v not in covered],
        "has_ia": any(ia is not None for _n, _v, ia in desc["par"]),
        "free_ok": all(f in plain for f in desc["free"]) and len(set(desc["free"])) == len(desc["free"]),
        "untranslatable": uses_untranslatable(desc),
        # the ONLY functions fn_to_sympy has to refuse are calls with an empty argument list of a
        # function whose parameters all have defaults (recorded finding while the tree skips the binding then)
        "empty_call_only": uses_untranslatable(desc) and all(FN.translates(f) or f in FN.EMPTY_CALL for f in used_fids(desc)),
        "surplus_only": uses_untranslatable(desc) and all(FN.translates(f) or f in FN.SURPLUS_ONLY for f in used_fids(desc)),
        "empty_call": any(f in FN.EMPTY_CALL for f in used_fids(desc)),
        "keyerror_refusal": any(f in FN.KEYERROR_REFUSED for f in used_fids(desc)),
        "declared_in_order": declared_in_order(desc),
    }


def declared_in_order(desc: dict) -> bool:
    have = {0} | {n for n, _v, _ia in desc["par"]} | {n for n, _ in desc["var"]}
    for n, _f, a in desc["der"]:
        if not set(a) <= have:
            return False
        have.add(n)
    for n, _f, a, _st in desc["rxn"]:
        if not set(a) <= have:
            return False
        have.add(n)
    return True


# ---------------------------------------------------------------------------------------
# builder (public API only)
# ---------------------------------------------------------------------------------------


def _num(q: Fraction, *, as_int: bool = False) -> Any:
    if as_int and q.denominator == 1:
        return int(q)
    return float(q)


def build(desc: dict, *, int_literals: bool = False) -> Any:
    """The real model.  Numbers are passed as floats unless int_literals (whole numbers as int)."""
    from mxlpy import Derived, InitialAssignment, Model

    m = Model()
    for n, v, ia in desc["par"]:
        if ia is None:
            m.add_parameter(nm(n), _num(v, as_int=int_literals))
        else:
            m.add_parameter(nm(n), InitialAssignment(fn=FN.FNS[ia[0]], args=[nm(a) for a in ia[1]]))
    for n, v in desc["var"]:
        m.add_variable(nm(n), _num(v, as_int=int_literals))
    for n, fid, args in desc["der"]:
        m.add_derived(nm(n), fn=FN.FNS[fid], args=[nm(a) for a in args])
    for n, fid, args, st in desc["rxn"]:
        sto = {}
        for c, cf in st:
            if cf[0] == "stat":
                sto[nm(c)] = _num(cf[1], as_int=int_literals)
            else:
                sto[nm(c)] = Derived(fn=FN.FNS[cf[1]], args=[nm(a) for a in cf[2]])
        m.add_reaction(nm(n), fn=FN.FNS[fid], args=[nm(a) for a in args], stoichiometry=sto)
    return m


# ---------------------------------------------------------------------------------------
# independent evaluator
# ---------------------------------------------------------------------------------------


class Unbounded(Exception):
    pass


def evaluate(desc: dict, t: Fraction, y: list[Fraction], fv: list[Fraction]) -> list[Fraction]:
    """dx/dt of every variable in declaration order: demand-driven evaluation of names."""
    par = {n: v for n, v, _ia in desc["par"]}
    par.update(dict(zip(desc["free"], fv)))
    var = {n: yv for (n, _), yv in zip(desc["var"], y)}
    der = {n: (f, a) for n, f, a in desc["der"]}
    rxn = {n: (f, a) for n, f, a, _ in desc["rxn"]}
    memo: dict[int, Fraction] = {}

    def chk(v):
        v = Fraction(v)
        if abs(v) >= BIG or v.denominator > 2**12:
            raise Unbounded
        return v

    def val(n: int, depth: int = 0) -> Fraction:
        if n in memo:
            return memo[n]
        if depth > 200:
            raise RecursionError
        if n == 0:
            v = t
        elif n in var:
            v = var[n]
        elif n in par:
            v = par[n]
        elif n in der:
            f, a = der[n]
            v = FN.fsem(f, [val(x, depth + 1) for x in a])
        elif n in rxn:
            f, a = rxn[n]
            v = FN.fsem(f, [val(x, depth + 1) for x in a])
        else:
            raise KeyError(n)
        memo[n] = chk(v)
        return memo[n]

    out = {n: Fraction(0) for n, _ in desc["var"]}
    for n, _f, _a, st in desc["rxn"]:
        for c, cf in st:
            cv = cf[1] if cf[0] == "stat" else chk(FN.fsem(cf[1], [val(x) for x in cf[2]]))
            out[c] = chk(out[c] + cv * val(n))
    for n in list(der) + list(rxn):
        val(n)
    return [out[n] for n, _ in desc["var"]]


# ---------------------------------------------------------------------------------------
# Gallina literals
# ---------------------------------------------------------------------------------------


def coq_coef(c: tuple) -> str:
    if c[0] == "stat":
        return f"CStat {cq(c[1])}"
    return f"CDyn {cn(c[1])} {clist(map(cn, c[2]))}"


def coq_model(desc: dict) -> str:
    par = clist(f"({cn(n)}, ({cbool(ia is not None)}, {cq(v)}))" for n, v, ia in desc["par"])
    var = clist(cn(n) for n, _ in desc["var"])
    der = clist(f"({cn(n)}, ({cn(f)}, {clist(map(cn, a))}))" for n, f, a in desc["der"])
    rxn = clist(
        f"({cn(n)}, ({cn(f)}, {clist(map(cn, a))}, {clist('(' + cn(c) + ', ' + coq_coef(cf) + ')' for c, cf in st)}))"
        for n, f, a, st in desc["rxn"]
    )
    return f"(mkCM {par} {var} {der} {rxn})"


def coq_pname(p: tuple) -> str:
    kind, n = p
    if kind == "N":
        return f"PN {cn(n)}"
    if kind == "D":
        return f"PD {cn(n)}"
    return "PK"


def coq_skeleton(sk: dict) -> str:
    body = clist(f"({coq_pname(l)}, {'None' if v is None else 'Some ' + cq(v)})" for l, v in sk["body"])
    n = "None" if sk["n"] is None else f"(Some {int(sk['n'])}%nat)"
    return (
        f"(mkSk {clist(map(cn, sk['free']))} {n} {clist(map(cn, sk['vars']))} {body} "
        f"{clist(map(coq_pname, sk['ret']))} {cbool(sk['unit'])})"
    )


def coq_outcome(o: tuple | None) -> str:
    if o is None:
        return "OSkip"
    k = o[0]
    if k == "ok":
        return f"(OOut (ROk {clist(map(cq, o[1]))}))"
    if k == "scalar":
        return f"(OOut (RScalar {cq(o[1])}))"
    simple = {"none": "RNone", "unbound": "RErrUnbound", "vec": "RErrVec", "arity": "RErrArity", "fn": "RErrFn", "junk": "RJunk", "illformed": "RIllFormed"}
    if k in simple:
        return f"(OOut {simple[k]})"
    return "OUnmodelled"  # an outcome class the model does not have: always a mismatch


def coq_optlist(v: list[Fraction] | None) -> str:
    return "None" if v is None else f"(Some {clist(map(cq, v))})"
