"""C07 helpers: model descriptions (surrogate-free), generator, builder of the real mxlpy.Model
through the public API, an INDEPENDENT evaluator (memoised recursion over exact Fractions; no
sorting, no code shared with the Coq model) and the Gallina literal printer.

Names are small ints: 0 is "time"; k>0 is the string f"n{k:04d}".

desc = {
  "par":  [(n, value: Fraction, ia: None | (fid, [args]))],   # for ia the value is the resolved one
  "var":  [(n, init: Fraction)],
  "der":  [(n, fid, [args])],
  "rxn":  [(n, fid, [args], [(var, coef)])],     coef = ("stat", Fraction) | ("dyn", fid, [args])
  "free": [n, ...],                               # requested free parameters, in the requested order
}
"""

from __future__ import annotations

from fractions import Fraction
from typing import Any

from harness import c07_fns as FN
from harness.common import cbool, clist, cn, cq

BIG = 2**40
LANGS = ("py", "ts", "rs", "jl")
COQ_LANG = {"py": "Py", "ts": "Ts", "rs": "Rs", "jl": "Jl"}


def nm(k: int) -> str:
    return "time" if k == 0 else f"n{k:04d}"


# ---------------------------------------------------------------------------------------
# generator
# ---------------------------------------------------------------------------------------

_PVALS = [Fraction(v) for v in (-2, -1, 1, 2, 3)] + [Fraction(1, 2), Fraction(3, 2)]
_CVALS = [Fraction(v) for v in (-2, -1, -1, 1, 1, 1, 2, 3)] + [Fraction(1, 2), Fraction(-1, 2), Fraction(3, 2), Fraction(1, 4)]


def gen_desc(rng, *, profile: str | None = None) -> dict:
    """profile: None (mixed) | 'clean' (inside the guard of the partial theorem)."""
    nxt = [10]

    def fresh() -> int:
        nxt[0] += 1
        return nxt[0]

    clean = profile == "clean"
    d: dict[str, list] = {"par": [], "var": [], "der": [], "rxn": [], "free": []}
    plain: list[int] = []
    for _ in range(rng.randint(1, 3)):
        n = fresh()
        d["par"].append((n, rng.choice(_PVALS), None))
        plain.append(n)
    ia_names: list[int] = []
    if not clean and rng.random() < 0.15:
        n = fresh()
        ar = rng.choice([0, 1, 2])
        fid = rng.choice([f for f in FN.BY_ARITY[ar] if f not in FN.CONDITIONAL])
        args = [rng.choice(plain) for _ in range(ar)]
        pv = {k: v for k, v, _ in d["par"]}
        d["par"].append((n, Fraction(FN.fsem(fid, [pv[a] for a in args])), (fid, args)))
        ia_names.append(n)
    r = rng.random()
    nv = 1 if r < 0.2 else (0 if (r < 0.23 and not clean) else rng.randint(2, 3))
    variables: list[int] = []
    for _ in range(nv):
        n = fresh()
        d["var"].append((n, Fraction(rng.randint(-2, 2))))
        variables.append(n)
    pool: list[int] = plain + variables + ([0] if rng.random() < 0.5 else [])
    untrans_budget = 1 if (not clean and rng.random() < 0.1) else 0

    def pick_fn(allow_ia: bool = True) -> tuple[int, list[int]]:
        nonlocal untrans_budget
        if untrans_budget and rng.random() < 0.4:
            untrans_budget = 0
            ar = rng.choice([1, 2])
            fid = rng.choice(FN.UNTRANSLATABLE_BY_ARITY[ar])
            return fid, [rng.choice(pool) for _ in range(ar)]
        ar = rng.choice([0, 1, 1, 2, 2, 2, 3])
        fid = rng.choice(FN.BY_ARITY[ar])
        args = [rng.choice(pool) for _ in range(ar)]
        # an assignment-defined parameter may be read by polynomial functions only (a conditional
        # might not evaluate the branch that names it), and never twice by the same call (a
        # difference of equal arguments is simplified away together with the name)
        if ia_names and allow_ia and fid not in FN.CONDITIONAL and ar >= 1 and rng.random() < 0.5:
            args[rng.randrange(ar)] = rng.choice(ia_names)
        if fid == 3 and args[0] == args[1]:
            fid = 2
        return fid, args

    def pick_coef() -> tuple:
        if rng.random() < 0.7:
            return ("stat", rng.choice(_CVALS))
        fid, args = pick_fn(allow_ia=False)
        return ("dyn", fid, args)

    n_comp = rng.randint(1, 7)
    made_rxn = False
    for i in range(n_comp):
        want_rxn = rng.random() < 0.5 or (i == n_comp - 1 and not made_rxn and variables)
        n = fresh()
        fid, args = pick_fn()
        if want_rxn and variables:
            targets = rng.sample(variables, rng.randint(1, min(2, len(variables))))
            d["rxn"].append((n, fid, args, [(c, pick_coef()) for c in targets]))
            made_rxn = True
        else:
            d["der"].append((n, fid, args))
        pool.append(n)
    # variables without any reaction: a recorded finding -- keep some, repair most
    if d["rxn"] and (clean or rng.random() < 0.8):
        covered = {c for _n, _f, _a, st in d["rxn"] for c, _ in st}
        for v in variables:
            if v not in covered:
                k = rng.randrange(len(d["rxn"]))
                n, f, a, st = d["rxn"][k]
                d["rxn"][k] = (n, f, a, [*st, (v, pick_coef())])
    if clean and not d["rxn"]:
        return gen_desc(rng, profile=profile)
    if rng.random() < 0.7:
        rng.shuffle(d["der"])
        rng.shuffle(d["rxn"])
    if rng.random() < 0.3:
        rng.shuffle(d["par"])
    r = rng.random()
    # a free parameter never feeds an assignment-defined parameter (the model would re-resolve the
    # assignment when the parameter is updated; the recorded value in `par` would be stale)
    ia_reads = {a for _n, _v, ia in d["par"] if ia is not None for a in ia[1]}
    cand = [p for p in plain if p not in ia_reads]
    if r < 0.4 and cand:
        d["free"] = rng.sample(cand, rng.randint(1, min(2, len(cand))))
    elif r < 0.43 and not clean:
        d["free"] = [rng.choice(ia_names) if ia_names else 999]
    return d


def gen_points(rng, desc: dict, k: int = 3) -> list[tuple[Fraction, list[Fraction], list[Fraction]]]:
    pts = []
    for i in range(k):
        half = rng.random() < 0.25
        t = Fraction(rng.randint(0, 3))
        y = [Fraction(rng.randint(-3, 3)) + (Fraction(1, 2) if half and rng.random() < 0.5 else 0) for _ in desc["var"]]
        fv = [Fraction(rng.randint(-3, 3)) for _ in desc["free"]]
        pts.append((t, y, fv))
    return pts


def uses_untranslatable(desc: dict) -> bool:
    fids = [f for _n, f, _a in desc["der"]] + [f for _n, f, _a, _s in desc["rxn"]]
    fids += [c[1] for _n, _f, _a, st in desc["rxn"] for _v, c in st if c[0] == "dyn"]
    return any(not FN.translates(f) for f in fids)


def shape_flags(desc: dict) -> dict[str, Any]:
    covered = {c for _n, _f, _a, st in desc["rxn"] for c, _ in st}
    vars_ = [n for n, _ in desc["var"]]
    plain = {n for n, _v, ia in desc["par"] if ia is None}
    return {
        "n_var": len(vars_),
        "n_ret": len([v for v in vars_ if v in covered]),
        "uncovered": [v for v in vars_ if v not in covered],
        "has_ia": any(ia is not None for _n, _v, ia in desc["par"]),
        "free_ok": all(f in plain for f in desc["free"]) and len(set(desc["free"])) == len(desc["free"]),
        "untranslatable": uses_untranslatable(desc),
        "declared_in_order": declared_in_order(desc),
    }


def declared_in_order(desc: dict) -> bool:
    have = {0} | {n for n, _v, _ia in desc["par"]} | {n for n, _ in desc["var"]}
    for n, _f, a in desc["der"]:
        if not set(a) <= have:
            return False
        have.add(n)
    for n, _f, a, _st in desc["rxn"]:
        if not set(a) <= have:
            return False
        have.add(n)
    return True


# ---------------------------------------------------------------------------------------
# builder (public API only)
# ---------------------------------------------------------------------------------------


def _num(q: Fraction, *, as_int: bool = False) -> Any:
    if as_int and q.denominator == 1:
        return int(q)
    return float(q)


def build(desc: dict, *, int_literals: bool = False) -> Any:
    """The real model.  Numbers are passed as floats unless int_literals (whole numbers as int)."""
    from mxlpy import Derived, InitialAssignment, Model

    m = Model()
    for n, v, ia in desc["par"]:
        if ia is None:
            m.add_parameter(nm(n), _num(v, as_int=int_literals))
        else:
            m.add_parameter(nm(n), InitialAssignment(fn=FN.FNS[ia[0]], args=[nm(a) for a in ia[1]]))
    for n, v in desc["var"]:
        m.add_variable(nm(n), _num(v, as_int=int_literals))
    for n, fid, args in desc["der"]:
        m.add_derived(nm(n), fn=FN.FNS[fid], args=[nm(a) for a in args])
    for n, fid, args, st in desc["rxn"]:
        sto = {}
        for c, cf in st:
            if cf[0] == "stat":
                sto[nm(c)] = _num(cf[1], as_int=int_literals)
            else:
                sto[nm(c)] = Derived(fn=FN.FNS[cf[1]], args=[nm(a) for a in cf[2]])
        m.add_reaction(nm(n), fn=FN.FNS[fid], args=[nm(a) for a in args], stoichiometry=sto)
    return m


# ---------------------------------------------------------------------------------------
# independent evaluator
# ---------------------------------------------------------------------------------------


class Unbounded(Exception):
    pass


def evaluate(desc: dict, t: Fraction, y: list[Fraction], fv: list[Fraction]) -> list[Fraction]:
    """dx/dt of every variable in declaration order: demand-driven evaluation of names."""
    par = {n: v for n, v, _ia in desc["par"]}
    par.update(dict(zip(desc["free"], fv)))
    var = {n: yv for (n, _), yv in zip(desc["var"], y)}
    der = {n: (f, a) for n, f, a in desc["der"]}
    rxn = {n: (f, a) for n, f, a, _ in desc["rxn"]}
    memo: dict[int, Fraction] = {}

    def chk(v):
        v = Fraction(v)
        if abs(v) >= BIG or v.denominator > 2**12:
            raise Unbounded
        return v

    def val(n: int, depth: int = 0) -> Fraction:
        if n in memo:
            return memo[n]
        if depth > 200:
            raise RecursionError
        if n == 0:
            v = t
        elif n in var:
            v = var[n]
        elif n in par:
            v = par[n]
        elif n in der:
            f, a = der[n]
            v = FN.fsem(f, [val(x, depth + 1) for x in a])
        elif n in rxn:
            f, a = rxn[n]
            v = FN.fsem(f, [val(x, depth + 1) for x in a])
        else:
            raise KeyError(n)
        memo[n] = chk(v)
        return memo[n]

    out = {n: Fraction(0) for n, _ in desc["var"]}
    for n, _f, _a, st in desc["rxn"]:
        for c, cf in st:
            cv = cf[1] if cf[0] == "stat" else chk(FN.fsem(cf[1], [val(x) for x in cf[2]]))
            out[c] = chk(out[c] + cv * val(n))
    for n in list(der) + list(rxn):
        val(n)
    return [out[n] for n, _ in desc["var"]]


# ---------------------------------------------------------------------------------------
# Gallina literals
# ---------------------------------------------------------------------------------------


def coq_coef(c: tuple) -> str:
    if c[0] == "stat":
        return f"CStat {cq(c[1])}"
    return f"CDyn {cn(c[1])} {clist(map(cn, c[2]))}"


def coq_model(desc: dict) -> str:
    par = clist(f"({cn(n)}, ({cbool(ia is not None)}, {cq(v)}))" for n, v, ia in desc["par"])
    var = clist(cn(n) for n, _ in desc["var"])
    der = clist(f"({cn(n)}, ({cn(f)}, {clist(map(cn, a))}))" for n, f, a in desc["der"])
    rxn = clist(
        f"({cn(n)}, ({cn(f)}, {clist(map(cn, a))}, {clist('(' + cn(c) + ', ' + coq_coef(cf) + ')' for c, cf in st)}))"
        for n, f, a, st in desc["rxn"]
    )
    return f"(mkCM {par} {var} {der} {rxn})"


def coq_pname(p: tuple) -> str:
    kind, n = p
    if kind == "N":
        return f"PN {cn(n)}"
    if kind == "D":
        return f"PD {cn(n)}"
    return "PK"


def coq_skeleton(sk: dict) -> str:
    body = clist(f"({coq_pname(l)}, {'None' if v is None else 'Some ' + cq(v)})" for l, v in sk["body"])
    n = "None" if sk["n"] is None else f"(Some {int(sk['n'])}%nat)"
    return (
        f"(mkSk {clist(map(cn, sk['free']))} {n} {clist(map(cn, sk['vars']))} {body} "
        f"{clist(map(coq_pname, sk['ret']))} {cbool(sk['unit'])})"
    )


def coq_outcome(o: tuple | None) -> str:
    if o is None:
        return "OSkip"
    k = o[0]
    if k == "ok":
        return f"(OOut (ROk {clist(map(cq, o[1]))}))"
    if k == "scalar":
        return f"(OOut (RScalar {cq(o[1])}))"
    simple = {"none": "RNone", "unbound": "RErrUnbound", "vec": "RErrVec", "arity": "RErrArity", "fn": "RErrFn", "junk": "RJunk", "illformed": "RIllFormed"}
    if k in simple:
        return f"(OOut {simple[k]})"
    return "OUnmodelled"  # an outcome class the model does not have: always a mismatch


def coq_optlist(v: list[Fraction] | None) -> str:
    return "None" if v is None else f"(Some {clist(map(cq, v))})"
