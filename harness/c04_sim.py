"""Shared machinery of C04 (continued simulation) and C14 (protocols).

Parts (see /verif/design/C04.md):
  * extract_facts()/gen(): fail-closed `ast` extractor  src/mxlpy/simulator.py + integrators/int_scipy.py
    -> coq/sim/GenSimFacts.v  (pinned by C04_facts_pinned / C14_facts_pinned);
  * histories: JSON-able operation lists with dyadic times (multiples of 1/8, steps in {1,2,4,8});
  * run_history(): drives the REAL Simulator with the REAL Scipy integrator class, either on the real
    scipy.integrate ("scipy" mode: x' = -k x, y' = k x - c y) or on an exact stand-in for
    scipy.integrate ("exact" mode: x' = k y + a*time, y' = c, polynomial solution, exact in binary64),
    recording after every operation: exception kind, get_result() error kind, every segment's index
    (and values in exact mode) and raw_parameters;
  * oracle(): judges the PROPERTY on those observations with its own abstract simulator
    {reached, current state, parameters in force} in absolute time -- shares no code with the Coq model;
  * corr_files(): the same histories + observations as Gallina literals for `Eval vm_compute in mismatches`.

Second deepening pass: the operation ["view", kind] (reading a view of get_result() between simulation calls; model
coq/sim/Views.v, fact view_mode from extract_view_mode(), own correspondence shards comparing the live model's parameter
values), the exact stamp clause for steady-state rows (reached + n*step), the families gen_override_steady and
gen_view_between, the finding view-read-reverts-parameter-update (guard: read while the parameters in force differ from the
last segment's; excused only while recorded in known_findings.json).
"""

from __future__ import annotations

import ast
import json
import math
import signal
from fractions import Fraction
from typing import Any

from harness import common
from harness.common import cbool, clist, cnat, copt, cq

AREA = "sim"
F = Fraction

# ---------------------------------------------------------------------------------------
# (1) fact extraction (fail-closed)
# ---------------------------------------------------------------------------------------


def _body(fn: ast.FunctionDef) -> list[ast.stmt]:
    return [s for s in fn.body if not (isinstance(s, ast.Expr) and isinstance(s.value, ast.Constant))]


def _norm(fn: ast.FunctionDef | None) -> str:
    return "" if fn is None else "\n".join(ast.unparse(s) for s in _body(fn))


def _method(tree: ast.Module, cls: str, name: str) -> ast.FunctionDef | None:
    for n in tree.body:
        if isinstance(n, ast.ClassDef) and n.name == cls:
            for m in n.body:
                if isinstance(m, ast.FunctionDef) and m.name == name:
                    return m
    return None


_CMP = {ast.LtE: "CmpLe", ast.Lt: "CmpLt", ast.GtE: "CmpGe", ast.Gt: "CmpGt"}
_FLIP = {"CmpLe": "CmpGe", "CmpLt": "CmpGt", "CmpGe": "CmpLe", "CmpGt": "CmpLt"}

_SHAPES = {
    ("Simulator", "_handle_simulation_results"): """match result.value:
    case TimeCourse(time=time, values=results):
        if self._time_shift is not None:
            time += self._time_shift
        results_df = pd.DataFrame(data=results, index=time, columns=self.model.get_variable_names())
        if self.variables is None:
            self.variables = [results_df]
        elif skipfirst:
            self.variables.append(results_df.iloc[1:, :])
        else:
            self.variables.append(results_df)
        if self.simulation_parameters is None:
            self.simulation_parameters = []
        self.simulation_parameters.append(self.model.get_parameter_values())
    case _ as e:
        self._errors.append(e)""",
    ("Simulator", "update_variable"): "return self.update_variables({variable: value})",
    ("Simulator", "clear_results"): """self.variables = None
self.dependent = None
self.simulation_parameters = None
self._time_shift = None
self._errors = []
self._initialise_integrator()""",
    ("Simulator", "update_parameters"): "self.model.update_parameters(parameters)\nreturn self",
    ("Simulator", "simulate_protocol"): """if len(self._errors) > 0:
    return self
t_start = 0.0 if (variables := self.variables) is None else variables[-1].index[-1]
for t_end, pars in protocol.iterrows():
    t_end = cast(pd.Timedelta, t_end)
    self.model.update_parameters(pars.to_dict())
    self.simulate(t_start + t_end.total_seconds(), steps=time_points_per_step)
    if self.variables is None:
        break
return self""",
    ("Scipy", "__post_init__"): "self._y0_orig = self.y0",
    ("Scipy", "reset"): "self.t0 = 0\nself.y0 = self._y0_orig",
    ("Scipy", "integrate"): """steps = 100 if steps is None else steps + 1
return self.integrate_time_course(time_points=np.linspace(self.t0, t_end, steps, dtype=float))""",
    ("Scipy", "integrate_time_course"): """if time_points[0] != self.t0:
    time_points = np.insert(time_points, 0, self.t0)
res = spi.solve_ivp(fun=self.rhs, y0=self.y0, t_span=(time_points[0], time_points[-1]), t_eval=time_points, jac=self.jacobian, atol=self.atol, rtol=self.rtol, method=self.method)
if res.success:
    t = np.atleast_1d(np.array(res.t, dtype=float))
    y = np.atleast_2d(np.array(res.y, dtype=float).T)
    self.t0 = t[-1]
    self.y0 = y[-1]
    return Result(TimeCourse(time=t, values=y))
return Result(IntegrationFailure())""",
}

_UPDVAR_HEAD = """sim_variables = self.variables
if sim_variables is None:
    self.y0 = self.y0 | variables
    self._initialise_integrator()
    return self
"""
_UPDVAR_SHAPES = {
    # every override restarts from the last simulated row (an earlier override at the same time is lost)
    "false": _UPDVAR_HEAD + """self.y0 = sim_variables[-1].iloc[-1, :].to_dict() | variables
self._time_shift = float(sim_variables[-1].index[-1])
self._initialise_integrator()
return self""",
    # an override made since the last simulation is kept
    "true": _UPDVAR_HEAD + """t_last = float(sim_variables[-1].index[-1])
if self._time_shift == t_last:
    self.y0 = self.y0 | variables
else:
    self.y0 = sim_variables[-1].iloc[-1, :].to_dict() | variables
self._time_shift = t_last
self._initialise_integrator()
return self""",
}

_INIT_JAC = """jac_fn = None
if self.use_jacobian:
    try:
        _jac = to_symbolic_model(self.model).jacobian()
        _par_names = self.model.get_parameter_names()
        _jac_fn = lambdify(('time', self.model.get_variable_names(), _par_names), _jac)

        def _par_values() -> list[float]:
            if (cache := self.model._cache) is None:
                cache = self.model._create_cache()
            return [cache.all_parameter_values[k] for k in _par_names]
        jac_fn = lambda t, x: _jac_fn(@T@, x, _par_values())
    except Exception as e:
        _LOGGER.warning(str(e), stacklevel=2)
y0 = self.y0
self.integrator = self._integrator_type(@RHS@, tuple((y0[k] for k in self.model.get_variable_names())), jac_fn)"""
_INIT_SHAPES = {
    # the model itself is the right-hand side: after an override it sees the integrator's shifted time
    "false": _INIT_JAC.replace("@T@", "t").replace("@RHS@", "self.model"),
    # the model (and its Jacobian) are handed absolute time
    "true": "t_shift = 0.0 if self._time_shift is None else self._time_shift\n"
    "rhs: Rhs = self.model if self._time_shift is None else lambda t, y: self.model(t + t_shift, y)\n"
    + _INIT_JAC.replace("@T@", "t + t_shift").replace("@RHS@", "rhs"),
}

_MAKE_PROTOCOL = """data = {}
t0 = pd.Timedelta(0)
for step, pars in steps:
    t0 += pd.Timedelta(seconds=step)
    data[t0] = pars
protocol = pd.DataFrame(data).T
protocol.index.name = 'Timedelta'
return protocol"""

# make_protocol building the frame row by row from list(pars.values()) under the FIRST step's key order (seeded change C14-8):
# recognised, so that the table model (coq/sim/ProtocolTable.v, RowsPositional) runs against such a tree
_MAKE_PROTOCOL_POSITIONAL = """names = list(steps[0][1])
t_ends = []
rows = []
t0 = pd.Timedelta(0)
for step, pars in steps:
    t0 += pd.Timedelta(seconds=step)
    t_ends.append(t0)
    rows.append(list(pars.values()))
return pd.DataFrame(np.array(rows), index=pd.TimedeltaIndex(t_ends, name='Timedelta'), columns=names)"""
_PROTOCOL_ROWS = {_MAKE_PROTOCOL: "RowsByName", _MAKE_PROTOCOL_POSITIONAL: "RowsPositional"}

_PRIOR = "0.0 if (variables := self.variables) is None else variables[-1].index[-1]"
_ERRGUARD = "if len(self._errors) > 0:\n    return self"


def _cmp_of(test: ast.expr, left: str, right: str) -> str:
    """comparison constructor of `left <op> right` (operands may be written either way round)"""
    if not (isinstance(test, ast.Compare) and len(test.ops) == 1):
        return "CmpUnknown"
    l, r = ast.unparse(test.left), ast.unparse(test.comparators[0])
    c = _CMP.get(type(test.ops[0]), "CmpUnknown")
    if (l, r) == (left, right):
        return c
    if (l, r) == (right, left):
        return _FLIP.get(c, "CmpUnknown")
    return "CmpUnknown"


def _frame_facts(fn: ast.FunctionDef | None, var: str, last: str) -> tuple[str, str, list[ast.stmt]]:
    """frame + comparison of the refusal test of simulate / simulate_time_course.

    Recognised statement kinds (any other statement -> FrameUnknown):
      G  error guard            if len(self._errors) > 0: return self
      A  array conversion       time_points = np.array(time_points, dtype=float)      (time course only)
      S  shift of the request   if self._time_shift is not None: <var> -= self._time_shift
      P  prior                  prior_t_end = 0.0 if ... else variables[-1].index[-1]
      Q  shift of prior         if self._time_shift is not None: prior_t_end -= self._time_shift
      R  refusal                if <last> <= prior_t_end: msg = ...; raise ValueError(msg)
      F  filter (time course)   if not (larger := time_points >= prior_t_end).all(): ...
      H  hand over              self._handle_simulation_results(...); return self
    """
    if fn is None:
        return "FrameUnknown", "CmpUnknown", []
    kinds = ""
    stmts = _body(fn)
    cmp_ = "CmpUnknown"
    rest: list[ast.stmt] = []
    for s in stmts:
        u = ast.unparse(s)
        if u == _ERRGUARD:
            kinds += "G"
        elif u == "time_points = np.array(time_points, dtype=float)":
            kinds += "A"
        elif u == f"if self._time_shift is not None:\n    {var} -= self._time_shift":
            kinds += "S"
        elif u in (f"prior_t_end: float = {_PRIOR}", f"prior_t_end = {_PRIOR}"):
            kinds += "P"
        elif u == "if self._time_shift is not None:\n    prior_t_end -= self._time_shift":
            kinds += "Q"
        elif (
            isinstance(s, ast.If)
            and not s.orelse
            and len(s.body) == 2
            and isinstance(s.body[1], ast.Raise)
            and ast.unparse(s.body[1]) == "raise ValueError(msg)"
        ):
            kinds += "R"
            cmp_ = _cmp_of(s.test, last, "prior_t_end")
        else:
            kinds += "X"
            rest.append(s)
    core = kinds.replace("G", "", 1) if kinds.startswith("G") else "!"
    if var == "time_points":
        core = core.replace("A", "", 1) if core.startswith("A") else "!"
    # X statements: the filter (time course) and the hand-over; they are analysed by the caller
    shape = core.replace("X", "")
    frame = {"PRS": "FrameAbs", "SPQR": "FrameRel", "SPR": "FrameMixed"}.get(shape, "FrameUnknown")
    # where the S statement sits relative to the filter matters for the time course: the filter must be in
    # the same frame as the refusal test
    if var == "time_points" and frame != "FrameUnknown":
        want = {"FrameAbs": "PRXSXX", "FrameRel": "SPQRXXX", "FrameMixed": "SPRXXX"}[frame]
        if core != want:
            frame = "FrameUnknown"
    if var == "t_end" and frame != "FrameUnknown":
        want = {"FrameAbs": "PRSXX", "FrameRel": "SPQRXX", "FrameMixed": "SPRXX"}[frame]
        if core != want:
            frame = "FrameUnknown"
    return frame, cmp_, rest


def extract_facts() -> dict[str, str]:
    facts = {
        "sim_frame": "FrameUnknown", "sim_cmp": "CmpUnknown", "tc_frame": "FrameUnknown", "tc_cmp": "CmpUnknown",
        "tc_keep": "CmpUnknown", "skip_sim": "false", "skip_tc": "false", "skip_ss": "true",
        "ss_resets": "false", "ss_advances": "true", "ss_step": "0", "ss_max": "0",
        "ptc_cmp": "CmpUnknown", "win_lo": "CmpUnknown", "win_hi": "CmpUnknown", "updvar_keeps": "false",
        "abs_time": "false", "shapes_ok": "false", "protocol_rows": "RowsUnknown",
    }  # fail-closed defaults: none of them equals the pinned value
    try:
        sim_tree = ast.parse((common.REPO / "src/mxlpy/simulator.py").read_text())
        int_tree = ast.parse((common.REPO / "src/mxlpy/integrators/int_scipy.py").read_text())
    except (OSError, SyntaxError):
        return facts
    trees = {"Simulator": sim_tree, "Scipy": int_tree}
    shapes_ok = all(_norm(_method(trees[c], c, m)) == shape for (c, m), shape in _SHAPES.items())

    uv = _norm(_method(sim_tree, "Simulator", "update_variables"))
    for flag, shape in _UPDVAR_SHAPES.items():
        if uv == shape:
            facts["updvar_keeps"] = flag
            break
    else:
        shapes_ok = False

    # make_protocol (module-level function of src/mxlpy/__init__.py): cumulative ends
    try:
        init_tree = ast.parse((common.REPO / "src/mxlpy/__init__.py").read_text())
        mp = next((n for n in init_tree.body if isinstance(n, ast.FunctionDef) and n.name == "make_protocol"), None)
    except (OSError, SyntaxError):
        mp = None
    # how a step's values get into its row of the table is a fact of its own (gen_protocol_rows, pinned by
    # C14_protocol_rows_pinned); only an unrecognised body counts as a changed shape
    facts["protocol_rows"] = _PROTOCOL_ROWS.get(_norm(mp), "RowsUnknown")
    if facts["protocol_rows"] == "RowsUnknown":
        shapes_ok = False

    ii = _norm(_method(sim_tree, "Simulator", "_initialise_integrator"))
    for flag, shape in _INIT_SHAPES.items():
        if ii == shape:
            facts["abs_time"] = flag
            break
    else:
        shapes_ok = False

    # simulate
    fr, cmp_, rest = _frame_facts(_method(sim_tree, "Simulator", "simulate"), "t_end", "t_end")
    facts["sim_frame"], facts["sim_cmp"] = fr, cmp_
    if len(rest) == 2 and ast.unparse(rest[1]) == "return self":
        u = ast.unparse(rest[0])
        for flag in ("True", "False"):
            if u == f"self._handle_simulation_results(self.integrator.integrate(t_end=t_end, steps=steps), skipfirst={flag})":
                facts["skip_sim"] = flag.lower()
                break
        else:
            facts["sim_frame"] = "FrameUnknown"
    else:
        facts["sim_frame"] = "FrameUnknown"

    # simulate_time_course
    fr, cmp_, rest = _frame_facts(_method(sim_tree, "Simulator", "simulate_time_course"), "time_points", "time_points[-1]")
    facts["tc_frame"], facts["tc_cmp"] = fr, cmp_
    ok = len(rest) == 3 and ast.unparse(rest[2]) == "return self"
    if ok:
        f = rest[0]
        ok = (
            isinstance(f, ast.If)
            and isinstance(f.test, ast.UnaryOp)
            and isinstance(f.test.op, ast.Not)
            and not f.orelse
            and ast.unparse(f.body[-1]) == "time_points = time_points[larger]"
        )
        if ok:
            t = f.test.operand  # (larger := time_points >= prior_t_end).all()
            ok = (
                isinstance(t, ast.Call)
                and isinstance(t.func, ast.Attribute)
                and t.func.attr == "all"
                and isinstance(t.func.value, ast.NamedExpr)
                and ast.unparse(t.func.value.target) == "larger"
            )
            if ok:
                facts["tc_keep"] = _cmp_of(t.func.value.value, "time_points", "prior_t_end")
        u = ast.unparse(rest[1])
        for flag in ("True", "False"):
            if u == f"self._handle_simulation_results(self.integrator.integrate_time_course(time_points=time_points), skipfirst={flag})":
                facts["skip_tc"] = flag.lower()
                break
        else:
            ok = False
    if not ok:
        facts["tc_frame"] = "FrameUnknown"

    # simulate_to_steady_state
    ss = _norm(_method(sim_tree, "Simulator", "simulate_to_steady_state"))
    for flag in ("True", "False"):
        if ss == (
            _ERRGUARD + "\nself._handle_simulation_results(self.integrator.integrate_to_steady_state("
            f"tolerance=tolerance, rel_norm=rel_norm), skipfirst={flag})\nreturn self"
        ):
            facts["skip_ss"] = flag.lower()
            break
    else:
        shapes_ok = False

    # Scipy.integrate_to_steady_state
    its = _method(int_tree, "Scipy", "integrate_to_steady_state")
    if its is not None:
        b = _body(its)
        facts["ss_resets"] = cbool(bool(b) and ast.unparse(b[0]) == "self.reset()")
        src = _norm(its)
        facts["ss_advances"] = cbool("self.t0 =" in src or "self.y0 =" in src or "self.t0=" in src)
        names = [a.arg for a in its.args.kwonlyargs]
        defaults = dict(zip(names, its.args.kw_defaults))
        for key, arg in (("ss_step", "step_size"), ("ss_max", "max_steps")):
            d = defaults.get(arg)
            if isinstance(d, ast.Constant) and isinstance(d.value, int) and 0 < d.value <= 5000:
                facts[key] = str(d.value)
        expect_rest = """integ = spi.ode(lambda t, x: list(self.rhs(t, x)), jac=self.jacobian)
integ.set_integrator(name=self.method)
integ.set_initial_value(self.y0)
t = self.t0 + step_size
y1 = copy.deepcopy(self.y0)
for _ in range(max_steps):
    y2 = np.array(integ.integrate(t), dtype=float)
    diff = (y2 - y1) / y1 if rel_norm else y2 - y1
    if np.linalg.norm(diff, ord=2) < tolerance:
        return Result(TimeCourse(time=np.array([t], dtype=float), values=np.array([y2], dtype=float)))
    y1 = y2
    t += step_size
return Result(NoSteadyState())"""
        got_rest = "\n".join(ast.unparse(s) for s in (b[1:] if facts["ss_resets"] == "true" else b))
        # since a56e563 the loop tests integ.successful() after every step (C15's business: a failing solver is
        # reported as failure); both forms leave the time / state bookkeeping modelled here unchanged
        expect_rest_checked = expect_rest.replace(
            "    y2 = np.array(integ.integrate(t), dtype=float)\n",
            "    y2 = np.array(integ.integrate(t), dtype=float)\n    if not integ.successful():\n        return Result(IntegrationFailure())\n",
        )
        if got_rest not in (expect_rest, expect_rest_checked):
            shapes_ok = False
    else:
        shapes_ok = False

    # simulate_protocol_time_course
    ptc = _method(sim_tree, "Simulator", "simulate_protocol_time_course")
    if ptc is not None:
        src = _norm(ptc)
        template = """if len(self._errors) > 0:
    return self
t_start = 0.0 if (variables := self.variables) is None else variables[-1].index[-1]
protocol = protocol.copy()
protocol.index = @IDX@
time_points = np.array(time_points, dtype=float)
if time_points_as_relative:
    time_points += t_start
if time_points[-1] @R@ t_start:
    msg = 'End time point has to be larger than previous end time point'
    raise ValueError(msg)
larger = time_points > protocol.index[-1]
if any(larger):
    msg = f'Ignoring time points outside of protocol range:\\n {time_points[larger]}'
    _LOGGER.warning(msg)
full_time_points = protocol.index.join(pd.Index(time_points), how='outer')
for t_end, pars in protocol.iterrows():
    self.model.update_parameters(pars.to_dict())
    self.simulate_time_course(time_points=full_time_points[(full_time_points @LO@ t_start) & (full_time_points @HI@ t_end)])
    t_start = t_end
    if self.variables is None:
        break
return self"""
        ops = {"<=": "CmpLe", "<": "CmpLt", ">=": "CmpGe", ">": "CmpGt"}
        # the step ends in absolute time, index + t_start: via a Timedelta (exact only when t_start is a whole number of
        # nanoseconds -- known finding protocol-start-rounded-to-ns of C14) or in seconds (fixes/C14-protocol-start-seconds.diff);
        # the Q model is `fst r + t_start` for both
        idx_variants = (
            "(cast(pd.TimedeltaIndex, protocol.index) + pd.Timedelta(t_start, unit='s')).total_seconds()",
            "cast(pd.TimedeltaIndex, protocol.index).total_seconds() + t_start",
        )
        found = False
        for r, rc in ops.items():
            for lo, lc in ops.items():
                for hi, hc in ops.items():
                    for iv in idx_variants:
                        if src == template.replace("@R@", r).replace("@LO@", lo).replace("@HI@", hi).replace("@IDX@", iv):
                            facts["ptc_cmp"], facts["win_lo"], facts["win_hi"] = rc, lc, hc
                            found = True
        if not found:
            shapes_ok = False
    else:
        shapes_ok = False
    facts["shapes_ok"] = cbool(shapes_ok)
    return facts


# ----- views of get_result(): do they leave the model shared with the Simulator as they found it? -----
_PARS_IN_FORCE = "return {k: p.value for k, p in self.model.get_raw_parameters(as_copy=False).items()}"
_GET_RESULT_TAIL = "return Result(Simulation(model=self.model, raw_variables=variables, raw_parameters=parameters))"


def _update_sites(fn: ast.FunctionDef) -> list[str]:
    """arguments of every `self.model.update_parameters(...)` call inside fn, in source order"""
    calls = [
        n for n in ast.walk(fn)
        if isinstance(n, ast.Call) and ast.unparse(n.func) == "self.model.update_parameters" and len(n.args) == 1 and not n.keywords
    ]
    calls.sort(key=lambda n: (n.lineno, n.col_offset))
    return [ast.unparse(n.args[0]) for n in calls]


def _restored(fn: ast.FunctionDef) -> bool:
    """fn has the shape   ... in_force = self._parameters_in_force() ; try: <every update_parameters(p)> finally:
    self.model.update_parameters(in_force) ...   (the shape of fixes/C04-views-restore-parameters.diff)"""
    body = _body(fn)
    for i, st in enumerate(body):
        if ast.unparse(st) == "in_force = self._parameters_in_force()" and i + 1 < len(body) and isinstance(body[i + 1], ast.Try):
            tr = body[i + 1]
            if tr.handlers or tr.orelse or [ast.unparse(x) for x in tr.finalbody] != ["self.model.update_parameters(in_force)"]:
                return False
            n_inside = 0
            for x in tr.body:
                n_inside += sum(
                    1 for n in ast.walk(x)
                    if isinstance(n, ast.Call) and ast.unparse(n.func) == "self.model.update_parameters"
                )
            n_all = sum(1 for n in ast.walk(fn) if isinstance(n, ast.Call) and ast.unparse(n.func) == "self.model.update_parameters")
            return n_inside >= 1 and n_all == n_inside + 1  # everything but the restoring call sits inside the try
    return False


def extract_view_mode() -> str:
    """ViewLastSegment: the views re-apply each segment's parameters to the model they share with the Simulator and leave
    it at the LAST segment's values (the code as it is: a parameter update made since is lost);
    ViewRestores: they put back what they found (fixes/C04-views-restore-parameters.diff);  anything else: ViewUnknown."""
    try:
        res_tree = ast.parse((common.REPO / "src/mxlpy/simulation.py").read_text())
        sim_tree = ast.parse((common.REPO / "src/mxlpy/simulator.py").read_text())
    except (OSError, SyntaxError):
        return "ViewUnknown"
    gr = _method(sim_tree, "Simulator", "get_result")
    if gr is None or not _body(gr) or ast.unparse(_body(gr)[-1]) != _GET_RESULT_TAIL:
        return "ViewUnknown"  # the result no longer shares the Simulator's model (or is built differently)
    sites: dict[str, list[str]] = {}
    fns: dict[str, ast.FunctionDef] = {}
    for n in res_tree.body:
        if isinstance(n, ast.ClassDef) and n.name == "Simulation":
            for m in n.body:
                if isinstance(m, ast.FunctionDef):
                    # overloads share a name: the last definition wins, as in Python
                    fns[m.name] = m
    for name, m in fns.items():
        st = _update_sites(m)
        if st:
            sites[name] = st
    if sites == {"_compute_args": ["p"], "get_right_hand_side": ["p"], "_get_fluxes_by_sign": ["self.raw_parameters[-1]"]}:
        return "ViewLastSegment"
    if (
        sites == {"_compute_args": ["p", "in_force"], "get_right_hand_side": ["p", "in_force"]}
        and _restored(fns["_compute_args"])
        and _restored(fns["get_right_hand_side"])
        and "_parameters_in_force" in fns
        and _norm(fns["_parameters_in_force"]) == _PARS_IN_FORCE
    ):
        return "ViewRestores"
    return "ViewUnknown"


FACT_ORDER = [
    "sim_frame", "sim_cmp", "tc_frame", "tc_cmp", "tc_keep", "skip_sim", "skip_tc", "skip_ss",
    "ss_resets", "ss_advances", "ss_step", "ss_max", "ptc_cmp", "win_lo", "win_hi", "updvar_keeps", "abs_time", "shapes_ok",
]


def gen() -> dict[str, str]:
    f = extract_facts()
    vals = [f[k] + ("%N" if k in ("ss_step", "ss_max") else "") for k in FACT_ORDER]
    text = (
        "(* REGENERATED from src/mxlpy/simulator.py and src/mxlpy/integrators/int_scipy.py by harness/c04_sim.py;\n"
        "   do not edit.  An unrecognised shape yields *Unknown / false / 0, which breaks C04_facts_pinned and\n"
        "   C14_facts_pinned. *)\n"
        "From Coq Require Import NArith.\nFrom Sim Require Import Integrator Views ProtocolTable.\n"
        "Definition gen_sim_facts : sim_facts :=\n  mkSimFacts " + " ".join(vals) + ".\n"
        "(* src/mxlpy/simulation.py: what reading a view of get_result() leaves in the model shared with the Simulator *)\n"
        "Definition gen_view_mode : view_mode := " + (vm := extract_view_mode()) + ".\n"
        "(* src/mxlpy/__init__.py make_protocol: how a step's values get into its row of the table *)\n"
        "Definition gen_protocol_rows : rows_mode := " + f["protocol_rows"] + ".\n"
    )
    common.write_if_changed(common.area_dir(AREA) / "GenSimFacts.v", text)
    return dict(f, view_mode=vm)


# ---------------------------------------------------------------------------------------
# (2) the two test systems
# ---------------------------------------------------------------------------------------
# exact mode: variables (x, y), parameters (k, c, a, boom):  x' = k*y + a*time, y' = c
# scipy mode: variables (x, y), parameters (k, c):           x' = -k*x,         y' = k*x - c*y
# tdep mode:  variables (x, y), parameters (k, c):           x' = -k*time*x,    y' = c*time - k*y   (real scipy; every rate
#             reads `time`, so the model time the right-hand side is handed is observable; closed form below)

VARS = ["x", "y"]
PARS = {"exact": ["k", "c", "a", "boom"], "scipy": ["k", "c"], "tdep": ["k", "c"]}


def r_ky_at(y, k, a, time):  # noqa: ANN001
    return k * y + a * time


def r_c(c):  # noqa: ANN001
    return c


def r_kx(x, k):  # noqa: ANN001
    return k * x


def r_cy(y, c):  # noqa: ANN001
    return c * y


def r_ktx(x, k, time):  # noqa: ANN001
    return k * time * x


def r_ct(c, time):  # noqa: ANN001
    return c * time


def r_ky(y, k):  # noqa: ANN001
    return k * y


def build_model(mode: str, y0: list[Fraction], p0: list[Fraction]):
    from mxlpy import Model

    m = Model()
    m.add_variables({v: float(val) for v, val in zip(VARS, y0)})
    m.add_parameters({p: float(val) for p, val in zip(PARS[mode], p0)})
    if mode == "exact":
        m.add_reaction("v1", r_ky_at, args=["y", "k", "a", "time"], stoichiometry={"x": 1.0})
        m.add_reaction("v2", r_c, args=["c"], stoichiometry={"y": 1.0})
    elif mode == "scipy":
        m.add_reaction("v1", r_kx, args=["x", "k"], stoichiometry={"x": -1.0, "y": 1.0})
        m.add_reaction("v2", r_cy, args=["y", "c"], stoichiometry={"y": -1.0})
    else:
        m.add_reaction("v1", r_ktx, args=["x", "k", "time"], stoichiometry={"x": -1.0})
        m.add_reaction("v2", r_ct, args=["c", "time"], stoichiometry={"y": 1.0})
        m.add_reaction("v3", r_ky, args=["y", "k"], stoichiometry={"y": -1.0})
    return m


def expected_fluxes(mode: str, pv: dict[str, float], t: float, x: float, y: float) -> dict[str, float]:
    """the rate laws of build_model evaluated by hand (C14: fluxes inside a step use that step's values)"""
    if mode == "exact":
        return {"v1": pv["k"] * y + pv["a"] * t, "v2": pv["c"]}
    if mode == "scipy":
        return {"v1": pv["k"] * x, "v2": pv["c"] * y}
    return {"v1": pv["k"] * t * x, "v2": pv["c"] * t, "v3": pv["k"] * y}


def exact_flow(p: dict[str, Fraction], t0: Fraction, y: list[Fraction], d: Fraction) -> list[Fraction]:
    """closed-form solution of the exact-mode system after duration d from state y at time t0"""
    k, c, a = p["k"], p["c"], p["a"]
    return [y[0] + k * (y[1] * d + c * d * d / 2) + a * ((t0 + d) ** 2 - t0**2) / 2, y[1] + c * d]


def chain_flow(p: dict[str, float], y: list[float], d: float) -> list[float]:
    """closed-form solution of the scipy-mode system (autonomous)"""
    k, c = float(p["k"]), float(p["c"])
    ek, ec = math.exp(-k * d), math.exp(-c * d)
    x = y[0] * ek
    if abs(c - k) > 1e-12:
        yy = y[1] * ec + k * y[0] * (ek - ec) / (c - k)
    else:
        yy = y[1] * ek + k * y[0] * d * ek
    return [x, yy]


def tdep_flow(p: dict[str, float], t0: float, y: list[float], d: float) -> list[float]:
    """closed-form solution of the tdep-mode system from state y at ABSOLUTE model time t0 after duration d:
    x' = -k t x  ->  x(t0+d) = x exp(-k ((t0+d)^2 - t0^2)/2);   y' = c t - k y  ->  particular solution
    yp(t) = (c/k) t - c/k^2, y(t0+d) = yp(t0+d) + (y - yp(t0)) exp(-k d)   (k = 0: y + c ((t0+d)^2 - t0^2)/2)"""
    k, c = float(p["k"]), float(p["c"])
    t0, d = float(t0), float(d)
    q = ((t0 + d) ** 2 - t0**2) / 2
    x = y[0] * math.exp(-k * q)
    if k != 0:
        yp = lambda t: c / k * t - c / (k * k)  # noqa: E731
        yy = yp(t0 + d) + (y[1] - yp(t0)) * math.exp(-k * d)
    else:
        yy = y[1] + c * q
    return [x, yy]


# ----- exact stand-in for scipy.integrate, used through the REAL mxlpy.integrators.int_scipy.Scipy -----

_CUR: dict[str, Any] = {"model": None}


class _Bunch:
    def __init__(self, **kw: Any) -> None:
        self.__dict__.update(kw)


def _cur_pars() -> dict[str, Fraction]:
    return {k: common.to_fraction(v) for k, v in _CUR["model"].get_parameter_values().items()}


def _model_time_offset(fun) -> Fraction:  # noqa: ANN001
    """model time minus integrator time, read off the right-hand side the integrator was GIVEN:
    x' = k*y + a*time, so fun(0, (0, 0))[0] = a * (model time at integrator time 0).  Exact on dyadic inputs;
    irrelevant (0) for an autonomous system (a = 0)."""
    a = _cur_pars()["a"]
    if a == 0:
        return F(0)
    return common.to_fraction(float(fun(0.0, [0.0, 0.0])[0])) / a


class _ExactOde:
    def __init__(self, f, jac=None) -> None:  # noqa: ANN001, ARG002
        self.t = F(0)
        self.y: list[Fraction] = []
        self.f = f

    def set_integrator(self, name=None, **kw):  # noqa: ANN001, ANN003, ARG002
        return self

    def set_initial_value(self, y, t=0.0):  # noqa: ANN001
        self.y = [common.to_fraction(v) for v in y]
        self.t = common.to_fraction(t)
        return self

    def successful(self) -> bool:
        return True  # the exact stand-in never fails

    def integrate(self, t):  # noqa: ANN001
        import numpy as np

        t = common.to_fraction(t)
        self.y = exact_flow(_cur_pars(), self.t + _model_time_offset(self.f), self.y, t - self.t)
        self.t = t
        return np.array([float(v) for v in self.y], dtype=float)


class ExactSpi:
    """what int_scipy.py uses of scipy.integrate, computed exactly for the exact-mode system"""

    ode = _ExactOde

    @staticmethod
    def solve_ivp(fun, y0, t_span, t_eval, jac=None, atol=None, rtol=None, method=None):  # noqa: ANN001
        import numpy as np

        t0, tf = float(t_span[0]), float(t_span[1])
        te = np.asarray(t_eval, dtype=float)
        # the argument checks of scipy.integrate.solve_ivp
        if np.any(te < min(t0, tf)) or np.any(te > max(t0, tf)):
            raise ValueError("Values in `t_eval` are not within `t_span`.")
        d = np.diff(te)
        if (tf > t0 and np.any(d <= 0)) or (tf < t0 and np.any(d >= 0)):
            raise ValueError("Values in `t_eval` are not properly sorted.")
        if tf == t0:  # empty span: no output rows
            return _Bunch(success=True, t=np.array([], dtype=float), y=np.empty((len(y0), 0)))
        p = _cur_pars()
        if p["boom"] != 0:
            return _Bunch(success=False, t=np.array([]), y=np.empty((len(y0), 0)))
        f0 = common.to_fraction(t0)
        m0 = f0 + _model_time_offset(fun)  # the time the model sees at the start of the stretch
        ys = [exact_flow(p, m0, [common.to_fraction(v) for v in y0], common.to_fraction(t) - f0) for t in te]
        for row in ys:
            for v in row:
                if float(v) != v or abs(v) >= 2**40:
                    raise OverflowError("inexact value in the exact stand-in")  # counted + discarded by the driver
        return _Bunch(success=True, t=te.copy(), y=np.array([[float(v) for v in row] for row in ys], dtype=float).T)


# ---------------------------------------------------------------------------------------
# (3) driving the real Simulator
# ---------------------------------------------------------------------------------------


class _Timeout(Exception):
    pass


def _alarm(signum, frame):  # noqa: ANN001, ARG001
    raise _Timeout


def fr(x: Any) -> Fraction:
    if isinstance(x, str):
        return F(x)
    return common.to_fraction(x)


def js(x: Fraction) -> str:
    return str(F(x))


def _protocol(steps):  # noqa: ANN001
    from mxlpy import make_protocol

    return make_protocol([(float(fr(d)), {k: float(fr(v)) for k, v in u.items()}) for d, u in steps])


def _grid(ctx: dict | None, gid, pts: list):  # noqa: ANN001
    """the time-point argument of a tc / ptc operation: a fresh list, or -- when the operation carries a grid id --
    ONE float64 ndarray per id, created at first use and handed to every operation with that id (a caller reusing
    the same array object for several calls).  ctx["grids"][gid] = (the array, its literal values)."""
    lit = [float(fr(t)) for t in pts]
    if gid is None or ctx is None:
        return lit
    import numpy as np

    if gid not in ctx["grids"]:
        ctx["grids"][gid] = (np.array(lit, dtype=float), list(lit))
    return ctx["grids"][gid][0]


def op_gid(op: list):  # noqa: ANN201
    """grid id of a tc / ptc operation (optional trailing element), else None"""
    if op[0] == "tc" and len(op) > 2:
        return op[2]
    if op[0] == "ptc" and len(op) > 4:
        return op[4]
    return None


def apply_op(sim, op: list, ctx: dict | None = None) -> None:  # noqa: ANN001
    kind = op[0]
    if kind == "sim":
        sim.simulate(float(fr(op[1])), steps=op[2])
    elif kind == "tc":
        sim.simulate_time_course(_grid(ctx, op_gid(op), op[1]))
    elif kind == "prot":
        sim.simulate_protocol(_protocol(op[1]), time_points_per_step=op[2])
    elif kind == "ptc":
        sim.simulate_protocol_time_course(_protocol(op[1]), _grid(ctx, op_gid(op), op[2]), time_points_as_relative=bool(op[3]))
    elif kind == "steady":
        sim.simulate_to_steady_state(tolerance=1e-6, rel_norm=False)
    elif kind == "updpar":
        u = {k: float(fr(v)) for k, v in op[1].items()}
        if len(u) == 1:
            ((k, v),) = u.items()
            sim.update_parameter(k, v)
        else:
            sim.update_parameters(u)
    elif kind == "updvar":
        u = {k: float(fr(v)) for k, v in op[1].items()}
        if len(u) == 1:
            ((k, v),) = u.items()
            sim.update_variable(k, v)
        else:
            sim.update_variables(u)
    elif kind == "clear":
        sim.clear_results()
    elif kind == "view":
        read_view(sim, op[1])
    else:
        raise AssertionError(kind)


# views of get_result() a user reads BETWEEN simulation calls.  "raw" (get_variables without derived quantities) returns
# raw_variables and never evaluates the model; all others do (touch = true in the Coq model).  "a+b" reads two views of
# ONE result object (the second one finds the arguments cached).
VIEW_KINDS = ["variables", "fluxes", "rhs", "producers", "consumers", "combined", "args", "raw",
              "variables+producers", "fluxes+consumers", "producers+consumers"]


def view_touches(kind: str) -> bool:
    return kind != "raw"


def read_view(sim, kind: str) -> None:  # noqa: ANN001
    from mxlpy.simulation import Simulation

    res = sim.get_result().value
    if not isinstance(res, Simulation):
        return  # Result(error): nothing to read
    for k in kind.split("+"):
        if k == "variables":
            out = res.variables
        elif k == "fluxes":
            out = res.fluxes
        elif k == "rhs":
            out = res.get_right_hand_side()
        elif k == "producers":
            out = res.get_producers("x", scaled=False)
        elif k == "consumers":
            out = res.get_consumers("y" if "y" in res.raw_variables[0].columns else "x", scaled=True)
        elif k == "combined":
            out = res.get_combined()
        elif k == "args":
            out = res.get_args()
        elif k == "raw":
            out = res.get_variables(include_derived_variables=False, include_readouts=False, include_surrogate_variables=False)
        else:
            raise AssertionError(k)
        n = sum(len(df) for df in res.raw_variables)
        if len(out) != n:
            raise RuntimeError(f"view {k} has {len(out)} rows, the result has {n}")


def _mutated_grids(ctx: dict) -> list:
    """caller-owned arrays whose content changed since the last look: [[gid, literal, now], ...]"""
    out = []
    for gid, (arr, lit) in ctx["grids"].items():
        now = [float(v) for v in arr.tolist()]
        seen = ctx["seen"].get(gid, lit)
        if now != seen:
            out.append([gid, [js(fr(v)) for v in lit], [js(fr(v)) if math.isfinite(v) else repr(v) for v in now]])
            ctx["seen"][gid] = now
    return out


def observe(sim, mode: str, out: str) -> dict:  # noqa: ANN001
    """state of the simulator as a user sees it (get_result + the public result attributes)"""
    from mxlpy.simulation import Simulation
    from mxlpy.types import IntegrationFailure, NoSteadyState

    res = sim.get_result().value
    if isinstance(res, Simulation):
        err = "none"
        segs = [
            [[js(fr(t))] + [js(fr(v)) if mode == "exact" else float(v) for v in row] for t, row in zip(df.index, df.to_numpy().tolist())]
            for df in res.raw_variables
        ]
        pars = [{k: js(fr(v)) for k, v in p.items()} for p in res.raw_parameters]
        cols = [list(df.columns) for df in res.raw_variables]
        if any(c != VARS for c in cols):
            out = out + "+columns"
    else:
        err = "integration" if isinstance(res, IntegrationFailure) else "nosteady" if isinstance(res, NoSteadyState) else "other:" + type(res).__name__
        # results recorded before the failure stay visible on the simulator object
        if sim.variables is None:
            segs = None
        else:
            segs = [
                [[js(fr(t))] + [js(fr(v)) if mode == "exact" else float(v) for v in row] for t, row in zip(df.index, df.to_numpy().tolist())]
                for df in sim.variables
            ]
        pars = None if sim.simulation_parameters is None else [{k: js(fr(v)) for k, v in p.items()} for p in sim.simulation_parameters]
    return {"out": out, "err": err, "segs": segs, "pars": pars, "model_pars": {k: js(fr(v)) for k, v in sim.model.get_parameter_values().items()}}


def run_history(mode: str, y0: list, p0: list, ops: list, *, want_fluxes: bool = False) -> dict:
    """-> {"obs": [observation after every op], "discard": reason|None, "fluxes": ...}"""
    import mxlpy.integrators.int_scipy as int_scipy
    from mxlpy import Simulator
    from mxlpy.integrators import Scipy

    y0f, p0f = [fr(v) for v in y0], [fr(v) for v in p0]
    model = build_model(mode, y0f, p0f)
    _CUR["model"] = model
    real_spi = int_scipy.spi
    if mode == "exact":
        int_scipy.spi = ExactSpi
    obs: list[dict] = []
    discard = None
    fluxes = None
    ctx: dict = {"grids": {}, "seen": {}}
    signal.signal(signal.SIGALRM, _alarm)
    try:
        sim = Simulator(model, integrator=Scipy)
        for op in ops:
            signal.setitimer(signal.ITIMER_REAL, 20.0)
            try:
                apply_op(sim, op, ctx)
                out = "done"
            except ValueError:
                out = "ValueError"
            except IndexError:
                out = "IndexError"
            except OverflowError:
                discard = "inexact"
                break
            except _Timeout:
                out = "Timeout"
            except Exception as e:  # noqa: BLE001
                out = "Err:" + type(e).__name__
            finally:
                signal.setitimer(signal.ITIMER_REAL, 0)
            obs.append(observe(sim, mode, out))
            obs[-1]["mutated"] = _mutated_grids(ctx)
        if want_fluxes and discard is None and obs and obs[-1]["err"] == "none":
            fl = sim.get_result().unwrap_or_err().get_fluxes(concatenated=False)
            fluxes = [[[js(fr(t))] + [float(v) for v in row] for t, row in zip(df.index, df.to_numpy().tolist())] for df in fl]
            fluxes = {"columns": [list(df.columns) for df in fl], "rows": fluxes}
    finally:
        int_scipy.spi = real_spi
        _CUR["model"] = None
    return {"obs": obs, "discard": discard, "fluxes": fluxes}


# ---------------------------------------------------------------------------------------
# (4) independent oracle: the property itself, in absolute time
# ---------------------------------------------------------------------------------------

TOL_A, TOL_R = 2e-6, 2e-4  # scipy mode only; the solver runs with atol = rtol = 1e-8


def ss_step_size() -> int:
    """the step of the steady-state search as the code under test declares it (Simulator.simulate_to_steady_state does
    not pass one): the default of Scipy.integrate_to_steady_state(step_size=...)"""
    import inspect

    from mxlpy.integrators import Scipy

    try:
        d = inspect.signature(Scipy.integrate_to_steady_state).parameters["step_size"].default
        return int(d) if isinstance(d, int) and d > 0 else 100
    except (KeyError, TypeError, ValueError):
        return 100


def _close(mode: str, got: Any, exp: Any) -> bool:
    if mode == "exact":
        return fr(got) == exp
    return abs(float(got) - float(exp)) <= TOL_A + TOL_R * abs(float(exp))


def _flow(mode: str, pars: dict, t0: Fraction, y: list, d: Fraction) -> list:
    if mode == "exact":
        return exact_flow(pars, t0, y, d)
    if mode == "tdep":
        return tdep_flow(pars, float(t0), [float(v) for v in y], float(d))
    return chain_flow(pars, [float(v) for v in y], float(d))


def _linspace_new(a: Fraction, b: Fraction, steps: int | None) -> list[Fraction] | None:
    if steps is None:
        return None  # 99 inexact interior points: judged structurally
    return [a + (b - a) * i / steps for i in range(1, steps + 1)]


def _incr(ts: list[Fraction]) -> bool:
    return all(x < y for x, y in zip(ts, ts[1:]))


class Spec:
    """abstract simulator: reached time, current state, parameters in force, pending override"""

    def __init__(self, mode: str, y0: list, p0: list) -> None:
        self.mode = mode
        self.pars = dict(zip(PARS[mode], [fr(v) for v in p0]))
        self.y_init = [fr(v) for v in y0]
        self.cur: list = list(self.y_init)  # state at `reached`
        self.reached = F(0)
        self.nseg = 0  # number of segments expected so far; 0 = no results
        self.failed = False
        self.pending: dict[str, Fraction] = {}  # overrides applied since the last accepted integration
        self.tags: set[str] = set()  # what happened so far (informative)
        # --- guard of the known finding steady-state-resets-integrator (Scipy.integrate_to_steady_state resets the
        # integrator to the point it was created at and does not advance it).  What IS well defined around a
        # steady-state run is judged like everything else; only this is attributed to the finding:
        #   (a) the steady-state run itself when the integrator is NOT at the point it was created at, i.e. when
        #       something was integrated (`advanced`) or another steady-state run happened (`stale`) since the
        #       integrator was last (re)initialised (new simulator / update_variable(s) / clear_results);
        #   (b) the CONTENT (new rows, whole axis) of the first accepted simulating call after a steady-state run,
        #       unless update_variable(s) / clear_results re-initialised the integrator in between (an override is
        #       applied to the last reported row and the next segment starts from it: judged);
        #   (c) monotonicity of the axis ACROSS rows produced under (a)/(b) (`axis_from`: later rows are still
        #       required to increase among themselves and to lie after the last reported row).
        self.advanced = False
        self.stale = False
        self.guard = False  # the judgement being made right now falls under (a)/(b)
        self.guard_ns = False  # ... under the C14 finding protocol-start-rounded-to-ns (see classify)
        self.axis_from = 0  # rows before this position of the accumulated axis are covered by (c)
        # --- guard of the finding view-read-reverts-parameter-update (the views of get_result() leave the model they share
        # with the Simulator at the LAST segment's parameters): attributed to it is a view read while the parameters in
        # force differ from those recorded for the last segment, and what is run with the reverted values afterwards
        # (until the next simulating call has been judged).  A read while they are the same must change nothing: judged.
        self.view_dirty = False  # a read changed the live model's parameters and nothing has been simulated since
        self.guard_view = False
        self.since = "the simulator was created"  # ... or "clear_results": from when on no run has failed (messages only)


def oracle_history(mode: str, y0: list, p0: list, ops: list, obs: list[dict]) -> list[dict]:
    """Judge the property on the observations.  -> list of {"op": i, "what": str, "tags": [...]}"""
    sp = Spec(mode, y0, p0)
    bad: list[dict] = []
    prev_segs: list | None = None
    prev_pars: list | None = None

    def flag(i: int, what: str) -> None:
        bad.append({"op": i, "what": what, "tags": sorted(sp.tags | ({"steady-guard"} if sp.guard else set())
                                                         | ({"ptc-start-not-ns"} if sp.guard_ns else set())
                                                         | ({"view-guard"} if sp.guard_view else set()))})

    def n_rows_of(segs: list | None) -> int:
        return sum(len(x) for x in segs) if segs else 0

    def idx_of(seg: list) -> list[Fraction]:
        return [fr(r[0]) for r in seg]

    def resync(o: dict) -> None:
        """continue judging from what the implementation reports (errors do not accumulate)"""
        nonlocal prev_segs, prev_pars
        prev_n = sum(len(s) for s in prev_segs) if prev_segs else 0
        prev_segs, prev_pars = o["segs"], o["pars"]
        if o["segs"]:
            sp.nseg = len(o["segs"])
            nonempty = [s for s in o["segs"] if s]
            if nonempty:
                last = nonempty[-1][-1]
                sp.reached = fr(last[0])
                sp.cur = [fr(v) if mode == "exact" else float(v) for v in last[1:]]
                if prev_n != sum(len(s) for s in o["segs"]):
                    sp.pending = {}  # rows were appended: the override has been consumed
                sp.cur = [(sp.pending[v] if mode == "exact" else float(sp.pending[v])) if v in sp.pending else sp.cur[j]
                          for j, v in enumerate(VARS)]
        else:
            sp.nseg = 0

    def expect_unchanged(i: int, o: dict, why: str) -> None:
        if o["segs"] != prev_segs or o["pars"] != prev_pars:
            flag(i, f"{why}: the accumulated result changed although nothing was simulated")

    def check_new_segment(i: int, o: dict, k: int, exp_idx: list[Fraction] | None, t_from: Fraction, y_from: list,
                          pars: dict, *, first: bool, n_rows: int | None = None, end: Fraction | None = None) -> None:
        """segment k of o must have index exp_idx (plus t_from as first row when it is the very first segment)
        and values = solution from (t_from, y_from) under pars"""
        segs = o["segs"]
        if segs is None or len(segs) <= k:
            flag(i, f"expected segment #{k} is missing")
            return
        seg = segs[k]
        got_idx = idx_of(seg)
        if exp_idx is not None:
            want = ([t_from] if first and (not exp_idx or exp_idx[0] != t_from) else []) + exp_idx
            if got_idx != want:
                flag(i, f"segment #{k}: time axis {[str(t) for t in got_idx]} but requested points later than "
                        f"{t_from} are {[str(t) for t in want]}")
                return
        else:
            ok = _incr(got_idx) and got_idx and got_idx[-1] == end and len(got_idx) == n_rows and (
                got_idx[0] == t_from if first else got_idx[0] > t_from)
            if not ok:
                flag(i, f"segment #{k}: default-grid time axis is not {n_rows} increasing points in ({t_from}, {end}]")
                return
        for row in seg:
            t = fr(row[0])
            exp = _flow(mode, pars, t_from, y_from, t - t_from)
            if not all(_close(mode, g, e) for g, e in zip(row[1:], exp)):
                flag(i, f"segment #{k}: state at t={t} is {row[1:]} but the solution from t={t_from}, state "
                        f"{[str(v) for v in y_from]} under {{{', '.join(f'{a}={b}' for a, b in pars.items())}}} is {[float(e) for e in exp]}")
                return
        if o["pars"] is None or len(o["pars"]) <= k or {a: fr(b) for a, b in o["pars"][k].items()} != pars:
            flag(i, f"segment #{k}: raw_parameters {None if o['pars'] is None or len(o['pars']) <= k else o['pars'][k]} "
                    f"are not the values in force {({a: str(b) for a, b in pars.items()})}")

    def whole_axis_ok(i: int, o: dict) -> None:
        if o["segs"]:
            axis = [t for s in o["segs"] for t in idx_of(s)][sp.axis_from:]
            if not _incr(axis):
                flag(i, f"the accumulated time axis is not strictly increasing: {[str(t) for t in axis]}")

    def old_part_ok(i: int, o: dict) -> bool:
        n = 0 if prev_segs is None else len(prev_segs)
        if n and (o["segs"] is None or o["segs"][:n] != prev_segs or (o["pars"] or [])[:n] != (prev_pars or [])[:n]):
            flag(i, "earlier segments were modified")
            return False
        return True

    def continuation(i: int, o: dict, pieces: list[tuple[list[Fraction] | None, dict, dict]]) -> None:
        if not old_part_ok(i, o):
            return
        sp.guard = sp.stale  # (b): the integrator does not hold the last reported row
        try:
            _continuation(i, o, pieces)
        finally:
            sp.guard = False

    def _continuation(i: int, o: dict, pieces: list[tuple[list[Fraction] | None, dict, dict]]) -> None:
        """pieces: (expected new index | None, parameters in force, extra) for each expected new segment"""
        n_old = 0 if prev_segs is None else len(prev_segs)
        got_new = 0 if o["segs"] is None else len(o["segs"]) - n_old
        if got_new != len(pieces):
            stale = ""
            if got_new == 0 and o["out"] == "done" and o["err"] != "none":
                # the call returned without simulating although no run has failed since the last clear_results / the start
                stale = (f": the call returned without simulating and get_result() reports a failed run ({o['err']}) although "
                         f"no run has failed since {sp.since}")
            flag(i, f"{len(pieces)} new segment(s) expected, {got_new} appended" + stale)
            return
        t_from, y_from = sp.reached, list(sp.cur)
        for j, (exp_idx, pars, extra) in enumerate(pieces):
            before = len(bad)
            check_new_segment(i, o, n_old + j, exp_idx, t_from, y_from, pars, first=(n_old + j == 0), **extra)
            if len(bad) > before:
                return
            seg = o["segs"][n_old + j]
            if seg:
                t_from = fr(seg[-1][0])
                y_from = [fr(v) if mode == "exact" else float(v) for v in seg[-1][1:]]
        whole_axis_ok(i, o)

    def judge_known_op(i: int, op: list, o: dict) -> None:
        nonlocal prev_segs, prev_pars
        kind = op[0]
        # ---- bookkeeping operations
        if kind == "updpar":
            sp.pars.update({k: fr(v) for k, v in op[1].items()})
            if o["out"] != "done":
                flag(i, "update_parameter(s) raised " + o["out"])
            expect_unchanged(i, o, "update_parameter(s)")
            if {k: fr(v) for k, v in o["model_pars"].items()} != sp.pars:
                flag(i, f"model parameters {o['model_pars']} after the update, expected {({k: str(v) for k, v in sp.pars.items()})}")
            resync(o)
            return
        if kind == "updvar":
            if o["out"] != "done":
                flag(i, "update_variable(s) raised " + o["out"])
            expect_unchanged(i, o, "update_variable(s)")
            if sp.nseg == 0:
                sp.y_init = [fr(op[1][v]) if v in op[1] else sp.y_init[j] for j, v in enumerate(VARS)]
                sp.cur = list(sp.y_init)
            else:
                sp.pending.update({k: fr(v) for k, v in op[1].items()})
                sp.tags.add("override-after-simulation")
                resync(o)
                # the simulator's start state (what clear_results restarts from) is now the overridden state
                sp.y_init = [fr(v) if mode == "exact" else v for v in sp.cur]
            return
        if kind == "clear":
            if o["out"] != "done" or o["segs"] is not None or o["pars"] is not None:
                flag(i, "clear_results left results behind")
            elif o["err"] == "nosteady":
                # a cleared simulator is a new one: nothing simulated yet, and no failure on record (a new Simulator's
                # get_result() reports that there is no result; it cannot know of a steady-state search)
                flag(i, "after clear_results get_result() still reports the failure of a run that was cleared (NoSteadyState): "
                        "clear_results did not forget the failed run, every later simulating call returns without simulating")
            sp.since = "clear_results"
            # restart from the simulator's start state: the initial conditions with every override made so far
            sp.reached, sp.nseg, sp.failed, sp.pending, sp.tags = F(0), 0, False, {}, set()
            prev_segs, prev_pars = None, None
            sp.cur = list(sp.y_init)
            return
        if kind == "view":
            # reading the results collected so far is not an operation of the simulator at all: nothing it holds, and
            # nothing the next segment runs with (the parameter values of the live model), may change
            if o["out"] != "done":
                flag(i, f"reading get_result() [{op[1]}] ended with {o['out']}")
            expect_unchanged(i, o, "reading a view of get_result()")
            got = {k: fr(v) for k, v in o["model_pars"].items()}
            if got != sp.pars:
                last = {k: fr(v) for k, v in prev_pars[-1].items()} if prev_pars else None
                if last is not None and last != sp.pars:
                    sp.guard_view = True  # parameters were updated since the last recorded segment
                diff = {k: (str(sp.pars.get(k)), str(got.get(k))) for k in sorted(set(sp.pars) | set(got)) if sp.pars.get(k) != got.get(k)}
                flag(i, f"reading get_result() [{op[1]}] changed the parameter values of the live model the Simulator continues "
                        f"with: {', '.join(f'{k}: {a} -> {b}' for k, (a, b) in diff.items())} -- the next segment does not run "
                        f"under the parameter values in force")
                sp.view_dirty = True
            return
        # ---- simulating operations
        if sp.failed:
            if o["out"] != "done":
                flag(i, f"{kind} after a failed integration raised {o['out']}")
            expect_unchanged(i, o, f"{kind} after a failed integration")
            if kind in ("prot", "ptc"):
                pass  # parameters are not touched either: checked through model_pars below
            if {k: fr(v) for k, v in o["model_pars"].items()} != sp.pars:
                flag(i, "model parameters changed by an operation that was skipped")
            return
        if sp.pars.get("a", 0) != 0:
            sp.tags.add("nonautonomous")
        if sp.pars.get("boom", 0) != 0 and kind != "steady":
            # the solver reports failure: a legal continuation returns, records the failure and adds nothing
            if kind in ("prot", "ptc"):
                if o["err"] != "none":
                    sp.failed = True
                sp.pars = {k: fr(v) for k, v in o["model_pars"].items()}  # rows applied before the failure
                if o["segs"] != prev_segs:
                    flag(i, "failed protocol step added rows")
                return
            refused = (kind == "sim" and fr(op[1]) <= sp.reached) or (kind == "tc" and fr(op[1][-1]) <= sp.reached)
            if refused:
                if o["out"] != "ValueError":
                    flag(i, f"{kind} to an end not later than {sp.reached} was not refused")
                expect_unchanged(i, o, "refused continuation")
                return
            expect_unchanged(i, o, "failed integration")
            if (kind == "tc" and not _tc_legal(op[1], sp.reached)) or (kind == "sim" and op[2] == 0):
                return  # malformed request: raising is fine too
            if o["out"] != "done" or o["err"] == "none":
                flag(i, f"{kind}: the solver failed but the call gave {o['out']} / error {o['err']}")
            if o["err"] != "none":
                sp.failed = True
            return
        if kind == "sim":
            t_end, steps = fr(op[1]), op[2]
            if t_end <= sp.reached:
                if o["out"] != "ValueError":
                    flag(i, f"simulate({t_end}) is not later than the time already reached ({sp.reached}) but was not refused")
                expect_unchanged(i, o, "refused continuation")
            elif steps == 0:
                # an empty grid: outside the property (steps >= 1); must not corrupt the state
                if o["out"] == "done":
                    whole_axis_ok(i, o)
                else:
                    expect_unchanged(i, o, "simulate(steps=0)")
                resync(o)
            elif o["out"] != "done":
                flag(i, f"simulate({t_end}) is later than the time already reached ({sp.reached}) but was refused ({o['out']})")
                expect_unchanged(i, o, "refused continuation")
            else:
                extra = {} if steps is not None else {"n_rows": 99 + (1 if sp.nseg == 0 else 0), "end": t_end}
                continuation(i, o, [(_linspace_new(sp.reached, t_end, steps), dict(sp.pars), extra)])
                resync(o)
            return
        if kind == "tc":
            pts = [fr(t) for t in op[1]]
            if pts[-1] <= sp.reached:
                if o["out"] != "ValueError":
                    flag(i, f"time course ending at {pts[-1]} is not later than the time already reached ({sp.reached}) but was not refused")
                expect_unchanged(i, o, "refused continuation")
            elif _tc_legal(op[1], sp.reached):
                if o["out"] != "done":
                    flag(i, f"time course {[str(t) for t in pts]} ends later than the time already reached ({sp.reached}) but was refused ({o['out']})")
                    expect_unchanged(i, o, "refused continuation")
                else:
                    continuation(i, o, [([t for t in pts if t > sp.reached], dict(sp.pars), {})])
                    resync(o)
            else:
                # an illegal (unsorted / repeating) array: it may be refused; if accepted the axis must still be right
                if o["out"] == "done":
                    whole_axis_ok(i, o)
                    new = sorted({t for t in pts if t > sp.reached})
                    axis = [t for s in (o["segs"] or []) for t in idx_of(s)]
                    if any(axis.count(t) != 1 for t in new):
                        flag(i, "accepted malformed time array but not every requested later point occurs exactly once")
                else:
                    expect_unchanged(i, o, "refused malformed time array")
                resync(o)
            return
        if kind == "steady":
            if o["out"] != "done":
                flag(i, "simulate_to_steady_state raised " + o["out"])
                resync(o)
                return
            if o["err"] == "nosteady":
                sp.failed = True
                expect_unchanged(i, o, "steady-state search without success")
                return
            if not old_part_ok(i, o):
                resync(o)
                return
            n_old = 0 if prev_segs is None else len(prev_segs)
            if o["segs"] is None or len(o["segs"]) != n_old + 1 or len(o["segs"][-1]) != 1:
                flag(i, "steady-state run did not append exactly one row")
                resync(o)
                return
            row = o["segs"][-1][0]
            t = fr(row[0])
            sp.guard = sp.advanced or sp.stale  # (a): the reset throws the integrator back to where it was created
            step = F(ss_step_size())
            if t <= sp.reached:
                flag(i, f"steady-state row is stamped t={t}, not later than the time already reached ({sp.reached})")
            elif not sp.guard and (t - sp.reached) % step != 0:
                # the search starts at the time already reached and proceeds in whole steps: in ABSOLUTE time the row
                # belongs at reached + n*step, n >= 1 (C04_steady_stamp_exact).  Only where the run is well defined: on an
                # advanced / stale integrator (guard (a) of the finding) the stamp means nothing and is not looked at
                flag(i, f"steady-state row is stamped t={t}: the search started at the time already reached ({sp.reached}) and "
                        f"proceeds in whole steps of {step}, so in absolute time the row belongs at {sp.reached} + n*{step}")
            else:
                exp = _flow(mode, sp.pars, sp.reached, sp.cur, t - sp.reached)
                if not all(_close(mode, g, e) for g, e in zip(row[1:], exp)):
                    flag(i, f"steady-state row {row[1:]} at t={t} is not the solution continued from t={sp.reached}, state {[str(v) for v in sp.cur]}")
            whole_axis_ok(i, o)
            resync(o)
            return
        if kind in ("prot", "ptc"):
            durations = [fr(d) for d, _ in op[1]]
            ends = []
            acc = sp.reached
            for d in durations:
                acc += d
                ends.append(acc)
            par_seq = []
            p = dict(sp.pars)
            for _, u in op[1]:
                p = p | {k: fr(v) for k, v in u.items()}
                par_seq.append(dict(p))
            if kind == "prot":
                n = op[2]
                pieces = []
                a = sp.reached
                for e, p in zip(ends, par_seq):
                    pieces.append((_linspace_new(a, e, n), p, {}))
                    a = e
                # NB the code requests linspace(integrator time, t_start + end_i): the grid of step i starts at
                # the previous boundary
                if o["out"] != "done":
                    flag(i, f"protocol with positive durations was refused ({o['out']})")
                    sp.pars = {k: fr(v) for k, v in o["model_pars"].items()}
                    resync(o)
                    return
                continuation(i, o, pieces)
            else:
                pts = [fr(t) for t in op[2]]
                if op[3]:
                    pts = [t + sp.reached for t in pts]
                if pts[-1] <= sp.reached:
                    if o["out"] != "ValueError":
                        flag(i, f"protocol time course ending at {pts[-1]} <= reached {sp.reached} was not refused")
                    expect_unchanged(i, o, "refused continuation")
                    if {k: fr(v) for k, v in o["model_pars"].items()} != sp.pars:
                        flag(i, "refused protocol time course changed the model parameters")
                    return
                if not _incr(pts):
                    sp.pars = {k: fr(v) for k, v in o["model_pars"].items()}
                    if o["out"] == "done":
                        whole_axis_ok(i, o)
                    resync(o)
                    return
                if o["out"] != "done":
                    flag(i, f"protocol time course reaching beyond {sp.reached} was refused ({o['out']})")
                    sp.pars = {k: fr(v) for k, v in o["model_pars"].items()}
                    resync(o)
                    return
                allpts = sorted(set(pts) | set(ends))
                pieces = []
                a = sp.reached
                for e, p in zip(ends, par_seq):
                    pieces.append(([t for t in allpts if a < t <= e], p, {}))
                    a = e
                continuation(i, o, pieces)
            sp.pars = par_seq[-1]
            if {k: fr(v) for k, v in o["model_pars"].items()} != sp.pars:
                flag(i, "model parameters after the protocol are not the last step's values")
            resync(o)
            return
        raise AssertionError(kind)

    simulating = ("sim", "tc", "prot", "ptc")

    def judge_op(i: int, op: list, o: dict) -> None:
        nonlocal prev_segs, prev_pars
        kind = op[0]
        for gid, lit, now in o.get("mutated") or []:
            flag(i, f"the caller's own time-point array (ndarray #{gid}, passed to this {kind} call) was modified in place: "
                    f"{lit} became {now} -- the inputs of a call are values; the next call reusing the array asks for other points")
        if o["out"] not in ("done", "ValueError", "IndexError"):
            flag(i, f"operation {kind} ended with {o['out']}")
            resync(o)
            return
        judge_known_op(i, op, o)

    for i, (op, o) in enumerate(zip(ops, obs)):
        kind = op[0]
        n_before = n_rows_of(prev_segs)
        covered = (kind == "steady" and (sp.advanced or sp.stale)) or (kind in simulating and sp.stale)
        sp.guard = False
        # simulate_protocol_time_course passes the time reached through pd.Timedelta (nanosecond resolution)
        sp.guard_ns = kind == "ptc" and (sp.reached * 10**9).denominator != 1
        judge_op(i, op, o)
        sp.guard = sp.guard_ns = False
        n_after = n_rows_of(o["segs"])
        if kind in simulating and n_after != n_before:
            sp.advanced, sp.stale = True, False  # the integrator advanced to the last row it reported
        if kind == "steady" and o["out"] == "done" and (n_after != n_before or o["err"] == "nosteady"):
            sp.stale = True  # reset, not advanced
            sp.tags.add("steady")
        if kind in ("updvar", "clear") and o["out"] == "done":
            sp.advanced = sp.stale = False  # re-initialised at the last reported row / at the start
        if covered and n_after != n_before:
            sp.axis_from = max(sp.axis_from, n_after - 1)
        if kind == "clear":
            sp.axis_from = 0
        if sp.view_dirty and kind != "view":
            got = {k: fr(v) for k, v in o["model_pars"].items()}
            if kind in simulating or kind == "steady" or got == sp.pars:
                # what ran with the reverted values has been judged (once): go on from what the model holds now
                sp.pars, sp.view_dirty, sp.guard_view = got, False, False
    return bad


def _tc_legal(pts_raw: list, reached: Fraction) -> bool:
    """the points not earlier than `reached` are strictly increasing (earlier ones are dropped anyway)"""
    pts = [fr(t) for t in pts_raw]
    kept = [t for t in pts if t >= reached]
    return _incr(kept)


def classify(v: dict, mode: str) -> str | None:
    """known finding a violation belongs to (by guard), or None"""
    tags = set(v["tags"])
    if "steady-guard" in tags:
        return "steady-state-resets-integrator"
    if "ptc-start-not-ns" in tags:
        return "protocol-start-rounded-to-ns"  # C14
    if "view-guard" in tags:
        return "view-read-reverts-parameter-update"
    return None


# ---------------------------------------------------------------------------------------
# (5) history generators
# ---------------------------------------------------------------------------------------

GRID = 8


def _g(n: int) -> Fraction:
    return F(n, GRID)


def gen_steps(rng, mode: str) -> list:  # noqa: ANN001, ARG001
    """(duration, values) steps; every step names the same parameters (make_protocol builds a frame)"""
    n = rng.choice([1, 1, 2, 2, 3, 4, 5])
    with_c = rng.random() < 0.35
    steps = []
    for _ in range(n):
        d = _g(rng.randint(1, 16))
        u = {"k": js(rng.choice([F(0), F(1, 2), F(1), F(2), F(1, 4)]))}
        if with_c:
            u["c"] = js(rng.choice([F(0), F(1, 2), F(1)]))
        steps.append([js(d), u])
    return steps


def gen_history(rng, mode: str, max_len: int = 6, *, weights: dict | None = None, special: bool = True) -> dict:  # noqa: ANN001
    y0 = [rng.choice([F(1), F(2), F(1, 2), F(3)]), rng.choice([F(0), F(1), F(1, 2), F(2)])]
    p0 = [rng.choice([F(1), F(1, 2), F(2), F(1, 4)]), rng.choice([F(0), F(0), F(1, 2), F(1)])]
    if mode == "exact":
        # a != 0: the first rate reads `time`, so the model time handed to the right-hand side is observable
        p0 += [rng.choice([F(0), F(0), F(0), F(1), F(1, 2)]), F(0)]
    # "view" (weight 0 unless asked for: C14 keeps its stream) must stay the LAST entry
    w = {"sim": 30, "tc": 20, "prot": 7, "ptc": 8, "steady": 3, "updpar": 10, "updvar": 14, "clear": 4, "view": 0}
    if weights:
        w.update(weights)
    if mode == "tdep":
        w["steady"] = 0  # y' = c*time - k*y has no steady state: 1000 solver steps to t = 1e5 for nothing
    kinds, wts = list(w), list(w.values())
    reached = F(0)
    have = False
    ops: list = []
    grids: list = []  # [kind, points as written, relative?, id]: caller-owned ndarrays that later calls may reuse
    for _ in range(rng.randint(1, max_len)):
        kind = rng.choices(kinds, wts)[0]
        if kind in ("tc", "ptc") and grids and rng.random() < 0.12:
            # the caller passes an array object again that an earlier call was given
            cand = [g for g in grids if g[0] == kind]
            if cand:
                g = rng.choice(cand)
                if kind == "tc":
                    ops.append(["tc", list(g[1]), g[3]])
                    pts = [fr(t) for t in g[1]]
                    if pts[-1] > reached and _incr([t for t in pts if t >= reached]):
                        reached, have = pts[-1], True
                else:
                    steps = gen_steps(rng, mode)
                    total = sum(fr(d) for d, _ in steps)
                    ops.append(["ptc", steps, list(g[1]), g[2], g[3]])
                    absolute = [fr(t) + reached for t in g[1]] if g[2] else [fr(t) for t in g[1]]
                    if absolute[-1] > reached and _incr(absolute):
                        reached += total
                        have = True
                continue
        if kind == "sim":
            r = rng.random()
            if r < 0.8:
                t = reached + _g(rng.randint(1, 24))
            elif r < 0.9:
                t = reached
            else:
                t = max(F(0), reached - _g(rng.randint(1, 16)))
            steps = rng.choice([1, 1, 2, 2, 4, 8, 8, 3]) if rng.random() < 0.97 else 0
            if steps == 3:
                steps = 4
            ops.append(["sim", js(t), steps])
            if t > reached and steps:
                reached, have = t, True
        elif kind == "tc":
            n = rng.randint(1, 5)
            r = rng.random()
            if r < 0.5:
                pts = sorted(rng.sample([reached + _g(j) for j in range(1, 33)], n))
            elif r < 0.75:
                pts = sorted(rng.sample([reached + _g(j) for j in range(-16, 25)], n))
            elif r < 0.85:
                pts = sorted({reached, *rng.sample([reached + _g(j) for j in range(-8, 25)], n)})
            elif r < 0.93:
                pts = rng.sample([reached + _g(j) for j in range(-4, 25)], n)
            else:
                pts = sorted(rng.sample([reached + _g(j) for j in range(0, 17)], n))
                pts.insert(rng.randrange(len(pts)), rng.choice(pts))
            if r < 0.75 and rng.random() < 0.1:
                # a first point only just later than the time reached (dyadic, exact in binary64, and a whole number of
                # nanoseconds: simulate_protocol_time_course passes the time reached through pd.Timedelta)
                pts = sorted({reached + F(1, 2 ** rng.choice([7, 8, 9])), *pts})
            if rng.random() < 0.15:
                gid = len(grids)
                grids.append(["tc", [js(t) for t in pts], False, gid])
                ops.append(["tc", [js(t) for t in pts], gid])
            else:
                ops.append(["tc", [js(t) for t in pts]])
            kept = [t for t in pts if t >= reached]
            if pts[-1] > reached and _incr(kept):
                reached, have = pts[-1], True
        elif kind == "prot":
            steps = gen_steps(rng, mode)
            ops.append(["prot", steps, rng.choice([1, 2, 2, 4, 8])])
            reached += sum(fr(d) for d, _ in steps)
            have = True
        elif kind == "ptc":
            steps = gen_steps(rng, mode)
            total = sum(fr(d) for d, _ in steps)
            rel = rng.random() < 0.5
            n = rng.randint(1, 6)
            r = rng.random()
            hi = int(total * GRID) + (8 if r < 0.4 else 0)
            lo = 1 if r < 0.85 else -8
            cand = list(range(lo, hi + 1))
            pts = sorted(rng.sample(cand, min(n, len(cand))))
            if rng.random() < 0.3:
                # make some coincide with the boundaries
                acc = F(0)
                for d, _ in steps:
                    acc += fr(d)
                    if rng.random() < 0.5:
                        pts = sorted(set(pts) | {int(acc * GRID)})
            if rng.random() < 0.04:
                rng.shuffle(pts)
            base = F(0) if rel else (reached if rng.random() < 0.85 else F(0))
            ptsq = [base + _g(j) for j in pts]
            if rng.random() < 0.2:
                gid = len(grids)
                grids.append(["ptc", [js(t) for t in ptsq], rel, gid])
                ops.append(["ptc", steps, [js(t) for t in ptsq], rel, gid])
            else:
                ops.append(["ptc", steps, [js(t) for t in ptsq], rel])
            absolute = [t + reached for t in ptsq] if rel else ptsq
            if absolute[-1] > reached and _incr(absolute):
                reached += total
                have = True
        elif kind == "steady":
            ops.append(["steady"])
            have = True
        elif kind == "updpar":
            r = rng.random()
            if not special:
                r = 0.1 + 0.9 * r
            if mode == "exact" and r < 0.04:
                u = {"boom": js(rng.choice([F(1), F(0)]))}
            elif mode == "exact" and r < 0.10:
                u = {"a": js(rng.choice([F(1), F(1, 2), F(0)]))}
            elif r < 0.75:
                u = {"k": js(rng.choice([F(0), F(1, 2), F(1), F(2), F(1, 4)]))}
            elif r < 0.9:
                u = {"c": js(rng.choice([F(0), F(1, 2), F(1)]))}
            else:
                u = {"k": js(rng.choice([F(1, 2), F(1), F(2)])), "c": js(rng.choice([F(0), F(1, 2)]))}
            ops.append(["updpar", u])
        elif kind == "updvar":
            r = rng.random()
            if r < 0.5:
                u = {"x": js(rng.choice([F(0), F(1, 2), F(1), F(2), F(3)]))}
            elif r < 0.8:
                u = {"y": js(rng.choice([F(0), F(1, 2), F(1), F(2)]))}
            else:
                u = {"x": js(rng.choice([F(1), F(2)])), "y": js(rng.choice([F(0), F(1)]))}
            ops.append(["updvar", u])
        elif kind == "view":
            ops.append(["view", rng.choice(VIEW_KINDS)])
        else:
            ops.append(["clear"])
            reached, have = F(0), False
    del have
    return {"mode": mode, "y0": [js(v) for v in y0], "p0": [js(v) for v in p0], "ops": ops}


def _base(rng, mode: str, *, a=None) -> tuple[list, list]:  # noqa: ANN001
    y0 = [rng.choice([F(1), F(2), F(1, 2), F(3)]), rng.choice([F(0), F(1), F(1, 2), F(2)])]
    p0 = [rng.choice([F(1), F(1, 2), F(2), F(1, 4)]), rng.choice([F(0), F(0), F(1, 2), F(1)])]
    if mode == "exact":
        p0 += [rng.choice([F(0), F(0), F(1), F(1, 2)]) if a is None else a, F(0)]
    return y0, p0


def _cont_ops(rng, mode: str, reached: Fraction | None, n: int) -> tuple[list, Fraction | None]:  # noqa: ANN001
    """n legal continuations; `reached` None = the time reached is not known statically (after a steady-state run on
    the real solver): only calls that are relative to the time reached by construction, and time courses offering
    points shortly after every multiple of 100"""
    ops: list = []
    for _ in range(n):
        r = rng.random()
        if reached is None:
            if r < 0.4:
                ops.append(["prot", gen_steps(rng, mode), rng.choice([1, 2, 4])])
            elif r < 0.75:
                steps = gen_steps(rng, mode)
                total = sum(fr(d) for d, _ in steps)
                pts = sorted(rng.sample(range(1, int(total * GRID) + 1), min(rng.randint(1, 4), int(total * GRID))))
                ops.append(["ptc", steps, [js(_g(j)) for j in pts], True])
            else:
                offs = sorted(rng.sample(range(1, 25), 3))
                ops.append(["tc", [js(F(100 * m) + _g(j)) for m in range(1, 9) for j in offs]])
                return ops, None  # the time reached is past every candidate now
        else:
            if r < 0.45:
                reached += _g(rng.randint(1, 24))
                ops.append(["sim", js(reached), rng.choice([1, 2, 4, 8])])
            elif r < 0.8:
                pts = sorted(rng.sample([reached + _g(j) for j in range(1, 33)], rng.randint(1, 4)))
                ops.append(["tc", [js(t) for t in pts]])
                reached = pts[-1]
            else:
                steps = gen_steps(rng, mode)
                ops.append(["prot", steps, rng.choice([1, 2, 4])])
                reached += sum(fr(d) for d, _ in steps)
    return ops, reached


def _one_var(rng) -> dict:  # noqa: ANN001
    """an override of ONE of the two variables (the other one exposes the state the restart was made from)"""
    if rng.random() < 0.5:
        return {"x": js(rng.choice([F(0), F(1, 2), F(1), F(2), F(3)]))}
    return {"y": js(rng.choice([F(0), F(1, 2), F(1), F(2)]))}


def gen_steady_override(rng, mode: str) -> dict:  # noqa: ANN001
    """[prefix] ; steady-state run ; update_variable(one variable) ; continuation(s): the override is applied to the row
    the steady-state run reported and the next segment starts from it (well defined although the steady-state run
    leaves the integrator reset).  exact mode: x' = k*y + a*time with y = -50*a*(2n-1)/k and c = 0 makes the iterates at
    t = 100(n-1) and 100n coincide, so the exact stand-in reports a "steady state" at t = 100n whose state differs
    from the initial one; scipy mode: a genuine steady state of the decay chain."""
    if mode == "exact":
        n = rng.choice([2, 2, 3])
        k, a = rng.choice([F(1), F(1, 2), F(2)]), rng.choice([F(1), F(1, 2)])
        y0 = [rng.choice([F(1), F(2), F(0)]), -50 * a * (2 * n - 1) / k]
        p0 = [k, F(0), a, F(0)]
        ops: list = [["steady"]]
        reached: Fraction | None = F(100 * n)
    else:
        y0, p0 = _base(rng, mode)
        ops = []
        r = rng.random()
        if r < 0.35:
            ops.append(["sim", js(_g(rng.randint(1, 24))), rng.choice([1, 2, 4])])
            ops.append(["updvar", _one_var(rng)])  # re-initialises the integrator: the steady-state run below is legal
        elif r < 0.5:
            ops.append(["updvar", _one_var(rng)])
        ops.append(["steady"])
        reached = None
    if rng.random() < 0.25:
        ops.append(["updpar", {"k": js(rng.choice([F(1, 2), F(1), F(2)]))}])
    ops.append(["updvar", _one_var(rng)])
    if rng.random() < 0.2:
        ops.append(["updvar", _one_var(rng)])
    ops += _cont_ops(rng, mode, reached, rng.randint(1, 2))[0]
    return {"mode": mode, "y0": [js(v) for v in y0], "p0": [js(v) for v in p0], "ops": ops}


def gen_override_steady(rng, mode: str) -> dict:  # noqa: ANN001
    """simulate(T) ; update_variable(s) ; steady-state run [; update_variable ; continuation]: the integrator was just
    re-initialised, so the run is well defined (outside the finding's guard) and its row belongs at T + n*100 in ABSOLUTE
    time -- also for T >= 100, where a stamp in the restarted integrator's own time is not even later than T (seeded
    change C04-4).  exact mode: x' = k*y + a*time with c = 0 and the override y := -a*(T + 50(2n-1))/k makes the iterates at
    integrator time 100(n-1) and 100n coincide (absolute T + 100n), in a state that depends on the absolute time;
    scipy mode: the decay chain's genuine steady state."""
    small = rng.random() < 0.5
    T = _g(rng.randint(1, 32)) if small else F(rng.choice([100, 150, 200, 300, 400])) + _g(rng.choice([0, 0, 4, 12]))
    if mode == "exact":
        n = rng.choice([1, 2, 2, 3])
        k, a = rng.choice([F(1), F(1, 2), F(2)]), rng.choice([F(1), F(1, 2)])
        y0 = [rng.choice([F(1), F(2), F(0)]), rng.choice([F(0), F(1), F(-1)])]
        p0 = [k, F(0), a, F(0)]
        ops: list = [["sim", js(T), rng.choice([1, 2, 4])]]
        ov = {"y": js(-a * (T + 50 * (2 * n - 1)) / k)}
        if rng.random() < 0.3:
            ov["x"] = js(rng.choice([F(0), F(1), F(3)]))
        ops.append(["updvar", ov])
        ops.append(["steady"])
        reached: Fraction | None = T + 100 * n
    else:
        y0, p0 = _base(rng, mode)
        ops = [["sim", js(T), rng.choice([1, 2, 4])], ["updvar", _one_var(rng)], ["steady"]]
        reached = None
    if rng.random() < 0.7:
        if rng.random() < 0.25:
            ops.append(["updpar", {"k": js(rng.choice([F(1, 2), F(1), F(2)]))}])
        ops.append(["updvar", _one_var(rng)])
        ops += _cont_ops(rng, mode, reached, rng.randint(1, 2))[0]
    return {"mode": mode, "y0": [js(v) for v in y0], "p0": [js(v) for v in p0], "ops": ops}


def gen_view_between(rng, mode: str) -> dict:  # noqa: ANN001
    """continuation ; update_parameter(s) ; continuation ; READ view(s) of get_result() ; continuation ...: at least two
    segments recorded under different parameter values, views read between the calls (seeded change C04-6: a view left
    the live model at the FIRST segment's values).  ~30% of the reads come right after update_parameter(s), i.e. while the
    parameters in force differ from the last segment's (guard of the finding view-read-reverts-parameter-update while
    it is recorded; judged like everything else once it is not)."""
    y0, p0 = _base(rng, mode)
    ops, reached = _cont_ops(rng, mode, F(0), 1)
    for _ in range(rng.randint(1, 3)):
        u = {"k": js(rng.choice([F(0), F(1, 2), F(1), F(2), F(1, 4), F(3)]))}
        if rng.random() < 0.3:
            u["c"] = js(rng.choice([F(0), F(1, 2), F(1)]))
        ops.append(["updpar", u])
        if rng.random() < 0.3:
            ops.append(["view", rng.choice(VIEW_KINDS)])
        if rng.random() < 0.2:
            ops.append(["updvar", _one_var(rng)])
        more, reached = _cont_ops(rng, mode, reached, 1)
        ops += more
        for _ in range(rng.choice([1, 1, 2])):
            ops.append(["view", rng.choice(VIEW_KINDS)])
    more, reached = _cont_ops(rng, mode, reached, rng.randint(1, 2))
    ops += more
    return {"mode": mode, "y0": [js(v) for v in y0], "p0": [js(v) for v in p0], "ops": ops}


def gen_large_time(rng, mode: str) -> dict:  # noqa: ANN001
    """large absolute time and a first requested point only just later than the time reached (gap 2^-7 .. 2^-9, all
    values dyadic and exact in binary64), directly or in shifted integrator time after an override"""
    y0, p0 = _base(rng, mode)
    ops: list = []
    reached = F(rng.choice([512, 1024, 2048, 4096])) + _g(rng.choice([0, 0, 1, 4]))
    if rng.random() < 0.4:
        reached0 = _g(rng.randint(1, 64))
        ops.append(["sim", js(reached0), rng.choice([1, 2])])
        ops.append(["updvar", _one_var(rng)])
        reached += reached0
    if rng.random() < 0.7:
        ops.append(["sim", js(reached), rng.choice([1, 2, 4])])
    else:
        ops.append(["tc", [js(reached - 1), js(reached)]])
    if rng.random() < 0.2:
        ops.append(["updpar", {"k": js(rng.choice([F(1, 2), F(1), F(0)]))}])
    for _ in range(rng.randint(1, 2)):
        gap = F(1, 2 ** rng.choice([7, 8, 8, 9]))  # >= 2^-9: whole nanoseconds (pd.Timedelta in the protocol time course)
        r = rng.random()
        if r < 0.7:
            pts = [reached + gap] + sorted(rng.sample([reached + gap + _g(j) for j in range(1, 33)], rng.randint(1, 3)))
            ops.append(["tc", [js(t) for t in pts]])
            reached = pts[-1]
        elif r < 0.85:
            steps = gen_steps(rng, mode)
            total = sum(fr(d) for d, _ in steps)
            rel = rng.random() < 0.5
            pts = [gap] + [gap + _g(j) for j in sorted(rng.sample(range(1, int(total * GRID) + 1), min(2, int(total * GRID))))]
            ops.append(["ptc", steps, [js(t if rel else t + reached) for t in pts], rel])
            reached += total
        else:
            reached += gap
            ops.append(["sim", js(reached), rng.choice([1, 2])])
    return {"mode": mode, "y0": [js(v) for v in y0], "p0": [js(v) for v in p0], "ops": ops}


def gen_clear_after_override(rng, mode: str) -> dict:  # noqa: ANN001
    """simulate ; update_variable(s) ; [simulate] ; clear_results ; simulate ... on a model whose rates read `time`:
    after clear_results the simulator starts again at absolute time 0 and the model must see time 0.. again"""
    y0, p0 = _base(rng, mode, a=rng.choice([F(1), F(1, 2), F(2)]))
    ops, reached = _cont_ops(rng, mode, F(0), 1)
    ops.append(["updvar", _one_var(rng)])
    if rng.random() < 0.7:
        ops += _cont_ops(rng, mode, reached, 1)[0]
    if rng.random() < 0.2:
        ops.append(["updpar", {"k": js(rng.choice([F(1, 2), F(1), F(2)]))}])
    ops.append(["clear"])
    ops += _cont_ops(rng, mode, F(0), rng.randint(1, 2))[0]
    return {"mode": mode, "y0": [js(v) for v in y0], "p0": [js(v) for v in p0], "ops": ops}


def gen_clear_after_failure(rng, mode: str) -> dict:  # noqa: ANN001
    """[continuation(s) [; override]] ; a run that FAILS ; [calls on the failed simulator] ; clear_results ; continuations ;
    [an illegal end]  (seeded change C04-8: clear_results no longer forgot the recorded failure, so the cleared simulator
    stayed inert for ever).  After clear_results the simulator is a new one started from its current start state: the axis
    starts again at 0, every requested point is there once, the refusal rule applies again, get_result() is a result.
    The failing run is a steady-state search that cannot succeed (NoSteadyState: exact mode y' = c != 0, the stand-in's
    iterates never coincide; real scipy: x' = -k x with k = -2^-10 / -2^-11 grows for all 1000 search steps without overflow)
    or, in exact mode, a continuation while the stand-in solver reports failure (IntegrationFailure: parameter boom != 0,
    switched off again before or after clear_results)."""
    y0, p0 = _base(rng, mode)
    ops: list = []
    reached: Fraction | None = F(0)
    if rng.random() < 0.5:
        ops, reached = _cont_ops(rng, mode, F(0), rng.randint(1, 2))
        if rng.random() < 0.3:
            ops.append(["updvar", _one_var(rng)])
    how = "nosteady" if mode != "exact" or rng.random() < 0.55 else "boom"
    if how == "nosteady":
        # (a protocol in the prefix may have set k / c: the values that rule out a steady state are set right before)
        if mode == "exact":
            if ops or p0[1] == 0 or rng.random() < 0.3:
                ops.append(["updpar", {"c": js(rng.choice([F(1, 2), F(1)]))}])
        else:
            neg = {"k": js(-F(1, 2 ** rng.choice([10, 11])))}
            if ops or rng.random() < 0.3:
                ops.append(["updpar", neg])
            else:
                p0[0] = fr(neg["k"])
        ops.append(["steady"])
    else:
        ops.append(["updpar", {"boom": "1"}])
        r = rng.random()
        if r < 0.5:
            ops.append(["sim", js(reached + _g(rng.randint(1, 16))), rng.choice([1, 2, 4])])
        elif r < 0.8:
            ops.append(["tc", [js(reached + _g(j)) for j in sorted(rng.sample(range(1, 25), rng.randint(1, 3)))]])
        else:
            ops.append(["prot", gen_steps(rng, mode), rng.choice([1, 2])])
        if rng.random() < 0.5:
            ops.append(["updpar", {"boom": "0"}])
            how = "boom-off"
    # calls on the failed simulator: every simulating call returns without doing anything (legal or not)
    for _ in range(rng.choice([0, 0, 1, 1, 2])):
        r = rng.random()
        if r < 0.4:
            ops.append(["sim", js(_g(rng.randint(0, 40))), rng.choice([1, 2])])
        elif r < 0.6:
            ops.append(["tc", [js(_g(j)) for j in sorted(rng.sample(range(0, 41), 2))]])
        elif r < 0.75:
            ops.append(["steady"])
        elif r < 0.9:
            ops.append(["updpar", {"k": js(rng.choice([F(1, 2), F(1), F(2)]))}])
        else:
            ops.append(["updvar", _one_var(rng)])
    ops.append(["clear"])
    if how == "boom":
        ops.append(["updpar", {"boom": "0"}])
    elif mode != "exact" or rng.random() < 0.4:
        ops.append(["updpar", {"k": js(rng.choice([F(1, 2), F(1), F(2), F(1, 4)]))}])
    more, reached = _cont_ops(rng, mode, F(0), rng.randint(1, 3))
    ops += more
    r = rng.random()
    if r < 0.25:
        ops.append(["sim", js(reached), rng.choice([1, 2])])  # not later than the time reached: refused
    elif r < 0.4:
        ops.append(["tc", [js(max(F(0), reached - _g(rng.randint(1, 8)))), js(reached)]])
    return {"mode": mode, "y0": [js(v) for v in y0], "p0": [js(v) for v in p0], "ops": ops}


def gen_shared_grid(rng, mode: str) -> dict:  # noqa: ANN001
    """a protocol run several times in a row (cycles), every call given the SAME float64 ndarray of (mostly relative)
    time points; each call must leave the array alone and return its own start + points + boundaries"""
    y0, p0 = _base(rng, mode)
    ops: list = []
    reached = F(0)
    r = rng.random()
    if r < 0.5:
        reached = _g(rng.randint(1, 24))
        ops.append(["sim", js(reached), rng.choice([1, 2, 4])])
        if rng.random() < 0.3:
            ops.append(["updvar", _one_var(rng)])
    steps = gen_steps(rng, mode)
    total = sum(fr(d) for d, _ in steps)
    rel = rng.random() < 0.85
    hi = int(total * GRID) + (4 if rng.random() < 0.3 else 0)
    pts = [_g(j) for j in sorted(rng.sample(range(1, hi + 1), min(rng.randint(1, 5), hi)))]
    if not rel:
        pts = [t + reached for t in pts]
    for c in range(rng.randint(2, 3)):
        st = steps if rng.random() < 0.7 else gen_steps(rng, mode)
        ops.append(["ptc", st, [js(t) for t in pts], rel, 0])
        if c == 0 and rng.random() < 0.2:
            ops.append(["updpar", {"k": js(rng.choice([F(1, 2), F(1), F(2)]))}])
    return {"mode": mode, "y0": [js(v) for v in y0], "p0": [js(v) for v in p0], "ops": ops}


def gen_late_switch(rng, mode: str) -> dict:  # noqa: ANN001
    """dense sampling right after a switch, late in absolute time (C14; seeded change C14-4): a protocol time course whose
    requested grid contains points only just later (gap 2^-7 .. 2^-9: dyadic, exact in binary64, whole nanoseconds; on the real
    solver also 2^-12, 2^-16, 2^-20) than the
    START of a step -- the protocol's own start or an inner boundary -- at absolute times 512 .. ~6000, either because the
    simulator was continued there (simulate(T) / a time course ending at T first, then a protocol with ordinary short steps)
    or because the protocol itself has long steps (durations 512 .. 2048 on a fresh simulator).  The step's values govern
    from the boundary itself, so the row `boundary + gap` must be present and hold the solution after `gap` under the NEW
    values from the state at the boundary.  Some grids also hold the boundary itself, a point just BEFORE a boundary, or
    ordinary points; relative or absolute; sometimes a caller-owned ndarray; sometimes followed by a time course / a second
    cycle that again starts just after the time reached."""
    y0, p0 = _base(rng, mode)
    ops: list = []
    reached = F(0)
    long_steps = rng.random() < 0.4
    if not long_steps:
        T = F(rng.choice([512, 1024, 1024, 2048, 4096])) + _g(rng.choice([0, 0, 1, 4]))
        r = rng.random()
        if r < 0.15:
            # an override BEFORE the long stretch: integrator time and absolute time differ by a small shift
            t0 = _g(rng.randint(1, 32))
            ops.append(["sim", js(t0), rng.choice([1, 2])])
            ops.append(["updvar", _one_var(rng)])
            T += t0
        if rng.random() < 0.7:
            ops.append(["sim", js(T), rng.choice([1, 2, 4])])
        else:
            ops.append(["tc", [js(T - 1), js(T)]])
        reached = T
        if r >= 0.9:
            ops.append(["updvar", _one_var(rng)])  # an override AT the late time (the integrator restarts at its time 0)
        steps = gen_steps(rng, mode)
    else:
        n = rng.choice([2, 2, 3])
        with_c = rng.random() < 0.35
        steps = []
        for _ in range(n):
            u = {"k": js(rng.choice([F(0), F(1, 2), F(1), F(2), F(1, 4)]))}
            if with_c:
                u["c"] = js(rng.choice([F(0), F(1, 2), F(1)]))
            steps.append([js(F(rng.choice([512, 1024, 1024, 1536, 2048])) + _g(rng.choice([0, 0, 0, 2, 4]))), u])
    cycles = 1 if long_steps or rng.random() < 0.75 else 2
    rel = rng.random() < 0.5
    gid = 0 if rng.random() < 0.2 else None
    first_pts: list | None = None
    for cyc in range(cycles):
        bounds = [reached]
        for d, _u in steps:
            bounds.append(bounds[-1] + fr(d))
        starts = bounds[:-1]  # where a step starts
        if first_pts is not None and rel:
            ptsq = first_pts  # the same relative grid again (second cycle)
        else:
            pts: set = set()
            late = [b for b in starts if b >= 512]
            # at least one point just after a LATE start of a step
            must = rng.choice(late) if late else starts[-1]
            for b, e in zip(starts, bounds[1:]):
                if b == must or rng.random() < 0.5:
                    # the real solver also gets much smaller gaps (the exact stand-in would leave binary64 there)
                    pts.add(b + F(1, 2 ** rng.choice([7, 8, 8, 9] if mode == "exact" else [7, 8, 9, 12, 16, 20])))
                if rng.random() < 0.25:
                    pts.add(e)  # the boundary itself
                if rng.random() < 0.2:
                    pts.add(e - F(1, 2 ** rng.choice([7, 8, 9])))  # just before the switch
                if rng.random() < 0.6:
                    span = int((e - b) * GRID)
                    pts.add(b + _g(rng.randint(1, span)))
            if rng.random() < 0.15:
                pts.add(bounds[-1] + _g(rng.randint(1, 8)))  # beyond the end: ignored
            ptsq = sorted(t for t in pts if t > reached)
            if rel:
                ptsq = [t - reached for t in ptsq]
            first_pts = ptsq
        op = ["ptc", steps, [js(t) for t in ptsq], rel]
        if gid is not None:
            op.append(gid if rel else cyc)  # one array object per CONTENT: the relative grid is handed to both cycles
        ops.append(op)
        reached = bounds[-1]
    if rng.random() < 0.3:
        gap = F(1, 2 ** rng.choice([7, 8, 9]))
        ops.append(["tc", [js(reached + gap), js(reached + gap + _g(rng.randint(1, 16)))]])
    return {"mode": mode, "y0": [js(v) for v in y0], "p0": [js(v) for v in p0], "ops": ops}


def gen_keyed_steps(rng, mode: str, names: list[str] | None = None) -> list:  # noqa: ANN001
    """protocol steps over SEVERAL parameters, every step the same kind of mapping but written in its own KEY ORDER
    (a Python dict is a mapping: {"k": 2, "c": 1/2} and {"c": 1/2, "k": 2} say the same); at least one step lists the
    parameters in another order than the first, and k != c inside every step, so values landing on the wrong
    parameter are observable (C14; seeded change C14-8: rows built from list(pars.values()))"""
    if names is None:
        names = ["k", "c"] + (["a"] if mode == "exact" and rng.random() < 0.3 else [])
    n = rng.choice([2, 2, 3, 3, 4, 5])
    first = list(names)
    rng.shuffle(first)
    orders = [list(first)]
    for _ in range(n - 1):
        o = list(first)
        if rng.random() < 0.6:
            rng.shuffle(o)
        orders.append(o)
    if all(o == first for o in orders[1:]):
        orders[rng.randrange(1, n)] = first[1:] + first[:1]
    steps = []
    for o in orders:
        k = rng.choice([F(0), F(1, 2), F(1), F(2), F(1, 4), F(4), F(3)])
        c = rng.choice([v for v in (F(0), F(1, 2), F(1), F(3), F(1, 8), F(2)) if v != k])
        vals = {"k": k, "c": c, "a": rng.choice([F(0), F(1, 2), F(1)])}
        steps.append([js(_g(rng.randint(1, 16))), {nm: js(vals[nm]) for nm in o}])
    return steps


def gen_key_order(rng, mode: str) -> dict:  # noqa: ANN001
    """histories around a protocol whose steps are written in different key orders (gen_keyed_steps): fresh or continued
    (simulate / override / update_parameters written in either order), protocol or protocol time course (grid between /
    at / beyond the boundaries, relative or absolute), optionally a second protocol with its own key orders"""
    y0, p0 = _base(rng, mode)
    ops: list = []
    reached = F(0)
    r = rng.random()
    if r < 0.45:
        reached = _g(rng.randint(1, 24))
        ops.append(["sim", js(reached), rng.choice([1, 2, 4])])
        if rng.random() < 0.35:
            ops.append(["updvar", _one_var(rng)])
    elif r < 0.6:
        u = {"c": js(rng.choice([F(0), F(1, 2), F(1)])), "k": js(rng.choice([F(2), F(1, 4), F(3)]))}
        ops.append(["updpar", u])
    names = None
    for cyc in range(2 if rng.random() < 0.3 else 1):
        steps = gen_keyed_steps(rng, mode, names)
        names = sorted(steps[0][1])  # a second protocol names the same parameters (again in its own orders)
        total = sum(fr(d) for d, _ in steps)
        if rng.random() < 0.45:
            ops.append(["prot", steps, rng.choice([1, 2, 2, 4])])
        else:
            rel = rng.random() < 0.5
            hi = int(total * GRID) + (8 if rng.random() < 0.3 else 0)
            pts = set(rng.sample(range(1, hi + 1), min(rng.randint(1, 6), hi)))
            acc = F(0)
            for d, _ in steps:
                acc += fr(d)
                if rng.random() < 0.3:
                    pts.add(int(acc * GRID))
            if max(pts) <= 0:
                pts.add(1)
            base = F(0) if rel else reached
            ops.append(["ptc", steps, [js(base + _g(j)) for j in sorted(pts)], rel])
        reached += total
        if cyc == 0 and rng.random() < 0.2:
            ops.append(["updvar", _one_var(rng)])
    if rng.random() < 0.2:
        ops.append(["sim", js(reached + _g(rng.randint(1, 16))), rng.choice([1, 2])])
    return {"mode": mode, "y0": [js(v) for v in y0], "p0": [js(v) for v in p0], "ops": ops}


# ---------------------------------------------------------------------------------------
# (6) Gallina printers + correspondence
# ---------------------------------------------------------------------------------------


def _cqs(xs) -> str:  # noqa: ANN001
    return clist(cq(fr(x)) for x in xs)


def _upd(u: dict, names: list[str]) -> str:
    return clist(f"({cnat(names.index(k))}, {cq(fr(v))})" for k, v in u.items())


def coq_op(op: list, mode: str) -> str:
    kind = op[0]
    P = PARS["exact"]  # scipy-mode parameters (k, c) are the first two of the exact-mode vector
    if kind == "sim":
        return f"OSim {cq(fr(op[1]))} {copt(None if op[2] is None else cnat(op[2]))}"
    if kind == "tc":
        return f"OTc {_cqs(op[1])}"
    steps = lambda st: clist(f"({cq(fr(d))}, {_upd(u, P)})" for d, u in st)  # noqa: E731
    if kind == "prot":
        return f"OProt {steps(op[1])} {cnat(op[2])}"
    if kind == "ptc":
        return f"OProtTc {steps(op[1])} {_cqs(op[2])} {cbool(bool(op[3]))}"
    if kind == "steady":
        return "OSteady"
    if kind == "updpar":
        return f"OUpdPar {_upd(op[1], P)}"
    if kind == "updvar":
        return f"OUpdVar {_upd(op[1], VARS)}"
    return "OClear"


def coq_obs(o: dict, mode: str) -> str:
    out = {"done": 0, "ValueError": 1, "IndexError": 2}.get(o["out"], 9)
    err = {"none": 0, "integration": 1, "nosteady": 2}.get(o["err"], 9)
    if o["segs"] is None:
        segs = "None"
    else:
        segs = "(Some " + clist(
            clist(f"({cq(fr(r[0]))}, {_cqs(r[1:]) if mode == 'exact' else '[]'})" for r in seg) for seg in o["segs"]
        ) + ")"
    if o["pars"] is None:
        pars = "None"
    else:
        names = PARS["exact"]
        pars = "(Some " + clist(_cqs([p.get(n, "0") for n in names]) for p in o["pars"]) + ")"
    return f"mkObs {cnat(out)} {cnat(err)} {segs} {pars}"


def has_views(h: dict) -> bool:
    return any(op[0] == "view" for op in h["ops"])


def coq_vcase(h: dict, obs: list[dict]) -> str:
    """a history WITH view reads (Views.v / ViewsExec.v): operations wrapped in VOp, reads as VRead touch; every observation
    carries the parameter values of the live model"""
    mode = h["mode"]
    p0 = list(h["p0"]) + (["0", "0"] if mode != "exact" else [])
    names = PARS["exact"]
    vops = clist(
        f"VRead {cbool(view_touches(op[1]))}" if op[0] == "view" else f"VOp ({coq_op(op, mode)})" for op in h["ops"]
    )
    vobs = clist(f"({coq_obs(o, mode)}, {_cqs([o['model_pars'].get(n, '0') for n in names])})" for o in obs)
    return f"({cbool(mode == 'exact')}, {_cqs(h['y0'])}, {_cqs(p0)},\n   {vops},\n   {vobs})"


def coq_case(h: dict, obs: list[dict]) -> str:
    mode = h["mode"]
    p0 = list(h["p0"]) + (["0", "0"] if mode != "exact" else [])
    return (
        f"({cbool(mode == 'exact')}, {_cqs(h['y0'])}, {_cqs(p0)},\n   {clist(coq_op(op, mode) for op in h['ops'])},\n   "
        f"{clist(coq_obs(o, mode) for o in obs)})"
    )


def corr_file(cases: list[str]) -> str:
    defs = "\n".join(f"Definition case_{i} : case :=\n  {c}." for i, c in enumerate(cases))
    return (
        "From Coq Require Import QArith List.\n"
        "From Sim Require Import Integrator Simulator Protocol ProtocolTable SimExec TableExec GenSimFacts.\n"
        "Import ListNotations.\nOpen Scope Q_scope.\n" + defs + "\n"
        "Definition cases : list case := [" + "; ".join(f"case_{i}" for i in range(len(cases))) + "].\n"
        # every protocol goes through the table model (TableExec.v): the step dicts are written in the history's key order
        "Eval vm_compute in mismatches_t gen_protocol_rows gen_sim_facts cases.\n"
    )


def vcorr_file(cases: list[str]) -> str:
    defs = "\n".join(f"Definition case_{i} : vcase :=\n  {c}." for i, c in enumerate(cases))
    return (
        "From Coq Require Import QArith List.\n"
        "From Sim Require Import Integrator Simulator Protocol Views SimExec ViewsExec GenSimFacts.\n"
        "Import ListNotations.\nOpen Scope Q_scope.\n" + defs + "\n"
        "Definition cases : list vcase := [" + "; ".join(f"case_{i}" for i in range(len(cases))) + "].\n"
        "Eval vm_compute in vmismatches gen_sim_facts gen_view_mode cases.\n"
    )


def correspondence(run: common.Run, tag: str, items: list[tuple[dict, list[dict]]], shard: int = 60) -> set[int]:
    """evaluate the model on every (history, observations) inside Coq; -> indices that disagree.  Histories with view
    reads go to their own shards (model: Views.v, the live model's parameter values are compared after every operation)"""
    plain = [gi for gi, (h, _) in enumerate(items) if not has_views(h)]
    views = [gi for gi, (h, _) in enumerate(items) if has_views(h)]
    files: dict[str, str] = {}
    where: dict[str, list[int]] = {}
    for k, chunk in enumerate(common.chunks(plain, shard)):
        name = f"{tag}_{k:04d}"
        files[name], where[name] = corr_file([coq_case(*items[gi]) for gi in chunk]), list(chunk)
    for k, chunk in enumerate(common.chunks(views, shard)):
        name = f"{tag}_v{k:04d}"
        files[name], where[name] = vcorr_file([coq_vcase(*items[gi]) for gi in chunk]), list(chunk)
    res = common.coq_eval_many(AREA, files, timeout_s=900)
    mism: set[int] = set()
    for name in sorted(files):
        ok, out = res[name]
        lists = common.parse_eval_list(out) if ok else None
        if not ok or not lists:
            run.broken_correspondence.append(f"correspondence shard {name} did not evaluate: {out[-300:]}")
            continue
        for j in lists[-1]:
            gi = where[name][j]
            mism.add(gi)
            if len(run.broken_correspondence) < 5:
                h, obs = items[gi]
                run.broken_correspondence.append(
                    f"model/implementation disagree on history #{gi} ({h['mode']}): y0={h['y0']} p0={h['p0']} ops={h['ops']} "
                    f"impl outcomes={[o['out'] + '/' + o['err'] for o in obs]} index={[[r[0] for r in s] for s in (obs[-1]['segs'] or [])] if obs else None}"
                )
    return mism


ASSUMPTIONS = [
    "Coq 8.16.1 kernel + vm_compute; theorems closed under the global context (Print Assumptions recorded)",
    "external behaviour enters as Section variables only: flow (the ODE solution map of scipy.integrate.solve_ivp / ode), "
    "solve_ok (solver success), conv (steady-state norm test), pupd (Model.update_parameters), yovr (dict | overrides); "
    "solve_ivp's argument contract (t_eval inside t_span and strictly increasing; empty span yields no rows) is modelled "
    "explicitly in Integrator.solve_ivp and validated against the real scipy in scipy mode",
    "fact extractor harness/c04_sim.py::extract_facts (fail-closed ast matcher; whole-function shape pins for "
    "_handle_simulation_results, _initialise_integrator, update_variable(s), clear_results, simulate_protocol, simulate_protocol_time_course, make_protocol, "
    "Scipy.reset/integrate/integrate_time_course/integrate_to_steady_state)",
    "pandas/NumPy containers are modelled as lists; np.linspace and float arithmetic are exact on the dyadic inputs used "
    "(multiples of 1/8, steps in {1,2,4,8}; gaps 2^-7..2^-9 at absolute times up to 4096); pd.Timedelta nanosecond rounding and binary "
    "rounding of non-dyadic times are outside the Q model (the one place where the code rounds a TIME REACHED to nanoseconds is the known "
    "finding protocol-start-rounded-to-ns of C14; generated histories keep the time reached a whole number of nanoseconds)",
    "state values: exact in 'exact' mode (stand-in for scipy.integrate computing the polynomial closed form, used through the real "
    "Scipy class); in 'scipy' / 'tdep' mode (real scipy; tdep: every rate reads time) against the closed form with atol 2e-6 / rtol 2e-4 "
    "(validation only, solver runs at 1e-8)",
    "caller-owned ndarrays: that a call leaves the array it was given unmodified is validated on the implementation after every operation "
    "(in the model the arguments of an operation are values)",
    "views of get_result() read between simulation calls (C04 histories): modelled only in their effect on the parameter values of the "
    "model shared with the Simulator (coq/sim/Views.v; what a view RETURNS is C10's business); fact view_mode extracted from "
    "src/mxlpy/simulation.py (the update_parameters call sites of class Simulation: two recognised shapes) and Simulator.get_result "
    "(must pass model=self.model); which of the 11 driven view kinds evaluate the model is validated by comparing the live model's "
    "parameter values with the Coq model after every operation",
    "steady-state stamp clause of the oracle: the search step is the default step_size declared by Scipy.integrate_to_steady_state in "
    "the tree under test (also a pinned fact, ss_step)",
    "protocol table: make_protocol's body is recognised in two shapes (by-name frame constructor / positional rows = fact "
    "gen_protocol_rows); that pandas aligns the inner dicts of DataFrame({end: dict}) on their keys and that iterrows()/to_dict() read a "
    "row back by column name is validated (oracle + correspondence on steps written in different key orders), not proved; steps naming "
    "other parameters than the first step are outside the table model",
    "correspondence harness: literal printer, observation canonicaliser, coqc output parser",
]


# ---------------------------------------------------------------------------------------
# (7) corpus, enumeration, the common check body, replay
# ---------------------------------------------------------------------------------------

_Y0, _P0 = ["1", "1"], ["1", "1/2", "0", "0"]

CORPUS_C04: list[dict] = [
    # the time-shift witnesses of DESIGN section 9 item 4 (false refusal; silently dropped points)
    {"mode": "exact", "y0": _Y0, "p0": _P0, "ops": [["sim", "10", 2], ["updvar", {"x": "2"}], ["sim", "15", 2]]},
    {"mode": "exact", "y0": _Y0, "p0": _P0, "ops": [["sim", "10", 2], ["updvar", {"x": "2"}], ["tc", ["12", "14", "21", "23"]]]},
    {"mode": "scipy", "y0": _Y0, "p0": ["1/4", "1/2"], "ops": [["sim", "4", 2], ["updvar", {"x": "2"}], ["sim", "6", 2], ["tc", ["5", "7", "9"]]]},
    {"mode": "exact", "y0": _Y0, "p0": _P0, "ops": [["sim", "2", 2], ["updvar", {"y": "0"}], ["prot", [["1", {"k": "2"}], ["1/2", {"k": "0"}]], 2]]},
    {"mode": "exact", "y0": _Y0, "p0": _P0, "ops": [["tc", ["1", "2"]], ["updvar", {"y": "2"}], ["ptc", [["1", {"k": "2"}], ["1", {"k": "1/2"}]], ["1/2", "1", "3/2"], True]]},
    {"mode": "exact", "y0": _Y0, "p0": _P0, "ops": [["sim", "2", 1], ["updvar", {"x": "3"}], ["updvar", {"y": "0"}], ["sim", "3", 4], ["updvar", {"x": "1"}], ["tc", ["3", "7/2", "4"]]]},
]

# the shifted-model-time witnesses (fixes/C04-override-time.diff): a rate law reading `time` after an override
CORPUS_C04 += [
    {"mode": "exact", "y0": ["0", "0"], "p0": ["0", "0", "1", "0"], "ops": [["sim", "2", 1], ["updvar", {"x": "2"}], ["sim", "4", 1]]},
    {"mode": "exact", "y0": _Y0, "p0": ["1", "1/2", "1/2", "0"],
     "ops": [["tc", ["1", "3"]], ["updvar", {"y": "0"}], ["tc", ["4", "6"]], ["updvar", {"x": "1"}], ["updvar", {"y": "1"}], ["sim", "8", 2]]},
]

# --- seeded changes that were at first only reported through a pinned fact (seeded/C04-1..3): minimal histories on which
# the oracle decides them
CORPUS_C04 += [
    # override after a steady-state run: applied to the row the run reported (exact: "steady" at t = 200 in the state
    # (-9999, -150), not the initial one; scipy: the decay chain's steady state)
    {"mode": "exact", "y0": ["1", "-150"], "p0": ["1", "0", "1", "0"], "ops": [["steady"], ["updvar", {"y": "1"}], ["sim", "202", 2]]},
    {"mode": "scipy", "y0": ["2", "1"], "p0": ["1/2", "1/2"],
     "ops": [["steady"], ["updvar", {"y": "2"}], ["prot", [["1", {"k": "1/2"}], ["1", {"k": "1"}]], 2]]},
    {"mode": "scipy", "y0": ["3", "1"], "p0": ["1", "0"],
     "ops": [["sim", "1", 2], ["updvar", {"x": "2"}], ["steady"], ["updvar", {"x": "1"}], ["ptc", [["2", {"k": "1/2"}]], ["1/4", "1", "2"], True]]},
    # a requested point only just later than the time reached, at large absolute time (also in shifted time)
    {"mode": "exact", "y0": _Y0, "p0": _P0, "ops": [["sim", "1024", 1], ["tc", ["262145/256", "1030"]]]},
    {"mode": "scipy", "y0": _Y0, "p0": ["1/4", "1/2"], "ops": [["sim", "1024", 2], ["tc", ["262145/256", "2049/2", "1025"]]]},
    {"mode": "exact", "y0": _Y0, "p0": ["1", "0", "1/2", "0"],
     "ops": [["sim", "400", 4], ["updvar", {"x": "1"}], ["sim", "2000", 4], ["tc", ["256001/128", "2001"]]]},
    # clear_results after an override, rates reading `time`
    {"mode": "exact", "y0": ["1", "0"], "p0": ["0", "0", "1", "0"],
     "ops": [["sim", "2", 2], ["updvar", {"x": "4"}], ["sim", "3", 2], ["clear"], ["sim", "3", 1]]},
    {"mode": "tdep", "y0": ["2", "1"], "p0": ["1/2", "1"],
     "ops": [["sim", "2", 4], ["updvar", {"x": "4"}], ["sim", "3", 2], ["clear"], ["sim", "2", 2], ["tc", ["5/2", "3"]]]},
    # the same ndarray handed to two calls
    {"mode": "exact", "y0": _Y0, "p0": _P0,
     "ops": [["tc", ["1", "2"], 0], ["updvar", {"x": "1"}], ["tc", ["1", "2"], 0], ["clear"], ["tc", ["1", "2"], 0]]},
]

# --- second round of seeded changes (seeded/C04-4, C04-6)
CORPUS_C04 += [
    # a steady-state run right after an override belongs at (time reached) + n*100 in ABSOLUTE time: exact mode with a
    # "steady state" whose value depends on the absolute time (x' = y + time, y := -(T + 50(2n-1))), T = 2 and T = 300;
    # real scipy with T = 300 (a stamp in the restarted integrator's own time, 200, is not even later than T) and T = 3/2
    {"mode": "exact", "y0": ["1", "0"], "p0": ["1", "0", "1", "0"],
     "ops": [["sim", "2", 2], ["updvar", {"y": "-152"}], ["steady"], ["updvar", {"x": "1"}], ["sim", "204", 2]]},
    {"mode": "exact", "y0": ["1", "0"], "p0": ["1", "0", "1", "0"],
     "ops": [["sim", "300", 2], ["updvar", {"y": "-350"}], ["steady"], ["updvar", {"x": "1"}], ["sim", "402", 2]]},
    {"mode": "scipy", "y0": ["2", "1"], "p0": ["1/2", "1/2"],
     "ops": [["sim", "300", 2], ["updvar", {"x": "2"}], ["steady"], ["updvar", {"y": "1"}], ["prot", [["1", {"k": "1/2"}]], 2]]},
    {"mode": "scipy", "y0": ["2", "1"], "p0": ["1", "1/2"], "ops": [["sim", "3/2", 2], ["updvar", {"x": "2"}], ["steady"]]},
    # views of get_result() read between two continuations, after segments recorded under different parameter values:
    # the next segment runs (and is recorded) with the values in force
    {"mode": "scipy", "y0": ["1", "0"], "p0": ["1", "1/2"],
     "ops": [["sim", "1", 4], ["updpar", {"k": "3"}], ["sim", "2", 4], ["view", "variables+producers"], ["sim", "3", 4]]},
    {"mode": "exact", "y0": _Y0, "p0": _P0,
     "ops": [["sim", "1", 2], ["updpar", {"k": "2"}], ["sim", "2", 2], ["view", "fluxes+consumers"], ["tc", ["5/2", "3"]]]},
    {"mode": "tdep", "y0": ["2", "1"], "p0": ["1/2", "1"],
     "ops": [["sim", "1", 2], ["updpar", {"k": "2", "c": "1/2"}], ["sim", "2", 2], ["view", "producers+consumers"], ["view", "rhs"],
             ["prot", [["1/2", {"k": "1"}]], 2]]},
    {"mode": "exact", "y0": _Y0, "p0": _P0,
     "ops": [["sim", "1", 2], ["updpar", {"k": "2"}], ["tc", ["3/2", "2"]], ["view", "raw"], ["view", "combined"], ["updvar", {"x": "0"}],
             ["view", "args"], ["sim", "3", 2]]},
]

# --- third round (seeded/C04-8): a run that fails, clear_results, and a fresh run on the cleared simulator
CORPUS_C04 += [
    # the shape of the seeded demo: dx/dt = k (y = 1, c = 0 ... here c = 1 so that the stand-in's iterates never coincide,
    # x' = k*y), a steady-state search that cannot succeed, clear, two segments under different k, an illegal end
    {"mode": "exact", "y0": ["0", "1"], "p0": ["1", "1", "0", "0"],
     "ops": [["steady"], ["clear"], ["updpar", {"k": "2"}], ["sim", "3", 1], ["updpar", {"k": "1/2"}], ["tc", ["4", "5", "7"]], ["sim", "7", 1]]},
    # a failed continuation (the stand-in solver reports failure) after results exist; calls on the failed simulator; clear
    {"mode": "exact", "y0": _Y0, "p0": _P0,
     "ops": [["sim", "2", 2], ["updpar", {"boom": "1"}], ["sim", "3", 1], ["updpar", {"boom": "0"}], ["sim", "4", 1], ["clear"],
             ["sim", "1", 1], ["tc", ["1", "3/2", "2"]], ["sim", "2", 1]]},
    # real solver: x' = -k x with k = -2^-10 never settles within the 1000 search steps
    {"mode": "scipy", "y0": ["1", "1"], "p0": ["-1/1024", "1/2"],
     "ops": [["sim", "2", 2], ["updvar", {"x": "2"}], ["steady"], ["clear"], ["updpar", {"k": "1/2"}], ["sim", "3", 2], ["tc", ["4", "5", "7"]], ["sim", "7", 1]]},
]

WITNESS_STEADY = {"mode": "exact", "y0": ["1", "0"], "p0": ["1", "0", "0", "0"],
                  "ops": [["sim", "500", 2], ["steady"], ["sim", "800", 2]]}
WITNESS_VIEW = {"mode": "exact", "y0": ["1", "1"], "p0": ["1", "0", "0", "0"],
                "ops": [["sim", "1", 1], ["updpar", {"k": "3"}], ["view", "variables"], ["sim", "2", 1]]}
WITNESSES = {"steady-state-resets-integrator": WITNESS_STEADY, "view-read-reverts-parameter-update": WITNESS_VIEW}


def enum_histories(rng) -> list[dict]:  # noqa: ANN001, ARG001
    """every history of length <= 3 over a fixed 15-operation alphabet (exact mode)"""
    import itertools

    st = [["1", {"k": "2", "c": "1/2"}], ["1/2", {"k": "0", "c": "1"}]]
    alphabet = [
        ["sim", "1", 2], ["sim", "2", 1], ["sim", "3/2", 4], ["tc", ["1/2", "1"]], ["tc", ["1", "2", "3"]], ["tc", ["3/2"]],
        ["prot", st, 2], ["ptc", st, ["1/2", "1", "5/4", "2"], True], ["ptc", st, ["1/2", "3"], False], ["steady"],
        ["updpar", {"k": "2"}], ["updvar", {"x": "2"}], ["updvar", {"y": "0"}], ["clear"], ["view", "variables"],
    ]
    out = []
    for n in (1, 2, 3):
        for ops in itertools.product(alphabet, repeat=n):
            out.append({"mode": "exact", "y0": _Y0, "p0": _P0, "ops": [list(o) for o in ops]})
    return out


def nontrivial(h: dict, obs: list[dict]) -> bool:
    ops = h["ops"]
    if len(ops) < 2:
        return False
    simulating = [i for i, o in enumerate(ops) if o[0] in ("sim", "tc", "prot", "ptc", "steady")]
    return len(simulating) >= 2 or any(o[0] in ("updvar", "clear") for o in ops[1:]) or any(o["out"] != "done" for o in obs)


def judge(h: dict, prop: str) -> tuple[dict, list[dict]]:
    r = run_history(h["mode"], h["y0"], h["p0"], h["ops"], want_fluxes=(prop == "C14"))
    if r["discard"]:
        return r, []
    bad = oracle_history(h["mode"], h["y0"], h["p0"], h["ops"], r["obs"])
    if prop == "C14":
        from harness import c14

        bad += c14.oracle_protocols(h, r)
    return r, bad


def run_all(run: common.Run, prop: str, hs: list[dict], proofs_ok: bool) -> None:
    dist: dict[str, dict[str, int]] = {"ops": {}, "outcomes": {}, "modes": {}, "lengths": {}, "discarded": {}}
    items: list[tuple[dict, list[dict]]] = []
    item_src: list[int] = []
    pending: list[tuple[int, dict, dict]] = []  # (history index, violation, history)
    for hi, h in enumerate(hs):
        r, bad = judge(h, prop)
        if r["discard"]:
            dist["discarded"][r["discard"]] = dist["discarded"].get(r["discard"], 0) + 1
            continue
        obs = r["obs"]
        dist["modes"][h["mode"]] = dist["modes"].get(h["mode"], 0) + 1
        dist["lengths"][str(len(h["ops"]))] = dist["lengths"].get(str(len(h["ops"])), 0) + 1
        for op, o in zip(h["ops"], obs):
            dist["ops"][op[0]] = dist["ops"].get(op[0], 0) + 1
            key = o["out"] + ("" if o["err"] == "none" else "/" + o["err"])
            dist["outcomes"][key] = dist["outcomes"].get(key, 0) + 1
        run.count_case((h["mode"], h["y0"], h["p0"], h["ops"]), nontrivial=nontrivial(h, obs))
        if hi % 97 == 0:
            run.sample({"history": h, "outcomes": [o["out"] + "/" + o["err"] for o in obs],
                        "index": [[r_[0] for r_ in s] for s in (obs[-1]["segs"] or [])]})
        for v in bad:
            pending.append((hi, v, h))
        # not compared with the model: the inexact default grid (steps=None), and steady-state runs on the real scipy
        # (when the real solver's norm test fires is not something the model can know) -- both judged by the oracle only
        if any(op[0] == "sim" and op[2] is None for op in h["ops"]) or (h["mode"] != "exact" and any(op[0] == "steady" for op in h["ops"])):
            dist["discarded"]["oracle-only"] = dist["discarded"].get("oracle-only", 0) + 1
        else:
            items.append((h, obs))
            item_src.append(hi)
    run.coverage["input_distribution"] = dist

    mism = correspondence(run, prop.lower(), items)
    mism_h = {item_src[j] for j in mism}
    run.coverage["traces_validated_against_impl"] = len(items) - len(mism)
    run.coverage["correspondence_mismatches"] = len(mism)

    known_ids = {f["id"] for f in common.load_known_findings(prop)}
    attributed: dict[str, int] = {}
    n_viol = 0
    reported: set[str] = set()
    for hi, v, h in pending:
        fid = classify(v, h["mode"])
        if fid in known_ids and hi not in mism_h:
            attributed[fid] = attributed.get(fid, 0) + 1
            continue
        if n_viol < 4:
            small = shrink(h, prop, v)
            key = json.dumps([small["mode"], small["y0"], small["p0"], small["ops"]], sort_keys=True)
            if key in reported:
                continue  # the same minimal history again
            reported.add(key)
            n_viol += 1
            what = v["what"]
            if small["ops"] != h["ops"]:
                # describe the shrunk history in its own terms
                try:
                    _, bad2 = judge(small, prop)
                    last = [b for b in bad2 if classify(b, small["mode"]) is None and b["op"] == len(small["ops"]) - 1]
                    if last:
                        what = last[0]["what"]
                except Exception:  # noqa: BLE001
                    pass
            run.violation(f"{prop}: last operation of {small['ops']}: {what}", {"kind": "history", "prop": prop, **small})
    run.coverage["violations_attributed_to_known_findings"] = attributed

    for f in common.load_known_findings(prop):
        w = f.get("witness") or WITNESSES.get(f["id"])
        if not w:
            continue
        _, bad = judge(w, prop)
        if any(classify(v, w["mode"]) == f["id"] for v in bad):
            run.known(f["id"], f["what_fails"])
    if not proofs_ok:
        run.note("proof obligations broken; the generated histories, the corpus and the witnesses were judged by the oracle")


def shrink(h: dict, prop: str, v: dict) -> dict:
    """drop operations after the offending one, then single earlier operations, while the oracle still objects"""
    cur = dict(h, ops=h["ops"][: v["op"] + 1])
    try:
        changed = True
        while changed and len(cur["ops"]) > 1:
            changed = False
            for i in range(len(cur["ops"]) - 1):
                cand = dict(cur, ops=cur["ops"][:i] + cur["ops"][i + 1 :])
                _, bad = judge(cand, prop)
                if any(classify(b, cand["mode"]) is None and b["op"] == len(cand["ops"]) - 1 for b in bad):
                    cur, changed = cand, True
                    break
    except Exception:  # noqa: BLE001
        pass
    return cur


def replay(rep: dict, prop: str) -> int:
    r = rep.get("replay", rep)
    if r.get("kind") != "history":
        print("nothing to replay:", rep.get("what"))
        return 1
    h = {k: r[k] for k in ("mode", "y0", "p0", "ops")}
    res, bad = judge(h, r.get("prop", prop))
    for o, op in zip(res["obs"], h["ops"]):
        print(op, "->", o["out"], o["err"], [[x[0] for x in s] for s in (o["segs"] or [])])
    for v in bad:
        print("oracle:", v)
    if not bad:
        print("oracle: property holds on this history")
    return 1 if bad else 0
