"""C13 -- initial assignments resolve once at t=0; derived parameters are state-free.

Shares the core model (coq/core: Cache.v, Query.v) and the generator with C01, biased towards initial
assignments (on variables and parameters, chained through derived quantities, rates and each other).
Oracle: harness/modelgen.Oracle (demand-driven recursion; `only_params` = inductive reachability)."""

from __future__ import annotations

from harness import c01, common, modelgen
from harness.common import Run, clist, cn
from harness.modelgen import Oracle, Unbounded, nm, un

AREA = "core"
PROPS = "PropsC13.v"
PROOF_AREA = "coreproofs"


# Model._create_cache, statement for statement (ast-normalised: docstring and comments dropped), as modelled in
# coq/core/Cache.v.  Any edit of the cache construction flips the regenerated fact and breaks C13_cache_shape_pinned.
_CREATE_CACHE_SHAPE = """parameter_names = set(self._parameters)
all_parameter_names = set(parameter_names)
base_parameter_values: dict[str, float] = {k: val for k, v in self._parameters.items() if not isinstance((val := v.value), InitialAssignment)}
base_variable_values: dict[str, float] = {k: init for k, v in self._variables.items() if not isinstance((init := v.initial_value), InitialAssignment)}
initial_assignments: dict[str, InitialAssignment] = {k: init for k, v in self._variables.items() if isinstance((init := v.initial_value), InitialAssignment)} | {k: init for k, v in self._parameters.items() if isinstance((init := v.value), InitialAssignment)}
for name, el in it.chain(initial_assignments.items(), self._derived.items(), self._reactions.items(), self._readouts.items()):
    if not _check_function_arity(el.fn, len(el.args)):
        raise ArityMismatchError(name, el.fn, el.args)
available = set(base_parameter_values) | set(base_variable_values) | set(self._data) | {'time'}
to_sort = initial_assignments | self._derived | self._reactions | self._surrogates
order = _sort_dependencies(available=available, elements=[Dependency(name=k, required=set(v.args), provided={k}) if not isinstance(v, AbstractSurrogate) else Dependency(name=k, required=set(v.args), provided=set(v.outputs)) for k, v in to_sort.items()])
dependent = base_parameter_values | base_variable_values | self._data | {'time': 0.0}
for name in order:
    to_sort[name].calculate_inpl(name, dependent)
static_order = []
dyn_order = []
for name in order:
    if name in self._reactions or name in self._surrogates:
        dyn_order.append(name)
    elif name in self._variables or name in self._parameters:
        static_order.append(name)
    else:
        derived = self._derived[name]
        if all((i in all_parameter_names for i in derived.args)):
            static_order.append(name)
            all_parameter_names.add(name)
        else:
            dyn_order.append(name)
stoich_by_compounds: dict[str, dict[str, float]] = {}
dyn_stoich_by_compounds: dict[str, dict[str, Derived]] = {}
for rxn_name, rxn in self._reactions.items():
    for cpd_name, factor in rxn.stoichiometry.items():
        d_static = stoich_by_compounds.setdefault(cpd_name, {})
        if isinstance(factor, Derived):
            if all((i in all_parameter_names for i in factor.args)):
                d_static[rxn_name] = factor.calculate(dependent)
            else:
                dyn_stoich_by_compounds.setdefault(cpd_name, {})[rxn_name] = factor
        else:
            d_static[rxn_name] = factor
for surrogate in self._surrogates.values():
    for rxn_name, rxn in surrogate.stoichiometries.items():
        for cpd_name, factor in rxn.items():
            d_static = stoich_by_compounds.setdefault(cpd_name, {})
            if isinstance(factor, Derived):
                if all((i in all_parameter_names for i in factor.args)):
                    d_static[rxn_name] = factor.calculate(dependent)
                else:
                    dyn_stoich_by_compounds.setdefault(cpd_name, {})[rxn_name] = factor
            else:
                d_static[rxn_name] = factor
var_names = self.get_variable_names()
initial_conditions: dict[str, float] = {k: cast(float, dependent[k]) for k in self._variables}
all_parameter_values = dict(base_parameter_values)
for name in static_order:
    if name in self._variables:
        continue
    if name in self._parameters or name in self._derived:
        all_parameter_values[name] = cast(float, dependent[name])
    else:
        msg = 'Unknown target for static derived variable.'
        raise KeyError(msg)
self._cache = ModelCache(order=order, var_names=var_names, dyn_order=dyn_order, base_parameter_values=base_parameter_values, all_parameter_values=all_parameter_values, stoich_by_cpds=stoich_by_compounds, dyn_stoich_by_cpds=dyn_stoich_by_compounds, initial_conditions=initial_conditions)
return self._cache"""


def extract_cache_shape() -> str:
    import ast

    tree = ast.parse((common.REPO / "src/mxlpy/model.py").read_text())
    return "true" if c01._method_body(tree, "Model", "_create_cache") == _CREATE_CACHE_SHAPE else "false"


# two statements of _create_cache whose recognised alternative shapes have a model of their own (coq/core/CacheData.v,
# CacheDraw.v): the seed of the closure `all_parameter_names` and where `initial_conditions` is read from.  Anything
# else is Unknown (fail closed).
_SEED_SHAPES = {
    "set(parameter_names)": "SeedPar",
    "parameter_names | set(self._data)": "SeedParData",  # seeded C01-9
}
_INIT_SHAPES = {
    "{k: cast(float, dependent[k]) for k in self._variables}": "InitFromPass",
    "{k: base_variable_values[k] if (init := variable_assignments.get(k)) is None else init.calculate(dependent) for k in self._variables}": "InitAgain",  # seeded C13-8
}


def extract_cache_kinds() -> dict[str, str]:
    import ast

    out = {"split_seed": "SeedUnknown", "init_source": "InitUnknown"}
    try:
        tree = ast.parse((common.REPO / "src/mxlpy/model.py").read_text())
        fn = next(f for n in tree.body if isinstance(n, ast.ClassDef) and n.name == "Model"
                  for f in n.body if isinstance(f, ast.FunctionDef) and f.name == "_create_cache")
        seeds = [st for st in fn.body if isinstance(st, ast.Assign) and len(st.targets) == 1
                 and isinstance(st.targets[0], ast.Name) and st.targets[0].id == "all_parameter_names"]
        inits = [st for st in fn.body if isinstance(st, (ast.Assign, ast.AnnAssign))
                 and isinstance((st.targets[0] if isinstance(st, ast.Assign) else st.target), ast.Name)
                 and (st.targets[0] if isinstance(st, ast.Assign) else st.target).id == "initial_conditions"]
        # every OTHER write to the two names (augmented assignment, .add outside the split loop ...) is covered by the
        # whole-body pin gen_cache_shape; here exactly one plain assignment each is demanded
        if len(seeds) == 1:
            out["split_seed"] = _SEED_SHAPES.get(ast.unparse(seeds[0].value), "SeedUnknown")
        if len(inits) == 1 and inits[0].value is not None:
            out["init_source"] = _INIT_SHAPES.get(ast.unparse(inits[0].value), "InitUnknown")
    except Exception:  # noqa: BLE001  (fail closed)
        pass
    return out


def gen() -> dict:
    f = dict(c01.gen())
    f["create_cache_shape"] = extract_cache_shape()
    f.update(extract_cache_kinds())
    text = (
        "(* REGENERATED from src/mxlpy/model.py (Model._create_cache) by harness/c13.py; do not edit.\n"
        "   gen_cache_shape: true = the method body is statement-for-statement the one modelled in Cache.v;\n"
        "   gen_split_seed: what the closure all_parameter_names starts from (CacheData.v);\n"
        "   gen_init_source: initial_conditions read from the values of the time-zero pass, or evaluated again (CacheDraw.v) *)\n"
        "Inductive seed_kind := SeedPar | SeedParData | SeedUnknown.\n"
        "Inductive init_kind := InitFromPass | InitAgain | InitUnknown.\n"
        f"Definition gen_cache_shape : bool := {f['create_cache_shape']}.\n"
        f"Definition gen_split_seed : seed_kind := {f['split_seed']}.\n"
        f"Definition gen_init_source : init_kind := {f['init_source']}.\n"
    )
    common.write_if_changed(common.area_dir(AREA) / "GenCacheFacts.v", text)
    return f


def observe13(m, desc) -> dict:
    from mxlpy import Simulator

    out = {
        "ic": [(un(k), common.exact_int(v)) for k, v in m.get_initial_conditions().items()],
        "pv": [(un(k), common.exact_int(v)) for k, v in m.get_parameter_values().items()],
        "dp": [un(k) for k in m.get_derived_parameter_names()],
        "dv": [un(k) for k in m.get_derived_variable_names()],
    }
    sim = Simulator(m, test_run=False)
    out["y0"] = [(un(k), common.exact_int(v)) for k, v in sim.y0.items()]
    return out


def observe_states(m, states) -> list:
    """Full argument table, named right-hand side and fluxes at every (time, state); state None = variables left at
    their default.  Entries: (t, s, args[, rhs, fluxes])."""
    per_state = []
    for t, s in states:
        mk = (lambda: None) if s is None else (lambda s=s: {nm(k): float(v) for k, v in s.items()})
        a = m.get_args(mk(), time=float(t))
        r = m.get_right_hand_side(mk(), time=float(t))
        f = m.get_fluxes(mk(), time=float(t))
        per_state.append((t, s, [(un(k), common.exact_int(v)) for k, v in a.items()],
                          [(un(k), common.exact_int(v)) for k, v in r.items()],
                          [(un(k), common.exact_int(v)) for k, v in f.items()]))
    return per_state


def judge13(desc, orc: Oracle, obs: dict, per_state: list) -> str | None:
    ic = orc.initial_conditions()
    if obs["ic"] != [(n, ic[n]) for n, _ in desc["var"]]:
        return f"get_initial_conditions {obs['ic']} differs from the assignments resolved at t=0: {ic}"
    if obs["y0"] != obs["ic"]:
        return f"Simulator(model).y0 {obs['y0']} is not the model's initial conditions {obs['ic']}"
    exp_pv = [(n, v[1]) for n, v in desc["par"] if v[0] == "plain"]
    if obs["pv"] != exp_pv:
        return f"get_parameter_values {obs['pv']} != {exp_pv}"
    exp_dp = [n for n, _, _ in desc["der"] if orc.only_params(n)]
    exp_dv = [n for n, _, _ in desc["der"] if not orc.only_params(n)]
    if obs["dp"] != exp_dp or obs["dv"] != exp_dv:
        return f"derived parameters reported {obs['dp']} / variables {obs['dv']}; depending only on parameters: {exp_dp} / not: {exp_dv}"
    # frozen vs recomputed: compare the args at every state with the oracle and with each other
    init_env = orc.initial_env()
    frozen = set(exp_dp) | {n for n, v in desc["par"] if v[0] == "ia"}
    for t, s, args, *more in per_state:
        d = dict(args)
        st = ic if s is None else s
        memo: dict = {}
        if more:
            # "every other derived quantity, flux and computed coefficient is recomputed from the state supplied":
            # judged through the named right-hand side (which evaluates the computed coefficients) and the fluxes too
            rhs, fluxes = more
            dx = orc.rhs(st, t)
            exp_rhs = [(n, dx[n]) for n, _ in desc["var"]]
            if rhs != exp_rhs:
                return (f"get_right_hand_side at state {s}, t={t} gives {rhs}; rates and computed coefficients recomputed from "
                        f"the supplied state and time give {exp_rhs}")
            exp_fl = {f: orc.value(f, st, t, memo) for f, _ in orc.flux_entries()}
            if dict(fluxes) != exp_fl:
                return f"get_fluxes at state {s}, t={t} gives {fluxes}; recomputed from the supplied state and time: {exp_fl}"
        for k in frozen:
            if d.get(k) != init_env[k]:
                return f"{nm(k)} is a derived/assigned parameter (value {init_env[k]} at t=0) but get_args at state {s}, t={t} gives {d.get(k)}"
        for k, v in args:
            if k in orc.dat or k in frozen:
                continue
            ev = orc.value(k, st, t, memo)
            if v != ev:
                return f"{nm(k)} must be recomputed from the supplied state: get_args gives {v}, expected {ev} (state {s}, t={t})"
    return None


# ---------------------------------------------------------------------------------------
# sequences: Simulator overrides, in-place mutation of query results, looking at a simulation result
# ---------------------------------------------------------------------------------------

ALIAS_FINDING = "C13-query-results-alias-cache"
_ALIAS_STEPS_KNOWN = ("get_initial_conditions", "get_parameter_values", "Simulator.y0")


def _alias_listed() -> bool:
    return any(f.get("id") == ALIAS_FINDING for f in common.load_known_findings("C13"))


def _rejudge(m, desc, orc, states) -> str | None:
    return judge13(desc, orc, observe13(m, desc), observe_states(m, states))


def seq_sim_override(desc, orc, states, ov: list, single: bool) -> str | None:
    """Simulator(model) with the default start, an override BEFORE the first simulation, then the model is asked again."""
    from mxlpy import Simulator

    m = modelgen.build(desc)
    ic = orc.initial_conditions()
    sim = Simulator(m, test_run=False)
    if single:
        for k, v in ov:
            sim.update_variable(nm(k), float(v))
    else:
        sim.update_variables({nm(k): float(v) for k, v in ov})
    exp = [(n, dict(ov).get(n, ic[n])) for n, _ in desc["var"]]
    got = [(un(k), common.exact_int(v)) for k, v in sim.y0.items()]
    if dict(got) != dict(exp):
        return f"Simulator.update_variable(s) {[(nm(k), v) for k, v in ov]} before the first simulation: start state {got}, expected {exp}"
    bad = _rejudge(m, desc, orc, states[:2])
    if bad:
        return (f"after Simulator(model).update_variable(s)({[(nm(k), v) for k, v in ov]}) on a simulator with the default start, before "
                f"its first simulation, the MODEL answers differently: {bad}")
    return None


def alias_steps(desc):
    """(label, mutate(model)) : change IN PLACE what a public query handed out."""
    from mxlpy import Simulator

    def bump_dict(d):
        for k in list(d):
            d[k] = d[k] + 5.0
        d["n9001"] = 1.0

    def bump_series(x):
        x.iloc[:] = 99.0

    def names(getter):
        def go(m):
            getattr(m, getter)().append("n9003")
        return go

    def y0(m):
        bump_dict(Simulator(m, test_run=False).y0)

    steps = [
        ("get_initial_conditions", lambda m: bump_dict(m.get_initial_conditions())),
        ("get_parameter_values", lambda m: bump_dict(m.get_parameter_values())),
        ("Simulator.y0", y0),
        ("get_args", lambda m: bump_series(m.get_args())),
        ("get_fluxes", lambda m: bump_series(m.get_fluxes())),
        ("get_right_hand_side", lambda m: bump_series(m.get_right_hand_side())),
    ]
    if desc["rxn"] or any(s[4] for s in desc["sur"]):
        def sto(m):
            t = m.get_stoichiometries()
            t.iloc[:, :] = 99.0
        steps.append(("get_stoichiometries", sto))
    for g in ("get_variable_names", "get_parameter_names", "get_derived_parameter_names", "get_derived_variable_names", "get_reaction_names"):
        steps.append((g, names(g)))
    return steps


def seq_alias(desc, orc, states, only: str | None = None) -> tuple[str, str] | None:
    """-> (step label, what) for the first query whose result aliases model state: after changing the returned object in
    place the model (a fresh one per step, queried once before so that its cache is filled) must answer as before."""
    for label, mutate in alias_steps(desc):
        if only is not None and label != only:
            continue
        m = modelgen.build(desc)
        m.get_args()
        mutate(m)
        bad = _rejudge(m, desc, orc, states[:1])
        if bad:
            return label, f"after changing IN PLACE the object returned by {label}(): {bad}"
    return None


class _SimTimeout(Exception):
    pass


def seq_result(desc, orc, states, ups: list) -> tuple[str | None, str]:
    """simulate -> look at the lazily computed result tables -> the model must be what it was -> update a plain
    parameter -> everything resolved again from the NEW value.  -> (what is wrong | None, note)"""
    import signal

    from mxlpy import Simulator

    def alarm(signum, frame):  # noqa: ANN001, ARG001
        raise _SimTimeout

    m = modelgen.build(desc)
    note = "looked"
    signal.signal(signal.SIGALRM, alarm)
    signal.setitimer(signal.ITIMER_REAL, 5.0)
    try:
        sim = Simulator(m, test_run=False)
        sim.simulate(0.125, steps=2)
        res = sim.get_result().value
        if hasattr(res, "variables"):
            _ = res.variables
            _ = res.fluxes
        else:
            note = "integration failed"
    except _SimTimeout:
        note = "simulation timed out"
    except Exception as e:  # noqa: BLE001  (a failing integration / result table is not what C13 is about)
        note = f"simulation raised {type(e).__name__}"
    finally:
        signal.setitimer(signal.ITIMER_REAL, 0)
    bad = _rejudge(m, desc, orc, states[:2])
    if bad:
        return f"after simulating and looking at result.variables / result.fluxes ({note}): {bad}", note
    for n, v in ups:
        m.update_parameter(nm(n), float(v))
    desc2 = apply_updates13(desc, [], ups)
    bad = _rejudge(m, desc2, Oracle(desc2), states[:2])
    if bad:
        return (f"simulate, look at the result tables ({note}), then update_parameter {[(nm(n), v) for n, v in ups]}: assignments and "
                f"everything chained through them must follow the new value: {bad}"), note
    return None, note


def stage_sim_override(run, rng, desc, orc, states, dist, budget):
    if budget["sim_override"] <= 0:
        return None
    budget["sim_override"] -= 1
    vs = [n for n, _ in desc["var"]]
    ov = [(n, rng.randint(-3, 3) + 10) for n in rng.sample(vs, min(len(vs), rng.choice([1, 1, 2])))]
    single = rng.random() < 0.5
    dist["seq_sim_override"] = dist.get("seq_sim_override", 0) + 1
    run.count_case(("sim_override", repr(desc), repr(ov), single), nontrivial=True)
    bad = seq_sim_override(desc, orc, states, ov, single)
    if bad:
        return "violation", bad, {"kind": "c13seq", "stage": "sim_override", "desc": desc, "states": states, "override": ov, "single": single}
    return None


def stage_alias(run, rng, desc, orc, states, dist, budget):
    if budget["alias"] <= 0:
        return None
    budget["alias"] -= 1
    dist["seq_alias"] = dist.get("seq_alias", 0) + 1
    run.count_case(("alias", repr(desc)), nontrivial=True)
    hit = seq_alias(desc, orc, states)
    if hit is None:
        return None
    label, what = hit
    if label in _ALIAS_STEPS_KNOWN and _alias_listed():
        # recorded finding (cache dicts handed out by get_initial_conditions / get_parameter_values); the remaining
        # steps are still checked with the known ones skipped
        for lb, _ in alias_steps(desc):
            if lb in _ALIAS_STEPS_KNOWN:
                continue
            other = seq_alias(desc, orc, states, only=lb)
            if other is not None:
                return "violation", other[1], {"kind": "c13seq", "stage": "alias", "desc": desc, "states": states, "step": lb}
        return "known", what, {}
    return "violation", what, {"kind": "c13seq", "stage": "alias", "desc": desc, "states": states, "step": label}


def stage_result_then_update(run, rng, desc, orc, states, dist, budget):
    plain_p = [n for n, v in desc["par"] if v[0] == "plain"]
    ias = [v for _, v in desc["par"] + desc["var"] if v[0] == "ia"]
    if budget["result"] <= 0 or not plain_p or not ias:
        return None
    named = [n for n in plain_p if any(n in v[2] for v in ias)]
    ups = [(rng.choice(named or plain_p), rng.randint(-3, 3))]
    desc2 = apply_updates13(desc, [], ups)
    if not c01.bounded(Oracle(desc2), states[:2]):
        return None
    budget["result"] -= 1
    run.count_case(("result", repr(desc), repr(ups)), nontrivial=True)
    bad, note = seq_result(desc, orc, states, ups)
    dist["seq_result"] = dist.get("seq_result", {})
    dist["seq_result"][note.split(" raised")[0]] = dist["seq_result"].get(note.split(" raised")[0], 0) + 1
    if bad:
        return "violation", bad, {"kind": "c13seq", "stage": "result", "desc": desc, "states": states, "updates_par": ups}
    return None


# ---------------------------------------------------------------------------------------
# assignment functions that are NOT pure functions of their arguments (closing round, seeded C13-8)
# ---------------------------------------------------------------------------------------


class Tape:
    """What the drawing assignment functions of one model did: (assignment name, draw index over the model's life)."""

    def __init__(self) -> None:
        self.calls: list[tuple[int, int]] = []


def drawing(base, name: int, tape: Tape):
    """An assignment function that draws: the k-th draw made by the model (k = 1, 2, ... over its whole life) adds k to the
    polynomial `base` of its arguments.  No two evaluations return the same number, so "computed ONCE" is observable:
    whatever is shown for the assigned name has to be the number of the one evaluation of this resolution."""

    def fn(*args):
        k = len(tape.calls) + 1
        tape.calls.append((name, k))
        return base(*args) + k

    fn.__name__ = f"draw_{getattr(base, '__name__', 'f')}"
    return fn


def build_drawing(desc, imp, tape: Tape):
    """modelgen.build, with the assignment functions of the names in `imp` replaced by drawing ones (public API only)."""
    from mxlpy import Model
    from mxlpy.types import InitialAssignment

    from harness import fnlib

    def valia(n, v):
        if v[0] == "plain":
            return v[1]
        fn = drawing(fnlib.FNS[v[1]], n, tape) if n in imp else fnlib.FNS[v[1]]
        return InitialAssignment(fn=fn, args=[nm(a) for a in v[2]])

    m = Model()
    for n, v in desc["dat"]:
        m.add_data(nm(n), v)
    for n, v in desc["par"]:
        m.add_parameter(nm(n), valia(n, v))
    for n, v in desc["var"]:
        m.add_variable(nm(n), valia(n, v))
    for n, fid, args in desc["der"]:
        m.add_derived(nm(n), fn=fnlib.FNS[fid], args=[nm(a) for a in args])
    for n, fid, args, st in desc["rxn"]:
        m.add_reaction(nm(n), fn=fnlib.FNS[fid], args=[nm(a) for a in args], stoichiometry={nm(c): modelgen.py_coef(cf) for c, cf in st})
    for sg in desc["sur"]:
        m.add_surrogate(nm(sg[0]), modelgen.py_surrogate(sg))
    for n, fid, args in desc["ro"]:
        m.add_readout(nm(n), fn=fnlib.FNS[fid], args=[nm(a) for a in args])
    return m


class DrawOracle(Oracle):
    """The independent evaluator for a resolution in which assignment n drew `bump[n]`: the assignment's value is its
    polynomial applied to the time-zero values of its arguments PLUS that draw; everything that names n sees that number."""

    def __init__(self, desc: dict, bump: dict[int, int]) -> None:
        super().__init__(desc)
        self.bump = dict(bump)

    def initial_env(self) -> dict[int, int]:
        from harness import fnlib

        if self._init is not None:
            return self._init
        memo: dict[int, int] = {}
        ias = {n: v for n, v in list(self.par.items()) + list(self.var.items()) if v[0] == "ia"}

        def val(n: int) -> int:
            if n in memo:
                return memo[n]
            if n == 0:
                v = 0
            elif n in ias:
                _, f, a = ias[n]
                v = fnlib.fsem(f, [val(x) for x in a]) + self.bump.get(n, 0)
            elif n in self.var:
                v = self.var[n][1]
            elif n in self.par:
                v = self.par[n][1]
            elif n in self.dat:
                v = self.dat[n]
            elif n in self.der:
                f, a = self.der[n]
                v = fnlib.fsem(f, [val(x) for x in a])
            elif n in self.rxn:
                f, a, _ = self.rxn[n]
                v = fnlib.fsem(f, [val(x) for x in a])
            elif n in self.sur_of_out:
                sg, i = self.sur_of_out[n]
                v = fnlib.fsemN(sg[1], [val(x) for x in sg[2]])[i]
            else:
                raise KeyError(n)
            memo[n] = self._chk(v)
            return memo[n]

        for n in list(ias) + list(self.var) + list(self.par) + list(self.der) + list(self.rxn) + list(self.sur_of_out):
            val(n)
        self._init = memo
        return memo


def plant_drawn_start(rng, desc: dict) -> tuple[dict, list[int]]:
    """A copy of `desc` with a new variable whose start value is an assignment (made a drawing one by the caller), a
    parameter assigned from that variable (resolved at time zero FROM it), sometimes a derived parameter behind that, and a
    reaction converting the variable that reads both.  -> (description, assignments to be made drawing ones)"""
    from harness import fnlib

    d = modelgen.copy_desc(desc)
    fresh = modelgen._fresh_from(d)
    plain_p = [n for n, v in d["par"] if v[0] == "plain"]
    old_vars = [n for n, _ in d["var"]]
    y = fresh()
    ar = rng.choice([0, 1, 2])
    d["var"].append((y, ("ia", rng.choice(fnlib.BY_ARITY[ar]), [rng.choice(plain_p) for _ in range(ar)])))
    ytot = fresh()
    if rng.random() < 0.5:
        d["par"].append((ytot, ("ia", 0, [y])))  # y_total = y
    else:
        a = [y, rng.choice(plain_p)]
        rng.shuffle(a)
        d["par"].append((ytot, ("ia", rng.choice([2, 3, 4]), a)))
    if rng.random() < 0.4:
        dp = fresh()
        d["der"].append((dp, rng.choice(fnlib.BY_ARITY[2]), [ytot, rng.choice(plain_p)]))
    r = fresh()
    d["rxn"].append((r, rng.choice([2, 3, 4]), [y, ytot], [(y, ("stat", -1)), (rng.choice(old_vars), ("stat", 1))]))
    imp = [y] + [n for n, v in desc["par"] + desc["var"] if v[0] == "ia" and rng.random() < 0.5]
    if rng.random() < 0.4:
        imp.append(ytot)  # the assigned parameter draws as well
    for k in ("par", "var", "der", "rxn"):
        rng.shuffle(d[k])
    return d, imp


def judge_drawn(desc, imp, calls, obs, per_state) -> str | None:
    """One resolution of the model (`calls` = the draws made since the previous one): every drawing assignment was
    evaluated exactly once, and every number shown (initial conditions, default state, Simulator start, assigned and derived
    parameters, fluxes, right-hand side) is resolved from THAT evaluation."""
    names = [n for n, _ in calls]
    first = {}
    for n, k in calls:
        first.setdefault(n, k)
    cnt = {n: names.count(n) for n in imp}
    orc = DrawOracle(desc, first)
    bad = judge13(desc, orc, obs, per_state)
    often = {nm(n): c for n, c in cnt.items() if c != 1}
    if bad:
        return (f"{bad} -- the assignment functions of {[nm(n) for n in imp]} draw (the k-th draw of the model adds k to a polynomial of "
                f"the arguments); draws made in this resolution, in call order: {[(nm(n), k) for n, k in calls]}"
                + (f"; evaluated more or less than once: {often}" if often else ""))
    if often:
        return (f"initial assignments must be computed once per resolution of the model; number of evaluations in this resolution: {often} "
                f"(draws in call order: {[(nm(n), k) for n, k in calls]})")
    return None


def seq_drawn(desc, imp, states, ups_v, ups_p) -> tuple[str | None, list]:
    """build -> ask everything (first resolution) -> edit a plain start value / parameter through the public API -> ask
    everything again (second resolution).  -> (what is wrong | None, [(desc_k, offset, calls, obs)] per resolution)"""
    tape = Tape()
    m = build_drawing(desc, set(imp), tape)
    seen = []
    cur = desc
    for k in range(2):
        if k == 1:
            if not ups_v and not ups_p:
                break
            for n, v in ups_v:
                m.update_variable(nm(n), float(v))
            for n, v in ups_p:
                m.update_parameter(nm(n), float(v))
            cur = apply_updates13(desc, ups_v, ups_p)
        mark = len(tape.calls)
        obs = observe13(m, cur)
        per_state = observe_states(m, states)
        calls = tape.calls[mark:]
        # what was seen goes to the Coq correspondence whether or not the judge accepts it: the stateful model is run
        # in the shape the regenerated fact gen_init_source names and must agree with the code AS IT IS
        seen.append((cur, mark, calls, obs, per_state))
        bad = judge_drawn(cur, imp, calls, obs, per_state)
        if bad:
            pre = "" if k == 0 else f"after update_variable {[(nm(n), v) for n, v in ups_v]} / update_parameter {[(nm(n), v) for n, v in ups_p]}: "
            return pre + bad, seen
    return None, seen


def run_drawn(run: Run, n_models: int):
    """Own random stream ("c13-draw"): the main stream is untouched."""
    rng = common.rng_for(run.seed, "c13-draw")
    dist = {"models": 0, "discarded_unbounded": 0, "resolutions": 0, "drawing_assignments": 0, "drawn_value_named_by_assignment": 0,
            "drawn_value_behind_derived_parameter": 0}
    out = []
    n_viol = 0
    for i in range(n_models):
        desc, imp = plant_drawn_start(rng, modelgen.gen_model(rng, ia_bias=0.9, max_comp=5))
        states = [(0, None), (rng.randint(1, 4), None), modelgen.gen_state(rng, desc)]
        plain_v = [n for n, v in desc["var"] if v[0] == "plain"]
        plain_p = [n for n, v in desc["par"] if v[0] == "plain"]
        ups_v = [(n, rng.randint(-3, 3)) for n in rng.sample(plain_v, min(len(plain_v), rng.choice([0, 1])))]
        ups_p = [(n, rng.randint(-3, 3)) for n in rng.sample(plain_p, min(len(plain_p), rng.choice([0, 1, 1])))]
        run.count_case(("c13draw", repr(desc), repr(imp), repr(states), repr(ups_v), repr(ups_p)), nontrivial=True)
        try:
            bad, seen = seq_drawn(desc, imp, states, ups_v, ups_p)
        except Unbounded:
            dist["discarded_unbounded"] += 1
            continue
        except Exception as e:  # noqa: BLE001
            bad, seen = f"well-formed model with drawing assignment functions raised {type(e).__name__}: {e}", []
        dist["models"] += 1
        dist["resolutions"] += len(seen)
        dist["drawing_assignments"] += len(imp)
        ias = {n: v for n, v in desc["par"] + desc["var"] if v[0] == "ia"}
        dist["drawn_value_named_by_assignment"] += sum(1 for v in ias.values() if set(v[2]) & set(imp))
        dist["drawn_value_behind_derived_parameter"] += sum(1 for _, _, a in desc["der"] if set(a) & set(ias))
        out += [(d, imp, off, calls, obs, ps) for d, off, calls, obs, ps in seen]
        if bad:
            if n_viol < 3:
                n_viol += 1
                run.violation(f"C13 {bad}", {"kind": "c13draw", "desc": desc, "imp": imp, "states": states, "updates_var": ups_v, "updates_par": ups_p})
            continue
        if i == 0:
            run.sample({"model_with_drawing_assignments": desc, "drawing": imp})
    return out, dist


def coq_case13(desc, obs) -> str:
    return (
        f"({modelgen.coq_model(desc)}, {c01.coq_pairs(obs['ic'])}, {c01.coq_pairs(obs['pv'])}, "
        f"{clist(map(cn, obs['dp']))}, {clist(map(cn, obs['dv']))})"
    )


def coq_case13d(desc, imp, off, calls, obs, per_state) -> str:
    args0 = dict(per_state[0][2])  # argument table at the default state, t = 0
    ia_par = [(n, args0[n]) for n, v in desc["par"] if v[0] == "ia"]
    return (
        f"({modelgen.coq_model(desc)}, {clist(map(cn, imp))}, {common.cz(off)}, {c01.coq_pairs(obs['ic'])}, "
        f"{c01.coq_pairs(ia_par)}, {clist(cn(n) for n, _ in calls)})"
    )


def corr_file_d(cases: list[str]) -> str:
    return (
        c01.CORR_HEADER.replace("CorrC01.", "CorrC01 CacheDraw GenCacheFacts CorrC13d.")
        + "Definition cases : list c13d_case := [\n  "
        + ";\n  ".join(cases)
        + "\n].\nEval vm_compute in (filter_idx (fun c => negb (c13d_case_ok c)) cases).\n"
    )


def corr_file(cases: list[str]) -> str:
    return (
        c01.CORR_HEADER
        + "Definition cases : list c13_case := [\n  "
        + ";\n  ".join(cases)
        + "\n].\nEval vm_compute in (filter_idx (fun c => negb (c13_case_ok c)) cases).\n"
    )


def check(run: Run) -> None:
    thorough = run.tier == "thorough"
    run.coverage["gen_facts"] = gen()
    run.rule = (
        "random well-formed models biased towards initial assignments (on variables and parameters, chained through derived "
        "quantities, reaction rates, surrogate outputs and each other); observed: initial conditions, parameter values, derived "
        "parameter/variable names, Simulator default y0, and the full argument table at the declared initial state and two other "
        "states/times (frozen vs recomputed); non-trivial = model has an initial assignment or a derived quantity; distinct by model; "
        "own stream 'c13-draw': models with a planted variable whose assignment function DRAWS (k-th draw of the model = polynomial + k), "
        "a parameter assigned from it and a derived parameter behind it; two resolutions per model around a public edit; judged: "
        "exactly one evaluation per resolution and every shown number resolved from it"
    )
    run.check_proofs(PROOF_AREA, PROPS)
    run.assumptions += [
        "Coq 8.16.1 kernel + vm_compute; theorems closed under the global context (see trusted_base)",
        "function meaning abstracted as fsem/fsemN; floats modelled as Z (exact for the polynomial library); arity check outside the model",
        "correspondence harness and canonicalisers are trusted glue",
    ]
    rng = common.rng_for(run.seed, "c13")
    n_models = 1500 if thorough else 300
    cases, descs = [], []
    cases01: list[str] = []
    dist = {"models": 0, "discarded_unbounded": 0, "ia_on_variable": 0, "ia_on_parameter": 0, "ia_chain": 0,
            "derived_parameters": 0, "derived_variables": 0}
    n_viol = 0
    alias_reported = False
    budget = {"sim_override": 400 if thorough else 90, "alias": 300 if thorough else 60, "result": 200 if thorough else 40}
    for i in range(n_models):
        desc = modelgen.gen_model(rng, ia_bias=0.9, max_comp=9)
        orc = Oracle(desc)
        # declared initial state at t = 0 and (variables=None) at a later time, two supplied states at random times
        states = [(0, None), (rng.randint(1, 4), None)] + [modelgen.gen_state(rng, desc) for _ in range(2)]
        if not c01.bounded(orc, states):
            dist["discarded_unbounded"] += 1
            continue
        dist["models"] += 1
        ias = {n: v for n, v in desc["par"] + desc["var"] if v[0] == "ia"}
        dist["ia_on_variable"] += any(v[0] == "ia" for _, v in desc["var"])
        dist["ia_on_parameter"] += any(v[0] == "ia" for _, v in desc["par"])
        dist["ia_chain"] += any(set(v[2]) & set(ias) for v in ias.values())
        dist["derived_parameters"] += sum(orc.only_params(n) for n, _, _ in desc["der"])
        dist["derived_variables"] += sum(not orc.only_params(n) for n, _, _ in desc["der"])
        run.count_case(repr(desc), nontrivial=bool(ias) or bool(desc["der"]))
        try:
            m = modelgen.build(desc)
            obs = observe13(m, desc)
            per_state = observe_states(m, states)
            bad = judge13(desc, orc, obs, per_state)
        except Exception as e:  # noqa: BLE001
            bad = f"well-formed model raised {type(e).__name__}: {e}"
        if bad:
            if n_viol < 4:
                n_viol += 1
                run.violation(f"C13 {bad}", {"kind": "c13", "desc": desc, "states": states})
            continue
        # sequences around Simulator / in-place mutation of query results / looking at a simulation result
        for stage in (stage_sim_override, stage_alias, stage_result_then_update):
            try:
                res = stage(run, rng, desc, orc, states, dist, budget)
            except Exception as e:  # noqa: BLE001
                res = ("violation", f"{stage.__name__}: well-formed model raised {type(e).__name__}: {e}", {"kind": "c13seq", "stage": stage.__name__, "desc": desc, "states": states})
            if res is None:
                continue
            verdict, what, rep = res
            if verdict == "known":
                if not alias_reported:
                    alias_reported = True
                    run.known(ALIAS_FINDING, what)
            elif n_viol < 4:
                n_viol += 1
                run.violation(f"C13 {what}", rep)
        cases.append(coq_case13(desc, obs))
        descs.append(desc)
        if i == 0:
            run.sample({"model": desc, "observed": obs})
        # the declared initial state / plain parameters edited through the public API AFTER the queries above
        # filled the cache: assignments must be resolved again from the NEW declared state
        plain_v = [n for n, v in desc["var"] if v[0] == "plain"]
        plain_p = [n for n, v in desc["par"] if v[0] == "plain"]
        if plain_v or plain_p:
            ups_v = [(n, rng.randint(-3, 3)) for n in rng.sample(plain_v, min(len(plain_v), rng.choice([0, 1, 1, 2])))]
            ups_p = [(n, rng.randint(-3, 3)) for n in rng.sample(plain_p, min(len(plain_p), rng.choice([0, 1, 1])))]
            if not ups_v and not ups_p:
                ups_v = [(n, rng.randint(-3, 3)) for n in plain_v[:1]]
                ups_p = [] if ups_v else [(n, rng.randint(-3, 3)) for n in plain_p[:1]]
            desc2 = apply_updates13(desc, ups_v, ups_p)
            orc2 = Oracle(desc2)
            if not c01.bounded(orc2, states):
                dist["discarded_unbounded"] += 1
                continue
            dist["after_update"] = dist.get("after_update", 0) + 1
            run.count_case(("upd", repr(desc), repr(ups_v), repr(ups_p)), nontrivial=True)
            try:
                for n, v in ups_v:
                    m.update_variable(nm(n), float(v))
                for n, v in ups_p:
                    m.update_parameter(nm(n), float(v))
                obs2 = observe13(m, desc2)
                per_state = observe_states(m, states)
                bad = judge13(desc2, orc2, obs2, per_state)
            except Exception as e:  # noqa: BLE001
                bad = f"well-formed model raised {type(e).__name__}: {e}"
            if bad:
                if n_viol < 4:
                    n_viol += 1
                    run.violation(f"C13 after update_variable {[(nm(n), v) for n, v in ups_v]} / update_parameter {[(nm(n), v) for n, v in ups_p]} (queried before): {bad}",
                                  {"kind": "c13", "desc": desc, "states": states, "updates_var": ups_v, "updates_par": ups_p})
                continue
            cases.append(coq_case13(desc2, obs2))
            descs.append(desc2)
    drawn, dist_d = run_drawn(run, 400 if thorough else 80)
    dist["drawing_assignments"] = dist_d
    run.coverage["input_distribution"] = dist
    files = {f"c13_{k:04d}": corr_file(chunk) for k, chunk in enumerate(common.chunks(cases, 200))}
    n_plain = len(files)
    dcases = [coq_case13d(*x) for x in drawn]
    for k, chunk in enumerate(common.chunks(dcases, 200)):
        files[f"c13d_{k:04d}"] = corr_file_d(chunk)
    res = common.coq_eval_many(AREA, files, timeout_s=900)
    mism = 0
    for k, name in enumerate(sorted(n for n in files if n.startswith("c13_"))):
        ok, out = res[name]
        lists = common.parse_eval_list(out) if ok else None
        if not ok or not lists:
            run.broken_correspondence.append(f"correspondence shard {name} did not evaluate: {out[-400:]}")
            continue
        for j in lists[-1]:
            mism += 1
            if len(run.broken_correspondence) < 4:
                run.broken_correspondence.append(f"model/implementation disagree on C13 observations: desc={descs[k * 200 + j]}")
    for k, name in enumerate(sorted(n for n in files if n.startswith("c13d_"))):
        ok, out = res[name]
        lists = common.parse_eval_list(out) if ok else None
        if not ok or not lists:
            run.broken_correspondence.append(f"correspondence shard {name} did not evaluate: {out[-400:]}")
            continue
        for j in lists[-1]:
            mism += 1
            if len(run.broken_correspondence) < 4:
                d, imp, off, calls, _, _ = drawn[k * 200 + j]
                run.broken_correspondence.append(f"stateful model (CacheDraw.v) / implementation disagree: desc={d} drawing={imp} draws_before={off} calls={calls}")
    assert n_plain + len([n for n in files if n.startswith("c13d_")]) == len(files)
    cases = cases + dcases
    run.coverage["correspondence_cases"] = {"pure": len(cases) - len(dcases), "drawing_assignment_resolutions": len(dcases)}
    run.coverage["traces_validated_against_impl"] = len(cases) - mism
    run.coverage["correspondence_mismatches"] = mism


def apply_updates13(desc, ups_v, ups_p):
    d2 = {k: list(v) for k, v in desc.items()}
    nv, np_ = dict(ups_v), dict(ups_p)
    d2["var"] = [(n, ("plain", nv[n])) if n in nv else (n, v) for n, v in desc["var"]]
    d2["par"] = [(n, ("plain", np_[n])) if n in np_ else (n, v) for n, v in desc["par"]]
    return d2


def replay(rep: dict) -> int:
    r = rep["replay"]
    if "desc" not in r:
        print("nothing to replay: ", rep.get("what"))
        return 1
    desc = {k: [c01._tup(x) for x in v] for k, v in r["desc"].items()}
    if r.get("kind") == "c13draw":
        states = [(t, None if s is None else {int(k): v for k, v in s.items()}) for t, s in r["states"]]
        try:
            bad = seq_drawn(desc, list(r["imp"]), states, [tuple(u) for u in r["updates_var"]], [tuple(u) for u in r["updates_par"]])[0]
        except Exception as e:  # noqa: BLE001
            bad = f"raised {type(e).__name__}: {e}"
        print(bad or "property holds on this input")
        return 1 if bad else 0
    if r.get("kind") == "c13seq":
        states = [(t, None if s is None else {int(k): v for k, v in s.items()}) for t, s in r["states"]]
        orc = Oracle(desc)
        try:
            if r["stage"] == "sim_override":
                bad = seq_sim_override(desc, orc, states, [tuple(x) for x in r["override"]], bool(r["single"]))
            elif r["stage"] == "alias":
                hit = seq_alias(desc, orc, states, only=r.get("step"))
                bad = hit[1] if hit else None
            elif r["stage"] == "result":
                bad = seq_result(desc, orc, states, [tuple(x) for x in r["updates_par"]])[0]
            else:
                bad = seq_alias(desc, orc, states) or seq_result(desc, orc, states, [])[0]
        except Exception as e:  # noqa: BLE001
            bad = f"raised {type(e).__name__}: {e}"
        print(bad or "property holds on this input")
        return 1 if bad else 0
    ups_v = [tuple(u) for u in r.get("updates_var", [])]
    ups_p = [tuple(u) for u in r.get("updates_par", [])]
    try:
        m = modelgen.build(desc)
        if ups_v or ups_p:
            observe13(m, desc)
            m.get_args(None, time=0.0)
            for n, v in ups_v:
                m.update_variable(nm(n), float(v))
            for n, v in ups_p:
                m.update_parameter(nm(n), float(v))
            desc = apply_updates13(desc, ups_v, ups_p)
        orc = Oracle(desc)
        obs = observe13(m, desc)
        states = [(t, None if s is None else {int(k): v for k, v in s.items()}) for t, s in r["states"]]
        bad = judge13(desc, orc, obs, observe_states(m, states))
    except Exception as e:  # noqa: BLE001
        bad = f"raised {type(e).__name__}: {e}"
    print(bad or "property holds on this input")
    return 1 if bad else 0
