"""C13 -- initial assignments resolve once at t=0; derived parameters are state-free.

Shares the core model (coq/core: Cache.v, Query.v) and the generator with C01, biased towards initial
assignments (on variables and parameters, chained through derived quantities, rates and each other).
Oracle: harness/modelgen.Oracle (demand-driven recursion; `only_params` = inductive reachability)."""

from __future__ import annotations

from harness import c01, common, modelgen
from harness.common import Run, clist, cn
from harness.modelgen import Oracle, Unbounded, nm, un

AREA = "core"
PROPS = "PropsC13.v"
PROOF_AREA = "coreproofs"


# Model._create_cache, statement for statement (ast-normalised: docstring and comments dropped), as modelled in
# coq/core/Cache.v.  Any edit of the cache construction flips the regenerated fact and breaks C13_cache_shape_pinned.
_CREATE_CACHE_SHAPE = """parameter_names = set(self._parameters)
all_parameter_names = set(parameter_names)
base_parameter_values: dict[str, float] = {k: val for k, v in self._parameters.items() if not isinstance((val := v.value), InitialAssignment)}
base_variable_values: dict[str, float] = {k: init for k, v in self._variables.items() if not isinstance((init := v.initial_value), InitialAssignment)}
initial_assignments: dict[str, InitialAssignment] = {k: init for k, v in self._variables.items() if isinstance((init := v.initial_value), InitialAssignment)} | {k: init for k, v in self._parameters.items() if isinstance((init := v.value), InitialAssignment)}
for name, el in it.chain(initial_assignments.items(), self._derived.items(), self._reactions.items(), self._readouts.items()):
    if not _check_function_arity(el.fn, len(el.args)):
        raise ArityMismatchError(name, el.fn, el.args)
available = set(base_parameter_values) | set(base_variable_values) | set(self._data) | {'time'}
to_sort = initial_assignments | self._derived | self._reactions | self._surrogates
order = _sort_dependencies(available=available, elements=[Dependency(name=k, required=set(v.args), provided={k}) if not isinstance(v, AbstractSurrogate) else Dependency(name=k, required=set(v.args), provided=set(v.outputs)) for k, v in to_sort.items()])
dependent = base_parameter_values | base_variable_values | self._data | {'time': 0.0}
for name in order:
    to_sort[name].calculate_inpl(name, dependent)
static_order = []
dyn_order = []
for name in order:
    if name in self._reactions or name in self._surrogates:
        dyn_order.append(name)
    elif name in self._variables or name in self._parameters:
        static_order.append(name)
    else:
        derived = self._derived[name]
        if all((i in all_parameter_names for i in derived.args)):
            static_order.append(name)
            all_parameter_names.add(name)
        else:
            dyn_order.append(name)
stoich_by_compounds: dict[str, dict[str, float]] = {}
dyn_stoich_by_compounds: dict[str, dict[str, Derived]] = {}
for rxn_name, rxn in self._reactions.items():
    for cpd_name, factor in rxn.stoichiometry.items():
        d_static = stoich_by_compounds.setdefault(cpd_name, {})
        if isinstance(factor, Derived):
            if all((i in all_parameter_names for i in factor.args)):
                d_static[rxn_name] = factor.calculate(dependent)
            else:
                dyn_stoich_by_compounds.setdefault(cpd_name, {})[rxn_name] = factor
        else:
            d_static[rxn_name] = factor
for surrogate in self._surrogates.values():
    for rxn_name, rxn in surrogate.stoichiometries.items():
        for cpd_name, factor in rxn.items():
            d_static = stoich_by_compounds.setdefault(cpd_name, {})
            if isinstance(factor, Derived):
                if all((i in all_parameter_names for i in factor.args)):
                    d_static[rxn_name] = factor.calculate(dependent)
                else:
                    dyn_stoich_by_compounds.setdefault(cpd_name, {})[rxn_name] = factor
            else:
                d_static[rxn_name] = factor
var_names = self.get_variable_names()
initial_conditions: dict[str, float] = {k: cast(float, dependent[k]) for k in self._variables}
all_parameter_values = dict(base_parameter_values)
for name in static_order:
    if name in self._variables:
        continue
    if name in self._parameters or name in self._derived:
        all_parameter_values[name] = cast(float, dependent[name])
    else:
        msg = 'Unknown target for static derived variable.'
        raise KeyError(msg)
self._cache = ModelCache(order=order, var_names=var_names, dyn_order=dyn_order, base_parameter_values=base_parameter_values, all_parameter_values=all_parameter_values, stoich_by_cpds=stoich_by_compounds, dyn_stoich_by_cpds=dyn_stoich_by_compounds, initial_conditions=initial_conditions)
return self._cache"""


def extract_cache_shape() -> str:
    import ast

    tree = ast.parse((common.REPO / "src/mxlpy/model.py").read_text())
    return "true" if c01._method_body(tree, "Model", "_create_cache") == _CREATE_CACHE_SHAPE else "false"


def gen() -> dict:
    f = dict(c01.gen())
    f["create_cache_shape"] = extract_cache_shape()
    text = (
        "(* REGENERATED from src/mxlpy/model.py (Model._create_cache) by harness/c13.py; do not edit.\n"
        "   true = the method body is statement-for-statement the one modelled in Cache.v *)\n"
        f"Definition gen_cache_shape : bool := {f['create_cache_shape']}.\n"
    )
    common.write_if_changed(common.area_dir(AREA) / "GenCacheFacts.v", text)
    return f


def observe13(m, desc) -> dict:
    from mxlpy import Simulator

    out = {
        "ic": [(un(k), common.exact_int(v)) for k, v in m.get_initial_conditions().items()],
        "pv": [(un(k), common.exact_int(v)) for k, v in m.get_parameter_values().items()],
        "dp": [un(k) for k in m.get_derived_parameter_names()],
        "dv": [un(k) for k in m.get_derived_variable_names()],
    }
    sim = Simulator(m, test_run=False)
    out["y0"] = [(un(k), common.exact_int(v)) for k, v in sim.y0.items()]
    return out


def judge13(desc, orc: Oracle, obs: dict, per_state: list) -> str | None:
    ic = orc.initial_conditions()
    if obs["ic"] != [(n, ic[n]) for n, _ in desc["var"]]:
        return f"get_initial_conditions {obs['ic']} differs from the assignments resolved at t=0: {ic}"
    if obs["y0"] != obs["ic"]:
        return f"Simulator(model).y0 {obs['y0']} is not the model's initial conditions {obs['ic']}"
    exp_pv = [(n, v[1]) for n, v in desc["par"] if v[0] == "plain"]
    if obs["pv"] != exp_pv:
        return f"get_parameter_values {obs['pv']} != {exp_pv}"
    exp_dp = [n for n, _, _ in desc["der"] if orc.only_params(n)]
    exp_dv = [n for n, _, _ in desc["der"] if not orc.only_params(n)]
    if obs["dp"] != exp_dp or obs["dv"] != exp_dv:
        return f"derived parameters reported {obs['dp']} / variables {obs['dv']}; depending only on parameters: {exp_dp} / not: {exp_dv}"
    # frozen vs recomputed: compare the args at every state with the oracle and with each other
    init_env = orc.initial_env()
    frozen = set(exp_dp) | {n for n, v in desc["par"] if v[0] == "ia"}
    for t, s, args in per_state:
        d = dict(args)
        st = ic if s is None else s
        memo: dict = {}
        for k in frozen:
            if d.get(k) != init_env[k]:
                return f"{nm(k)} is a derived/assigned parameter (value {init_env[k]} at t=0) but get_args at state {s}, t={t} gives {d.get(k)}"
        for k, v in args:
            if k in orc.dat or k in frozen:
                continue
            ev = orc.value(k, st, t, memo)
            if v != ev:
                return f"{nm(k)} must be recomputed from the supplied state: get_args gives {v}, expected {ev} (state {s}, t={t})"
    return None


def coq_case13(desc, obs) -> str:
    return (
        f"({modelgen.coq_model(desc)}, {c01.coq_pairs(obs['ic'])}, {c01.coq_pairs(obs['pv'])}, "
        f"{clist(map(cn, obs['dp']))}, {clist(map(cn, obs['dv']))})"
    )


def corr_file(cases: list[str]) -> str:
    return (
        c01.CORR_HEADER
        + "Definition cases : list c13_case := [\n  "
        + ";\n  ".join(cases)
        + "\n].\nEval vm_compute in (filter_idx (fun c => negb (c13_case_ok c)) cases).\n"
    )


def check(run: Run) -> None:
    thorough = run.tier == "thorough"
    run.coverage["gen_facts"] = gen()
    run.rule = (
        "random well-formed models biased towards initial assignments (on variables and parameters, chained through derived "
        "quantities, reaction rates, surrogate outputs and each other); observed: initial conditions, parameter values, derived "
        "parameter/variable names, Simulator default y0, and the full argument table at the declared initial state and two other "
        "states/times (frozen vs recomputed); non-trivial = model has an initial assignment or a derived quantity; distinct by model"
    )
    run.check_proofs(PROOF_AREA, PROPS)
    run.assumptions += [
        "Coq 8.16.1 kernel + vm_compute; theorems closed under the global context (see trusted_base)",
        "function meaning abstracted as fsem/fsemN; floats modelled as Z (exact for the polynomial library); arity check outside the model",
        "correspondence harness and canonicalisers are trusted glue",
    ]
    rng = common.rng_for(run.seed, "c13")
    n_models = 1500 if thorough else 300
    cases, descs = [], []
    cases01: list[str] = []
    dist = {"models": 0, "discarded_unbounded": 0, "ia_on_variable": 0, "ia_on_parameter": 0, "ia_chain": 0,
            "derived_parameters": 0, "derived_variables": 0}
    n_viol = 0
    for i in range(n_models):
        desc = modelgen.gen_model(rng, ia_bias=0.9, max_comp=9)
        orc = Oracle(desc)
        states = [(0, None)] + [modelgen.gen_state(rng, desc) for _ in range(2)]
        try:
            orc.initial_env()
            for t, s in states:
                for k in orc.all_names():
                    orc.value(k, orc.initial_conditions() if s is None else s, t)
        except Unbounded:
            dist["discarded_unbounded"] += 1
            continue
        dist["models"] += 1
        ias = {n: v for n, v in desc["par"] + desc["var"] if v[0] == "ia"}
        dist["ia_on_variable"] += any(v[0] == "ia" for _, v in desc["var"])
        dist["ia_on_parameter"] += any(v[0] == "ia" for _, v in desc["par"])
        dist["ia_chain"] += any(set(v[2]) & set(ias) for v in ias.values())
        dist["derived_parameters"] += sum(orc.only_params(n) for n, _, _ in desc["der"])
        dist["derived_variables"] += sum(not orc.only_params(n) for n, _, _ in desc["der"])
        run.count_case(repr(desc), nontrivial=bool(ias) or bool(desc["der"]))
        try:
            m = modelgen.build(desc)
            obs = observe13(m, desc)
            per_state = []
            for t, s in states:
                vars_d = None if s is None else {nm(k): float(v) for k, v in s.items()}
                a = m.get_args(vars_d, time=float(t))
                per_state.append((t, s, [(un(k), common.exact_int(v)) for k, v in a.items()]))
            bad = judge13(desc, orc, obs, per_state)
        except Exception as e:  # noqa: BLE001
            bad = f"well-formed model raised {type(e).__name__}: {e}"
        if bad:
            if n_viol < 4:
                n_viol += 1
                run.violation(f"C13 {bad}", {"kind": "c13", "desc": desc, "states": states})
            continue
        cases.append(coq_case13(desc, obs))
        descs.append(desc)
        if i == 0:
            run.sample({"model": desc, "observed": obs})
        # the declared initial state / plain parameters edited through the public API AFTER the queries above
        # filled the cache: assignments must be resolved again from the NEW declared state
        plain_v = [n for n, v in desc["var"] if v[0] == "plain"]
        plain_p = [n for n, v in desc["par"] if v[0] == "plain"]
        if plain_v or plain_p:
            ups_v = [(n, rng.randint(-3, 3)) for n in rng.sample(plain_v, min(len(plain_v), rng.choice([0, 1, 1, 2])))]
            ups_p = [(n, rng.randint(-3, 3)) for n in rng.sample(plain_p, min(len(plain_p), rng.choice([0, 1, 1])))]
            if not ups_v and not ups_p:
                ups_v = [(n, rng.randint(-3, 3)) for n in plain_v[:1]]
                ups_p = [] if ups_v else [(n, rng.randint(-3, 3)) for n in plain_p[:1]]
            desc2 = apply_updates13(desc, ups_v, ups_p)
            orc2 = Oracle(desc2)
            try:
                orc2.initial_env()
                for t, s in states:
                    for k in orc2.all_names():
                        orc2.value(k, orc2.initial_conditions() if s is None else s, t)
            except Unbounded:
                dist["discarded_unbounded"] += 1
                continue
            dist["after_update"] = dist.get("after_update", 0) + 1
            run.count_case(("upd", repr(desc), repr(ups_v), repr(ups_p)), nontrivial=True)
            try:
                for n, v in ups_v:
                    m.update_variable(nm(n), float(v))
                for n, v in ups_p:
                    m.update_parameter(nm(n), float(v))
                obs2 = observe13(m, desc2)
                per_state = []
                for t, s in states:
                    vars_d = None if s is None else {nm(k): float(v) for k, v in s.items()}
                    a = m.get_args(vars_d, time=float(t))
                    per_state.append((t, s, [(un(k), common.exact_int(v)) for k, v in a.items()]))
                bad = judge13(desc2, orc2, obs2, per_state)
            except Exception as e:  # noqa: BLE001
                bad = f"well-formed model raised {type(e).__name__}: {e}"
            if bad:
                if n_viol < 4:
                    n_viol += 1
                    run.violation(f"C13 after update_variable {[(nm(n), v) for n, v in ups_v]} / update_parameter {[(nm(n), v) for n, v in ups_p]} (queried before): {bad}",
                                  {"kind": "c13", "desc": desc, "states": states, "updates_var": ups_v, "updates_par": ups_p})
                continue
            cases.append(coq_case13(desc2, obs2))
            descs.append(desc2)
    run.coverage["input_distribution"] = dist
    files = {f"c13_{k:04d}": corr_file(chunk) for k, chunk in enumerate(common.chunks(cases, 200))}
    res = common.coq_eval_many(AREA, files, timeout_s=900)
    mism = 0
    for k, name in enumerate(sorted(files)):
        ok, out = res[name]
        lists = common.parse_eval_list(out) if ok else None
        if not ok or not lists:
            run.broken_correspondence.append(f"correspondence shard {name} did not evaluate: {out[-400:]}")
            continue
        for j in lists[-1]:
            mism += 1
            if len(run.broken_correspondence) < 4:
                run.broken_correspondence.append(f"model/implementation disagree on C13 observations: desc={descs[k * 200 + j]}")
    run.coverage["traces_validated_against_impl"] = len(cases) - mism
    run.coverage["correspondence_mismatches"] = mism


def apply_updates13(desc, ups_v, ups_p):
    d2 = {k: list(v) for k, v in desc.items()}
    nv, np_ = dict(ups_v), dict(ups_p)
    d2["var"] = [(n, ("plain", nv[n])) if n in nv else (n, v) for n, v in desc["var"]]
    d2["par"] = [(n, ("plain", np_[n])) if n in np_ else (n, v) for n, v in desc["par"]]
    return d2


def replay(rep: dict) -> int:
    r = rep["replay"]
    desc = {k: [c01._tup(x) for x in v] for k, v in r["desc"].items()}
    ups_v = [tuple(u) for u in r.get("updates_var", [])]
    ups_p = [tuple(u) for u in r.get("updates_par", [])]
    try:
        m = modelgen.build(desc)
        if ups_v or ups_p:
            observe13(m, desc)
            m.get_args(None, time=0.0)
            for n, v in ups_v:
                m.update_variable(nm(n), float(v))
            for n, v in ups_p:
                m.update_parameter(nm(n), float(v))
            desc = apply_updates13(desc, ups_v, ups_p)
        orc = Oracle(desc)
        obs = observe13(m, desc)
        per_state = []
        for t, s in r["states"]:
            s = None if s is None else {int(k): v for k, v in s.items()}
            vars_d = None if s is None else {nm(k): float(v) for k, v in s.items()}
            a = m.get_args(vars_d, time=float(t))
            per_state.append((t, s, [(un(k), common.exact_int(v)) for k, v in a.items()]))
        bad = judge13(desc, orc, obs, per_state)
    except Exception as e:  # noqa: BLE001
        bad = f"raised {type(e).__name__}: {e}"
    print(bad or "property holds on this input")
    return 1 if bad else 0
