"""CLI dispatcher: ./check <ID> [--tier quick|thorough] [--replay FILE] | --setup | --lint."""

from __future__ import annotations

import argparse
import importlib
import json
import os
import sys
import time
import traceback
from pathlib import Path

from harness import common


def all_areas() -> list[str]:
    return sorted(p.parent.name for p in common.COQ.glob("*/_CoqProject"))


def setup() -> int:
    rc = 0
    # regenerate every Gen file from the current /repo first (each property module may define gen())
    for mod in sorted(Path(__file__).parent.glob("c[0-9][0-9].py")):
        try:
            m = importlib.import_module(f"harness.{mod.stem}")
            if hasattr(m, "gen"):
                m.gen()
        except Exception:  # noqa: BLE001
            traceback.print_exc()
            print(f"[setup] gen() of {mod.stem} failed (the check itself will report it)")
    for area in all_areas():
        t0 = time.time()
        r = common.coq_build(area, timeout_s=1800)
        print(f"[setup] area {area}: {'ok' if r.ok else 'FAILED'} in {time.time() - t0:.1f}s")
        if not r.ok:
            print("\n".join(r.log.splitlines()[-30:]))
            # every check rebuilds its own area and reports a failure itself; only a broken
            # shared base makes the setup as a whole fail
            if area == "base":
                rc = 1
    return rc


def regen() -> int:
    for mod in sorted(Path(__file__).parent.glob("c[0-9][0-9].py")):
        try:
            m = importlib.import_module(f"harness.{mod.stem}")
            if hasattr(m, "gen"):
                m.gen()
        except Exception:  # noqa: BLE001
            traceback.print_exc()
    return 0


def lint() -> int:
    problems = []
    for area in all_areas():
        problems += common.lint_area(area)
    for p in problems:
        print(p)
    print(f"[lint] {len(problems)} problem(s)")
    return 1 if problems else 0


def main() -> int:
    ap = argparse.ArgumentParser()
    ap.add_argument("prop", nargs="?")
    ap.add_argument("--tier", default=os.environ.get("VERIF_TIER", "quick"), choices=["quick", "thorough"])
    ap.add_argument("--replay")
    ap.add_argument("--setup", action="store_true")
    ap.add_argument("--lint", action="store_true")
    ap.add_argument("--regen", action="store_true")
    a = ap.parse_args()
    if a.setup:
        return setup()
    if a.lint:
        return lint()
    if a.regen:
        return regen()
    if not a.prop:
        ap.error("property id required")
    prop = a.prop.upper()
    common.quiet_impl_logging()
    mod = importlib.import_module(f"harness.{prop.lower()}")
    seed = common.seed_from_env()
    if a.replay:
        return int(mod.replay(json.loads(Path(a.replay).read_text())))
    run = common.Run(prop, a.tier, seed)
    try:
        mod.check(run)
    except Exception as e:  # noqa: BLE001 -- a crashing harness must not look like a pass
        traceback.print_exc()
        run.broken_correspondence.append(f"harness crashed: {type(e).__name__}: {e}")
    return run.finish()


if __name__ == "__main__":
    sys.exit(main())
