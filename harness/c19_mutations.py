"""Mutations of the C19 mechanism (development self-test).  Usage (cwd = scratch copy of /repo, done by tools/mutate.sh):
    MUTNAME=<name> tools/mutate.sh C19 harness/c19_mutations.py
m*: first pass, n*/b*: second pass (names / buffering), q*: third pass (object state, custom triples, path separators), r*: fourth pass
(None / falsy results, life of the cache directory).  n1, n2 need the repaired tree (fixes/C19-name-fn.diff applied to
the copy first: MUTNAME=fix+n2) and the switch in `repaired` (tools/c19_switch.py)."""
import os
import sys

PAR = "src/mxlpy/parallel.py"
SCAN = "src/mxlpy/scan.py"
SAVE_TAIL = '    with tmp.open("wb") as fp:\n        pickle.dump(data, fp)\n    os.replace(tmp, file)\n'
M = {
    "m1": (PAR, '    tmp = file.with_name(f"{file.name}.{os.getpid()}.tmp")\n' + SAVE_TAIL, '    with file.open("wb") as fp:\n        pickle.dump(data, fp)\n'),
    "m2": (PAR, "        cache.save_fn(file, res)\n", "        pass\n"),
    "m4": (PAR, SAVE_TAIL, '    with tmp.open("wb") as fp:\n        pickle.dump(data, fp)\n        os.replace(tmp, file)\n'),
    "m5": (PAR, "if file.exists():", "if not file.exists():"),
    "m6": (PAR, "        _load_or_run,\n        fn=fn,\n        cache=cache,", "        _load_or_run,\n        fn=fn,\n        cache=None,"),
    "m9": (PAR, 'return f"{k}.p"', 'return "result.p"'),
    "m10": (PAR, "    os.replace(tmp, file)\n", "    import shutil\n\n    shutil.copyfile(tmp, file)\n    os.unlink(tmp)\n"),
    "m11": (PAR, "        cache.tmp_dir.mkdir(parents=True, exist_ok=True)\n", "        pass\n"),
    "m12": (PAR, 'tmp = file.with_name(f"{file.name}.{os.getpid()}.tmp")', 'tmp = file.with_name("shared.tmp")'),
    "fix": (PAR, 'return f"{k}.p"', 'return f"{k!r}.p"'),
    "n2": (PAR, 'return f"{k!r}.p"', 'return f"{str(k)!r}.p"'),
    "n3": (PAR, 'return f"{k}.p"', 'return f"{k}.p".lower()'),
    "n4": (PAR, 'return f"{k}.p"', 'return f"{k}.p".replace(" ", "")'),
    # q2: a naive repair of the path separator: 'ATP/ADP' and 'ATP_ADP' share a file
    "q2": (PAR, 'return f"{k!r}.p"', 'return f"{k!r}.p".replace("/", "_")'),
    # q3: negative caching at module level: a name once seen missing is recomputed for ever in this process
    "q3": (PAR, "        if file.exists():\n", "        if file not in _MISSING and file.exists():\n"),
    "q3b": (PAR, "        res = fn(v)\n        cache.save_fn(file, res)\n", "        _MISSING.add(file)\n        res = fn(v)\n        cache.save_fn(file, res)\n"),
    "q3c": (PAR, "def _pickle_name(", "_MISSING: set = set()\n\n\ndef _pickle_name("),
    # q5: the cached branch ignores the user's load_fn
    "q5": (PAR, "cast(Tout, cache.load_fn(file))", "cast(Tout, _pickle_load(file))"),
    # q6: save_fn handed a sibling path, renamed afterwards
    "q6": (PAR, "        cache.save_fn(file, res)\n", '        cache.save_fn(file.with_name(file.name + ".part"), res)\n        os.replace(file.with_name(file.name + ".part"), file)\n'),
    # r1: the cached branch trusts only truthy stored results (0, "", (), False, 0.0, None are recomputed on every run)
    "r1": (PAR, "        if file.exists():\n            return k, cast(Tout, cache.load_fn(file))\n",
           "        if file.exists() and (hit := cache.load_fn(file)):\n            return k, cast(Tout, hit)\n"),
    # r2: the cache directory is created without its parents
    "r2": (PAR, "        cache.tmp_dir.mkdir(parents=True, exist_ok=True)\n", "        cache.tmp_dir.mkdir(exist_ok=True)\n"),
    # r3: the directory is created once per process and location
    "r3": (PAR, "    if cache is not None:\n        cache.tmp_dir.mkdir(parents=True, exist_ok=True)\n",
           "    if cache is not None and cache.tmp_dir not in _MADE:\n        cache.tmp_dir.mkdir(parents=True, exist_ok=True)\n        _MADE.add(cache.tmp_dir)\n"),
    "r3b": (PAR, "def _pickle_name(", "_MADE: set = set()\n\n\ndef _pickle_name("),
    # r4: "no result" (None) is not worth a file
    "r4": (PAR, "        cache.save_fn(file, res)\n", "        if res is not None:\n            cache.save_fn(file, res)\n"),
    "b2": (PAR, SAVE_TAIL, '    fp = tmp.open("wb")\n    pickle.dump(data, fp)\n    os.replace(tmp, file)\n    fp.close()\n'),
}


def m3() -> None:  # scan.steady_state passes cache=None
    t = open(SCAN).read()
    i = t.index("def steady_state(")
    j = t.index("cache=cache,", i)
    open(SCAN, "w").write(t[:j] + "cache=None," + t[j + len("cache=cache,"):])


names = os.environ.get("MUTNAME", "")
if not names:
    sys.exit("MUTNAME=<" + "|".join([*M, "m3"]) + ">[+<name>...]")
for name in names.split("+"):
    if name == "m3":
        m3()
        continue
    path, old, new = M[name]
    t = open(path).read()
    if old not in t:
        sys.exit(f"mutation {name}: anchor not found in {path}")
    open(path, "w").write(t.replace(old, new, 1))
    print(f"mutation {name} applied to {path}")
