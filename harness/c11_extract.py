"""C11 fact extractor (fail-closed): src/mxlpy/meta/codegen_mxlpy.py + sympy_tools.py -> facts.

What is extracted
  * the KEY under which each kind of slot stores its definition in the `functions` dict
    (`init_<fn>` for initial assignments of variables / parameters, `<fn>` for derived and rate
    functions, `<rxn>_stoich_<fn>` for computed coefficients) -- as an enumerated scheme;
  * two booleans saying that, with those key expressions blanked out, the text of
    _codegen_variable / _codegen_parameter / generate_mxlpy_code_from_symbolic_repr /
    sympy_to_python_fn (codegen_shape) and of _fn_to_symbolic_repr / _to_symbolic_repr /
    generate_mxlpy_code (symrepr_shape) is statement for statement the one the Gallina model was
    written from (harness/c11_shapes.py).

Anything unrecognised gives KsUnknown / false, which breaks C11_facts_pinned.
"""

from __future__ import annotations

import ast
import copy

from harness import common

CODEGEN = "src/mxlpy/meta/codegen_mxlpy.py"
SYMTOOLS = "src/mxlpy/meta/sympy_tools.py"

KEY_SCHEMES = {
    "f'init_{init.fn_name}'": "KsInit",
    "init.fn_name": "KsPlain",
    "fn.fn_name": "KsPlain",
    "stoich.fn_name": "KsPlain",
    "f'{k}_stoich_{stoich.fn_name}'": "KsRxnStoich",
}


def _strip_doc(fn: ast.FunctionDef) -> ast.FunctionDef:
    fn = copy.deepcopy(fn)
    if fn.body and isinstance(fn.body[0], ast.Expr) and isinstance(fn.body[0].value, ast.Constant) and isinstance(fn.body[0].value.value, str):
        fn.body = fn.body[1:] or [ast.Pass()]
    fn.returns = None
    for a in fn.args.args + fn.args.kwonlyargs:
        a.annotation = None
    return fn


def _find(tree: ast.Module, name: str) -> ast.FunctionDef | None:
    return next((n for n in tree.body if isinstance(n, ast.FunctionDef) and n.name == name), None)


class _KeyBlanker(ast.NodeTransformer):
    """Replace every key expression of a `functions[...] = ...` write by the constant KEY and
    record the expressions in source order.  `fn_name = <expr>` followed by `functions[fn_name]`
    counts as the expression assigned to fn_name."""

    def __init__(self) -> None:
        self.keys: list[str] = []
        self._pending: str | None = None

    def visit_Assign(self, node: ast.Assign):  # noqa: N802
        if len(node.targets) == 1:
            t = node.targets[0]
            if isinstance(t, ast.Name) and t.id == "fn_name":
                self._pending = ast.unparse(node.value)
                node.value = ast.Constant("KEY")
                return node
            if isinstance(t, ast.Subscript) and isinstance(t.value, ast.Name) and t.value.id == "functions":
                s = t.slice
                if isinstance(s, ast.Name) and s.id == "fn_name" and self._pending is not None:
                    self.keys.append(self._pending)
                    self._pending = None
                else:
                    self.keys.append(ast.unparse(s))
                    t.slice = ast.Constant("KEY")
                return node
        return self.generic_visit(node)

    def visit_NamedExpr(self, node: ast.NamedExpr):  # noqa: N802
        return self.generic_visit(node)


def normalised(fn: ast.FunctionDef | None) -> tuple[str, list[str]]:
    if fn is None:
        return "<missing>", []
    b = _KeyBlanker()
    out = b.visit(_strip_doc(fn))
    ast.fix_missing_locations(out)
    return ast.unparse(out), b.keys


def extract(repo=None) -> tuple[dict[str, str], dict[str, str]]:
    """-> (facts, normalised texts)"""
    repo = repo or common.REPO
    facts = {
        "var_key": "KsUnknown",
        "par_key": "KsUnknown",
        "der_key": "KsUnknown",
        "rxn_key": "KsUnknown",
        "sto_key": "KsUnknown",
        "codegen_shape": "false",
        "symrepr_shape": "false",
    }
    texts: dict[str, str] = {}
    try:
        t1 = ast.parse((repo / CODEGEN).read_text())
        t2 = ast.parse((repo / SYMTOOLS).read_text())
    except (OSError, SyntaxError):
        return facts, texts
    keys: dict[str, list[str]] = {}
    for name, tree in (
        ("_codegen_variable", t1),
        ("_codegen_parameter", t1),
        ("generate_mxlpy_code_from_symbolic_repr", t1),
        ("_fn_to_symbolic_repr", t1),
        ("_to_symbolic_repr", t1),
        ("generate_mxlpy_code", t1),
        ("sympy_to_python_fn", t2),
    ):
        texts[name], keys[name] = normalised(_find(tree, name))
    kv, kp, kg = keys["_codegen_variable"], keys["_codegen_parameter"], keys["generate_mxlpy_code_from_symbolic_repr"]
    if len(kv) == 1:
        facts["var_key"] = KEY_SCHEMES.get(kv[0], "KsUnknown")
    if len(kp) == 1:
        facts["par_key"] = KEY_SCHEMES.get(kp[0], "KsUnknown")
    if len(kg) == 3:
        facts["der_key"] = KEY_SCHEMES.get(kg[0], "KsUnknown")
        facts["rxn_key"] = KEY_SCHEMES.get(kg[1], "KsUnknown")
        facts["sto_key"] = KEY_SCHEMES.get(kg[2], "KsUnknown")
    try:
        from harness import c11_shapes

        exp = c11_shapes.SHAPES
    except Exception:  # noqa: BLE001
        exp = {}
    cg = ("_codegen_variable", "_codegen_parameter", "generate_mxlpy_code_from_symbolic_repr", "sympy_to_python_fn")
    sr = ("_fn_to_symbolic_repr", "_to_symbolic_repr", "generate_mxlpy_code")
    if exp and all(texts[n] == exp.get(n) for n in cg):
        facts["codegen_shape"] = "true"
    if exp and all(texts[n] == exp.get(n) for n in sr):
        facts["symrepr_shape"] = "true"
    return facts, texts


def dump_shapes() -> str:
    _, texts = extract()
    lines = ['"""Normalised text (docstrings, annotations and dict-key expressions removed) of the functions the', "C11 Gallina model was written from.  Written by `python -m harness.c11_extract`; edit only together", 'with the model (coq/mxlgen/SymRepr.v, MxlGen.v)."""', "", "SHAPES = {"]
    for k, v in texts.items():
        lines.append(f"    {k!r}: {v!r},")
    lines.append("}")
    return "\n".join(lines) + "\n"


if __name__ == "__main__":
    import sys

    sys.stdout.write(dump_shapes())
