"""C11 fact extractor (fail-closed): src/mxlpy/meta/codegen_mxlpy.py + sympy_tools.py -> facts.

What is extracted
  * HOW a definition is stored: `functions[key] = (expr, args)` (RegOverwrite, the snapshot) or
    `name = _register_fn(functions, key, expr, args)` (RegFresh, fixes/C11-function-name-collisions.diff;
    then _positional_fn / _register_fn / _parameter_names must have the modelled text too);
  * the KEY under which each kind of slot stores its definition in the `functions` dict
    (`init_<fn>` for initial assignments of variables / parameters, `<fn>` for derived and rate
    functions, `<rxn>_stoich_<fn>` for computed coefficients) -- as an enumerated scheme;
  * two booleans saying that, with those key expressions blanked out, the text of
    _codegen_variable / _codegen_parameter / generate_mxlpy_code_from_symbolic_repr /
    sympy_to_python_fn (codegen_shape) and of _fn_to_symbolic_repr / _to_symbolic_repr /
    generate_mxlpy_code (symrepr_shape) is statement for statement the one the Gallina model was
    written from (harness/c11_shapes.py).

Anything unrecognised gives KsUnknown / false, which breaks C11_facts_pinned.
"""

from __future__ import annotations

import ast
import copy

from harness import common

CODEGEN = "src/mxlpy/meta/codegen_mxlpy.py"
SYMTOOLS = "src/mxlpy/meta/sympy_tools.py"

KEY_SCHEMES = {
    "f'init_{init.fn_name}'": "KsInit",
    "init.fn_name": "KsPlain",
    "fn.fn_name": "KsPlain",
    "stoich.fn_name": "KsPlain",
    "f'{k}_stoich_{stoich.fn_name}'": "KsRxnStoich",
}


def _strip_doc(fn: ast.FunctionDef) -> ast.FunctionDef:
    fn = copy.deepcopy(fn)
    if fn.body and isinstance(fn.body[0], ast.Expr) and isinstance(fn.body[0].value, ast.Constant) and isinstance(fn.body[0].value.value, str):
        fn.body = fn.body[1:] or [ast.Pass()]
    fn.returns = None
    for a in fn.args.args + fn.args.kwonlyargs:
        a.annotation = None
    return fn


def _find(tree: ast.Module, name: str) -> ast.FunctionDef | None:
    return next((n for n in tree.body if isinstance(n, ast.FunctionDef) and n.name == name), None)


class _KeyBlanker(ast.NodeTransformer):
    """Replace every key expression of a `functions[...] = ...` write (or of a
    `... = _register_fn(functions, <key>, ...)` call) by the constant KEY and record the expressions
    in source order, together with the way of storing.  `fn_name = <expr>` followed by
    `functions[fn_name]` counts as the expression assigned to fn_name."""

    def __init__(self) -> None:
        self.keys: list[str] = []
        self.modes: list[str] = []
        self._pending: str | None = None

    def visit_Assign(self, node: ast.Assign):  # noqa: N802
        if len(node.targets) == 1:
            t = node.targets[0]
            v = node.value
            if (
                isinstance(t, ast.Name)
                and isinstance(v, ast.Call)
                and isinstance(v.func, ast.Name)
                and v.func.id == "_register_fn"
                and len(v.args) == 4
                and not v.keywords
                and isinstance(v.args[0], ast.Name)
                and v.args[0].id == "functions"
            ):
                self.keys.append(ast.unparse(v.args[1]))
                self.modes.append("fresh")
                v.args[1] = ast.Constant("KEY")
                return node
            if isinstance(t, ast.Name) and t.id == "fn_name":
                self._pending = ast.unparse(node.value)
                node.value = ast.Constant("KEY")
                return node
            if isinstance(t, ast.Subscript) and isinstance(t.value, ast.Name) and t.value.id == "functions":
                s = t.slice
                if isinstance(s, ast.Name) and s.id == "fn_name" and self._pending is not None:
                    self.keys.append(self._pending)
                    self._pending = None
                else:
                    self.keys.append(ast.unparse(s))
                    t.slice = ast.Constant("KEY")
                self.modes.append("overwrite")
                return node
        return self.generic_visit(node)

    def visit_NamedExpr(self, node: ast.NamedExpr):  # noqa: N802
        return self.generic_visit(node)


def normalised(fn: ast.FunctionDef | None) -> tuple[str, list[str], list[str]]:
    if fn is None:
        return "<missing>", [], []
    b = _KeyBlanker()
    out = b.visit(_strip_doc(fn))
    ast.fix_missing_locations(out)
    return ast.unparse(out), b.keys, b.modes


def _whiles(fn: ast.FunctionDef | None) -> list[ast.While]:
    return [] if fn is None else [n for n in ast.walk(fn) if isinstance(n, ast.While)]


def _param_check(fn: ast.FunctionDef | None) -> str:
    """_parameter_names: against what the candidate name of a repeated argument is checked (the one while test)."""
    ws = _whiles(fn)
    if len(ws) != 1:
        return "PnUnknown"
    return {
        "name in names or (name != arg and name in args)": "PnAllArgs",
        "name in names": "PnEmittedOnly",
    }.get(ast.unparse(ws[0].test), "PnUnknown")


def _interchange(tree: ast.Module) -> str:
    """_register_fn: when a new definition may share the name of a registered one (the one while test)."""
    ws = _whiles(_find(tree, "_register_fn"))
    if len(ws) != 1:
        return "IcUnknown"
    test = ast.unparse(ws[0].test)
    if test == "name in functions and _positional_fn(*functions[name]) != positional":
        return "IcPositional"
    helper = _find(tree, "_interchangeable")
    if helper is not None and test == "name in functions and (not _interchangeable(functions[name], (expr, args)))":
        body = ast.unparse(_strip_doc(helper)).split("\n", 1)[1]
        if body == "    if a[0] == b[0]:\n        return True\n    return _positional_fn(*a) == _positional_fn(*b)":
            return "IcSubstFirst"
    return "IcUnknown"


def _rename(fn: ast.FunctionDef | None) -> str:
    """_fn_to_symbolic_repr: who puts the model names into the expression."""
    if fn is None:
        return "RnUnknown"
    calls = [n for n in ast.walk(fn) if isinstance(n, ast.Call)]
    subs = [c for c in calls if isinstance(c.func, ast.Attribute) and c.func.attr in ("subs", "xreplace", "replace")]
    f2s = [c for c in calls if isinstance(c.func, ast.Name) and c.func.id == "fn_to_sympy"]
    if len(f2s) != 1:
        return "RnUnknown"
    kws = {k.arg: ast.unparse(k.value) for k in f2s[0].keywords}
    if not subs and kws.get("model_args") == "args" and any(
        isinstance(n, ast.Assign) and ast.unparse(n) == "args = cast(list, list_of_symbols(model_args))" for n in ast.walk(fn)
    ):
        return "RnDelegated"
    if "model_args" not in kws and any(c.func.attr == "subs" for c in subs):
        return "RnSequential"
    return "RnUnknown"


SOURCE_TOOLS = "src/mxlpy/meta/source_tools.py"
_PYMODS = {"math": "PMath", "scipy.special": "PScipySpecial", "sympy.physics.units": "PSympyUnits"}
_STR_SECTIONS = {"functions_source": "SecFunctions"}  # one string
_LIST_SECTIONS = {  # lists of lines
    "variable_source": "SecVariables",
    "parameter_source": "SecParameters",
    "derived_source": "SecDerived",
    "reactions_source": "SecReactions",
}


def _import_scan(fn: ast.FunctionDef | None) -> str:
    """generate_mxlpy_code_from_symbolic_repr: WHICH sections of the emitted text are searched for WHICH module
    (coq/mxlgen/Imports.v: scan_table).  Understood: the one top-level `for` over a tuple display whose first statement is
    `if f'{module}.' in <text> and ...`, with <text> a name bound once to "\n".join([...]) of the section variables, in
    the form `for module in ("math", ...)` (one text) or `for module, <text> in (("math", <name>), ...)`.  Anything else:
    None (the pin breaks)."""
    if fn is None:
        return "None"
    assigns: dict[str, list[ast.expr]] = {}
    for n in ast.walk(fn):
        if isinstance(n, ast.Assign) and len(n.targets) == 1 and isinstance(n.targets[0], ast.Name):
            assigns.setdefault(n.targets[0].id, []).append(n.value)

    def resolve(name: str) -> list[str] | None:
        if name in _STR_SECTIONS:
            return [_STR_SECTIONS[name]]
        vals = assigns.get(name, [])
        if len(vals) != 1:
            return None
        v = vals[0]
        if not (
            isinstance(v, ast.Call)
            and isinstance(v.func, ast.Attribute)
            and v.func.attr == "join"
            and isinstance(v.func.value, ast.Constant)
            and v.func.value.value == "\n"
            and len(v.args) == 1
            and not v.keywords
            and isinstance(v.args[0], ast.List)
        ):
            return None
        out: list[str] = []
        for e in v.args[0].elts:
            if isinstance(e, ast.Name) and e.id in _STR_SECTIONS:
                out.append(_STR_SECTIONS[e.id])
            elif isinstance(e, ast.Starred) and isinstance(e.value, ast.Name) and e.value.id in _LIST_SECTIONS:
                out.append(_LIST_SECTIONS[e.value.id])
            else:
                return None
        return out

    loops = [n for n in fn.body if isinstance(n, ast.For) and isinstance(n.iter, ast.Tuple)]
    if len(loops) != 1:
        return "None"
    loop = loops[0]
    if not (loop.body and isinstance(loop.body[0], ast.If) and not loop.orelse):
        return "None"
    test = loop.body[0].test
    if not (isinstance(test, ast.BoolOp) and isinstance(test.op, ast.And) and len(test.values) == 2):
        return "None"
    cmp = test.values[0]
    if not (
        isinstance(cmp, ast.Compare)
        and len(cmp.ops) == 1
        and isinstance(cmp.ops[0], ast.In)
        and ast.unparse(cmp.left) == "f'{module}.'"
        and isinstance(cmp.comparators[0], ast.Name)
    ):
        return "None"
    text_name = cmp.comparators[0].id
    rows: list[tuple[str, list[str]]] = []
    if isinstance(loop.target, ast.Name) and loop.target.id == "module":
        secs = resolve(text_name)
        for e in loop.iter.elts:
            if not (isinstance(e, ast.Constant) and e.value in _PYMODS) or secs is None:
                return "None"
            rows.append((_PYMODS[e.value], secs))
    elif (
        isinstance(loop.target, ast.Tuple)
        and len(loop.target.elts) == 2
        and all(isinstance(t, ast.Name) for t in loop.target.elts)
        and loop.target.elts[0].id == "module"  # type: ignore[attr-defined]
        and loop.target.elts[1].id == text_name  # type: ignore[attr-defined]
    ):
        for e in loop.iter.elts:
            if not (isinstance(e, ast.Tuple) and len(e.elts) == 2 and isinstance(e.elts[0], ast.Constant) and e.elts[0].value in _PYMODS and isinstance(e.elts[1], ast.Name)):
                return "None"
            secs = resolve(e.elts[1].id)
            if secs is None:
                return "None"
            rows.append((_PYMODS[e.elts[0].value], secs))
    else:
        return "None"
    return "(Some [" + "; ".join(f"({m}, [{'; '.join(secs)}])" for m, secs in rows) + "])"


def _call_defaults(fn: ast.FunctionDef | None) -> str:
    """fn_to_sympy: how the arguments of a translated call are bound to the callee's parameters
    (coq/mxlgen/CallDefaults.v: df_mode)."""
    if fn is None:
        return "DfUnknown"
    nodes = list(ast.walk(fn))
    if not any(isinstance(n, ast.Assign) and ast.unparse(n) == "fn_args = [str(arg.arg) for arg in fn_def.args.args]" for n in nodes):
        return "DfUnknown"
    zips = sorted(ast.unparse(n) for n in nodes if isinstance(n, ast.Call) and isinstance(n.func, ast.Name) and n.func.id == "zip")
    uses_defaults = any(isinstance(n, ast.Attribute) and n.attr in ("defaults", "kw_defaults") for n in nodes)
    guards = [
        ast.unparse(n.test)
        for n in nodes
        if isinstance(n, ast.If) and any(isinstance(c, ast.Call) and isinstance(c.func, ast.Name) and c.func.id == "zip" for b in n.body for c in ast.walk(b))
    ]
    if guards == ["model_args is not None"] and zips == ["zip(fn_args, model_args, strict=True)"] and not uses_defaults:
        return "DfRefuse"
    srcs = {ast.unparse(n) for n in nodes if isinstance(n, (ast.Assign, ast.NamedExpr))}
    if (
        sorted(guards) == ["(missing := fn_args[len(model_args):])", "model_args is not None"]
        and zips == ["zip(fn_args, model_args, strict=False)", "zip(missing, defaults, strict=False)"]
        and "defaults = fn_def.args.defaults" in srcs
        and "(missing := fn_args[len(model_args):])" in srcs
    ):
        return "DfFront"  # the shape of seeded change C11-6
    return "DfUnknown"


def _name_lookup(fn: ast.FunctionDef | None) -> str:
    """_handle_name (source_tools.py): in which ORDER the function's own symbols (parameters, assigned names) and the
    numbers of the defining module are consulted (coq/mxlgen/NameScope.v: nl_mode).  Only the order is read: what the
    fall-back does when the module has no such number (KeyError today) is not this fact's business, so a repair of that
    branch does not flip it."""
    if fn is None:
        return "NlUnknown"
    body = _strip_doc(fn).body

    def scans(node: ast.AST) -> bool:
        return any(isinstance(n, ast.Attribute) and n.attr == "getmembers" for n in ast.walk(node)) or any(
            isinstance(n, ast.Name) and n.id == "vars" for n in ast.walk(node)
        )

    def reads_symbols(node: ast.AST) -> bool:
        return any(isinstance(n, ast.Attribute) and n.attr == "symbols" for n in ast.walk(node))

    if (
        len(body) == 3
        and ast.unparse(body[0]) == "value = ctx.symbols.get(node.id)"
        and isinstance(body[1], ast.If)
        and ast.unparse(body[1].test) == "value is None"
        and not body[1].orelse
        and scans(body[1])
        and not reads_symbols(body[1])
        and ast.unparse(body[2]) == "return value"
    ):
        return "NlLocalsFirst"
    # the shape of seeded change C11-8: the module is scanned first, ctx.symbols only when the name is no number there
    if (
        len(body) >= 2
        and isinstance(body[0], ast.Assign)
        and scans(body[0])
        and not reads_symbols(body[0])
        and isinstance(body[-1], ast.Return)
        and reads_symbols(body[-1])
        and not scans(body[-1])
        and all(isinstance(b, ast.If) and any(isinstance(r, ast.Return) for r in b.body) and not reads_symbols(b) for b in body[1:-1])
    ):
        return "NlModuleFirst"
    return "NlUnknown"


_SCAN_USERS = ("_handle_call", "_handle_attribute", "_handle_name")
_SCAN_MAY_CALL = {"_handle_expr", "_find_root", "fn_to_sympy", "_get_inner_object"}
_SCAN_MAY_READ = {"KNOWN_FNS", "KNOWN_CONSTANTS", "_LOGGER"}


def _scan_mode(tree: ast.Module) -> str:
    """WHEN the translator scans a module for its callables / sub-modules / numbers (coq/mxlgen/Session.v: scan_mode).
    ScanAtCall: _handle_call scans `inspect.getmembers(ctx.parent_module, predicate=callable)` itself, no function of the
    file is wrapped in a cache decorator, and the three functions that scan neither call another module-level function of
    the file (besides the translator's own recursion) nor read a module-level variable (besides the two constant tables and
    the logger) -- so nothing found in one call can reach a later one.  ScanMemo: the shape of seeded change C11-7."""
    fns = {n.name: n for n in tree.body if isinstance(n, ast.FunctionDef)}
    if any(u not in fns for u in _SCAN_USERS):
        return "ScanUnknown"
    top_fns = set(fns)
    top_vars: set[str] = set()
    for n in tree.body:
        if isinstance(n, ast.Assign):
            top_vars |= {t.id for t in n.targets if isinstance(t, ast.Name)}
        elif isinstance(n, ast.AnnAssign) and isinstance(n.target, ast.Name):
            top_vars.add(n.target.id)
    cached = {
        name
        for name, f in fns.items()
        if any("cache" in ast.unparse(d) for d in f.decorator_list)
    }
    used_fns: set[str] = set()
    used_vars: set[str] = set()
    for u in _SCAN_USERS:
        for n in ast.walk(fns[u]):
            if isinstance(n, ast.Name) and isinstance(n.ctx, ast.Load):
                if n.id in top_fns:
                    used_fns.add(n.id)
                if n.id in top_vars:
                    used_vars.add(n.id)
            if isinstance(n, (ast.Global, ast.Nonlocal)):
                return "ScanUnknown"
    inline = any(
        ast.unparse(n) == "inspect.getmembers(ctx.parent_module, predicate=callable)" for n in ast.walk(fns["_handle_call"])
    )
    any_cache = cached or any(
        isinstance(n, (ast.Import, ast.ImportFrom)) and "functools" in ast.unparse(n) for n in tree.body
    ) or any(isinstance(n, ast.Attribute) and "cache" in n.attr for n in ast.walk(tree))
    if inline and not any_cache and used_fns <= _SCAN_MAY_CALL and used_vars <= _SCAN_MAY_READ:
        return "ScanAtCall"
    if cached and (used_fns & cached) and any(
        isinstance(n, ast.Attribute) and n.attr == "getmembers" for c in cached for n in ast.walk(fns[c])
    ) and not inline:
        return "ScanMemo"
    return "ScanUnknown"


FRESH_HELPERS = ("_positional_fn", "_register_fn", "_parameter_names")
EMIT_HELPERS = ("_number_literal", "_unit_literal")  # fixes/C11-emitted-numbers-imports-units.diff


def extract(repo=None) -> tuple[dict[str, str], dict[str, str]]:
    """-> (facts, normalised texts)"""
    repo = repo or common.REPO
    facts = {
        "var_key": "KsUnknown",
        "par_key": "KsUnknown",
        "der_key": "KsUnknown",
        "rxn_key": "KsUnknown",
        "sto_key": "KsUnknown",
        "register": "RegUnknown",
        "codegen_shape": "false",
        "symrepr_shape": "false",
        "param_check": "PnUnknown",
        "interchange": "IcUnknown",
        "rename": "RnUnknown",
        "emit": "EmUnknown",
        "import_scan": "None",
        "call_defaults": "DfUnknown",
        "name_lookup": "NlUnknown",
        "scan_mode": "ScanUnknown",
    }
    texts: dict[str, str] = {}
    try:
        t1 = ast.parse((repo / CODEGEN).read_text())
        t2 = ast.parse((repo / SYMTOOLS).read_text())
    except (OSError, SyntaxError):
        return facts, texts
    keys: dict[str, list[str]] = {}
    modes: list[str] = []
    for name, tree in (
        ("_codegen_variable", t1),
        ("_codegen_parameter", t1),
        ("generate_mxlpy_code_from_symbolic_repr", t1),
        ("_fn_to_symbolic_repr", t1),
        ("_to_symbolic_repr", t1),
        ("generate_mxlpy_code", t1),
        ("sympy_to_python_fn", t2),
        *((h, t1) for h in FRESH_HELPERS + EMIT_HELPERS),
    ):
        if name in FRESH_HELPERS + EMIT_HELPERS:  # pinned verbatim: no key expression is blanked out inside the helpers
            fn = _find(tree, name)
            texts[name], keys[name] = ("<missing>" if fn is None else ast.unparse(_strip_doc(fn))), []
            continue
        texts[name], keys[name], md = normalised(_find(tree, name))
        modes += md
    kv, kp, kg = keys["_codegen_variable"], keys["_codegen_parameter"], keys["generate_mxlpy_code_from_symbolic_repr"]
    if len(kv) == 1:
        facts["var_key"] = KEY_SCHEMES.get(kv[0], "KsUnknown")
    if len(kp) == 1:
        facts["par_key"] = KEY_SCHEMES.get(kp[0], "KsUnknown")
    if len(kg) == 3:
        facts["der_key"] = KEY_SCHEMES.get(kg[0], "KsUnknown")
        facts["rxn_key"] = KEY_SCHEMES.get(kg[1], "KsUnknown")
        facts["sto_key"] = KEY_SCHEMES.get(kg[2], "KsUnknown")
    try:
        from harness import c11_shapes

        exp_all = {"RegOverwrite": c11_shapes.SHAPES, "RegFresh": c11_shapes.SHAPES_FRESH}
        exp_emit = getattr(c11_shapes, "SHAPES_EMIT", {})
    except Exception:  # noqa: BLE001
        exp_all = {}
        exp_emit = {}
    # the way of storing: all five writes the same way; the helper functions exist exactly in the fresh form
    if len(modes) == 5 and set(modes) == {"overwrite"} and all(texts[h] == "<missing>" for h in FRESH_HELPERS):
        facts["register"] = "RegOverwrite"
    elif len(modes) == 5 and set(modes) == {"fresh"}:
        facts["register"] = "RegFresh"
    facts["param_check"] = _param_check(_find(t1, "_parameter_names"))
    facts["interchange"] = _interchange(t1)
    facts["rename"] = _rename(_find(t1, "_fn_to_symbolic_repr"))
    facts["import_scan"] = _import_scan(_find(t1, "generate_mxlpy_code_from_symbolic_repr"))
    try:
        t3 = ast.parse((repo / SOURCE_TOOLS).read_text())
        facts["call_defaults"] = _call_defaults(_find(t3, "fn_to_sympy"))
        facts["name_lookup"] = _name_lookup(_find(t3, "_handle_name"))
        facts["scan_mode"] = _scan_mode(t3)
    except (OSError, SyntaxError):
        pass
    exp = exp_all.get(facts["register"], {})
    cg = ["_codegen_variable", "_codegen_parameter", "generate_mxlpy_code_from_symbolic_repr", "sympy_to_python_fn"]
    if facts["register"] == "RegFresh":
        cg += list(FRESH_HELPERS)
    sr = ("_fn_to_symbolic_repr", "_to_symbolic_repr", "generate_mxlpy_code")
    # the text around the definitions: as in the snapshot (numbers / units through SymPy's printer, no import
    # scan; the two helpers of the repair absent) or exactly the repaired one
    if exp and all(texts[n] == exp.get(n) for n in cg) and all(texts[h] == "<missing>" for h in EMIT_HELPERS):
        facts["codegen_shape"] = "true"
        facts["emit"] = "EmSympy15"
    elif facts["register"] == "RegFresh" and exp_emit and all(texts[n] == exp_emit.get(n) for n in [*cg, *EMIT_HELPERS]):
        facts["codegen_shape"] = "true"
        facts["emit"] = "EmExact"
    if exp and all(texts[n] == exp.get(n) for n in sr):
        facts["symrepr_shape"] = "true"
    return facts, texts


def dump_shapes(var: str = "SHAPES") -> str:
    """`python -m harness.c11_extract [SHAPES|SHAPES_FRESH]` prints the dict for the tree MXLPY_VERIF_REPO points at."""
    _, texts = extract()
    lines = [f"{var} = {{"]
    for k, v in texts.items():
        if v != "<missing>":
            lines.append(f"    {k!r}: {v!r},")
    lines.append("}")
    return "\n".join(lines) + "\n"


if __name__ == "__main__":
    import sys

    sys.stdout.write(dump_shapes(sys.argv[1] if len(sys.argv) > 1 else "SHAPES"))
