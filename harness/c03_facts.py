"""C03 -- fail-closed extraction of the facts about the batch mutators and the arity check of
src/mxlpy/model.py (class Model).  Every method body is compared, statement by statement (ast.unparse, doc
string dropped), with the two forms the Gallina model knows:

  BatchFold        for item in arg: self.<single mutator>(item) ; return self          (a plain fold)
  BatchValidated   validate every name first (the helpers _check_new_ids / _check_known_names, whose bodies
                   are compared as well), then the same fold; scale_parameters additionally puts the old
                   values back and drops the cache when an item raises
  BatchUnknown     anything else -- C03_batch_facts_pinned fails

the aliasing facts (second deepening round): whether get_parameter_values / get_initial_conditions hand out the cache's own
dict (Aliased) or a copy (Copied), whether the mutators taking args= / outputs= / stoichiometries= containers keep the caller's
objects (Aliased) or copy them (Copied) -- every body compared as a whole with the two known texts, anything else is
AliasUnknown --, whether add_/update_reaction build their own stoichiometry dict (part of those two texts) and whether
get_stoichiometries / get_stoichiometries_of_variable work on a deep copy of the cached table;

and the arity facts: ArityMismatchError is raised by exactly one method of Model, _create_cache, in the
sanity loop that precedes the dependency sort, over initial assignments, derived, reactions, readouts; the
helper _check_function_arity has the known body."""

from __future__ import annotations

import ast

BATCH = ["add_parameters", "remove_parameters", "update_parameters", "scale_parameters", "add_variables",
         "remove_variables", "update_variables"]

_PAR_LOOP = """for k, v in parameters.items():
    if isinstance(v, Parameter):
        self.{m}(k, {kw}v.value, unit=v.unit, source=v.source)
    else:
        self.{m}(k, v)
return self"""

FOLD = {
    "add_parameters": ("self, parameters: Mapping[str, float | Parameter | InitialAssignment]",
                       _PAR_LOOP.format(m="add_parameter", kw="")),
    "remove_parameters": ("self, names: list[str]", "for name in names:\n    self.remove_parameter(name)\nreturn self"),
    "update_parameters": ("self, parameters: Mapping[str, float | Parameter | InitialAssignment]",
                          _PAR_LOOP.format(m="update_parameter", kw="value=")),
    "scale_parameters": ("self, parameters: dict[str, float]",
                         "for k, v in parameters.items():\n    self.scale_parameter(k, v)\nreturn self"),
    "add_variables": ("self, variables: Mapping[str, float | Variable | InitialAssignment]",
                      "for name, v in variables.items():\n    if isinstance(v, Variable):\n"
                      "        self.add_variable(name=name, initial_value=v.initial_value, unit=v.unit, source=v.source)\n"
                      "    else:\n        self.add_variable(name=name, initial_value=v)\nreturn self"),
    "remove_variables": ("self, variables: Iterable[str], *, remove_stoichiometries: bool=True",
                         "for variable in variables:\n"
                         "    self.remove_variable(name=variable, remove_stoichiometries=remove_stoichiometries)\nreturn self"),
    "update_variables": ("self, variables: Mapping[str, float | Variable | InitialAssignment]",
                         "for k, v in variables.items():\n    if isinstance(v, Variable):\n"
                         "        self.update_variable(k, initial_value=v.initial_value, unit=v.unit, source=v.source)\n"
                         "    else:\n        self.update_variable(k, v)\nreturn self"),
}

VALIDATED_PREFIX = {
    "add_parameters": "self._check_new_ids(parameters, ctx='parameter')\n",
    "remove_parameters": "names = list(names)\nself._check_known_names(names, self._parameters, ctx='parameters', unique=True)\n",
    "update_parameters": "self._check_known_names(parameters, self._parameters, ctx='parameters', unique=False)\n",
    "add_variables": "self._check_new_ids(variables, ctx='variable')\n",
    "remove_variables": "variables = list(variables)\nself._check_known_names(variables, self._variables, ctx='variables', unique=True)\n",
    "update_variables": "self._check_known_names(variables, self._variables, ctx='variables', unique=False)\n",
}
VALIDATED_SCALE = """self._check_known_names(parameters, self._parameters, ctx='parameters', unique=False)
previous = {k: self._parameters[k].value for k in parameters}
try:
    for k, v in parameters.items():
        self.scale_parameter(k, v)
except Exception:
    for k, value in previous.items():
        self._parameters[k].value = value
    self._cache = None
    raise
return self"""

HELPERS = {
    "_check_new_ids": ([], "self, names: Iterable[str], *, ctx: str",
                       "for name in names:\n    if name == 'time':\n        msg = 'time is a protected variable for time'\n"
                       "        raise KeyError(msg)\n    if name in self._ids:\n"
                       "        msg = f\"Model already contains {ctx} called '{name}'\"\n        raise NameError(msg)"),
    "_check_known_names": (["staticmethod"], "names: Iterable[str], container: Mapping[str, object], *, ctx: str, unique: bool",
                           "seen: set[str] = set()\nfor name in names:\n    if name not in container or (unique and name in seen):\n"
                           "        msg = f'{name!r} not found in {ctx}'\n        raise KeyError(msg)\n    seen.add(name)"),
}

ARITY_LOOP = """for name, el in it.chain(initial_assignments.items(), self._derived.items(), self._reactions.items(), self._readouts.items()):
    if not _check_function_arity(el.fn, len(el.args)):
        raise ArityMismatchError(name, el.fn, el.args)"""

CHECK_ARITY_BODY = """argspec = inspect.getfullargspec(function)
if argspec.varargs is not None:
    return True
if len(argspec.args) == arity:
    return True
defaults = argspec.defaults
if defaults is not None and len(argspec.args) + len(defaults) == arity:
    return True
kwonly = argspec.kwonlyargs
return bool(defaults is not None and len(argspec.args) + len(kwonly) == arity)"""


def _body(fn: ast.FunctionDef) -> str:
    b = fn.body
    if b and isinstance(b[0], ast.Expr) and isinstance(b[0].value, ast.Constant) and isinstance(b[0].value.value, str):
        b = b[1:]
    return "\n".join(ast.unparse(s) for s in b)


def _sig(fn: ast.FunctionDef) -> tuple[list[str], str]:
    return [ast.unparse(d) for d in fn.decorator_list], ast.unparse(fn.args)


def extract(tree: ast.Module) -> dict:
    cls = next(n for n in tree.body if isinstance(n, ast.ClassDef) and n.name == "Model")
    methods = {f.name: f for f in cls.body if isinstance(f, ast.FunctionDef)}
    helpers_ok = all(
        h in methods and _sig(methods[h]) == (HELPERS[h][0], HELPERS[h][1]) and _body(methods[h]) == HELPERS[h][2] for h in HELPERS
    )
    batch: dict[str, str] = {}
    for b in BATCH:
        f = methods.get(b)
        mode = "BatchUnknown"
        if f is not None and _sig(f) == ([], FOLD[b][0]):
            body = _body(f)
            if body == FOLD[b][1]:
                mode = "BatchFold"
            elif helpers_ok and (
                (b == "scale_parameters" and body == VALIDATED_SCALE)
                or (b != "scale_parameters" and body == VALIDATED_PREFIX[b] + FOLD[b][1])
            ):
                mode = "BatchValidated"
        batch[b] = mode
    # arity: who raises ArityMismatchError / calls _check_function_arity, and where in _create_cache
    users = []
    for name, f in methods.items():
        for node in ast.walk(f):
            if isinstance(node, ast.Name) and node.id in ("ArityMismatchError", "_check_function_arity"):
                users.append(name)
                break
    first = False
    cc = methods.get("_create_cache")
    if cc is not None:
        stmts = [ast.unparse(s) for s in cc.body]
        if ARITY_LOOP in stmts:
            i = stmts.index(ARITY_LOOP)
            # nothing before the loop may sort, evaluate or raise: only assignments of comprehensions / set copies
            before_ok = all(isinstance(s, (ast.Assign, ast.AnnAssign, ast.Expr)) and "_sort_dependencies" not in ast.unparse(s)
                            and "calculate" not in ast.unparse(s) for s in cc.body[:i])
            first = before_ok and any("_sort_dependencies" in s for s in stmts[i + 1:])
    helper = next((n for n in tree.body if isinstance(n, ast.FunctionDef) and n.name == "_check_function_arity"), None)
    helper_ok = helper is not None and ast.unparse(helper.args) == "function: Callable, arity: int" and _body(helper) == CHECK_ARITY_BODY
    return {"batch_form": batch, "batch_helpers_ok": helpers_ok, "arity_raisers": sorted(users),
            "arity_checked_before_sort": bool(first and helper_ok)} | extract_alias(tree)


def coq(f: dict) -> str:
    return (
        "(* the batch mutators: plain fold of the single-item mutator / names validated first / unrecognised *)\n"
        "Inductive batch_mode := BatchFold | BatchValidated | BatchUnknown.\n"
        "Inductive batch :=\n" + "\n".join(f"| B_{b}" for b in BATCH) + ".\n"
        "Definition batch_form (b : batch) : batch_mode :=\n  match b with\n"
        + "\n".join(f"  | B_{b} => {f['batch_form'][b]}" for b in BATCH)
        + "\n  end.\n"
        "(* methods of Model that raise ArityMismatchError / call _check_function_arity *)\n"
        "Definition arity_raisers : list string := ["
        + "; ".join('"' + u + '"%string' for u in f["arity_raisers"])
        + "].\n"
        "(* _create_cache checks the arity of initial assignments, derived, reactions, readouts before it sorts *)\n"
        f"Definition arity_checked_before_sort : bool := {'true' if f['arity_checked_before_sort'] else 'false'}.\n"
        + coq_alias(f)
    )


# ---------------------------------------------------------------------------------------------------------------
# aliasing facts: do containers cross the API as values?
# ---------------------------------------------------------------------------------------------------------------

_ENSURE = "if (cache := self._cache) is None:\n    cache = self._create_cache()\n"
GETTERS = {
    "get_parameter_values": {"Aliased": _ENSURE + "return cache.base_parameter_values",
                             "Copied": _ENSURE + "return dict(cache.base_parameter_values)"},
    "get_initial_conditions": {"Aliased": _ENSURE + "return cache.initial_conditions",
                               "Copied": _ENSURE + "return dict(cache.initial_conditions)"},
}

_STO = "{k: Derived(fn=fns.constant, args=[v]) if isinstance(v, str) else v for k, v in stoichiometry.items()}"
_SUR_IDS_ADD = """ids = self._ids.copy()
try:
    self._insert_id(name=name, ctx='surrogate')
    for output in surrogate.outputs if outputs is None else outputs:
        self._insert_id(name=output, ctx='surrogate')
except (KeyError, NameError):
    self._ids = ids
    raise
"""
_SUR_IDS_UPD = """if name not in self._surrogates:
    msg = f"Surrogate '{name}' not found in model"
    raise KeyError(msg)
if surrogate is None:
    surrogate = self._surrogates[name]
ids = self._ids.copy()
try:
    for i in self._surrogates[name].outputs:
        self._remove_id(name=i)
    for i in surrogate.outputs if outputs is None else outputs:
        self._insert_id(name=i, ctx='surrogate')
except (KeyError, NameError):
    self._ids = ids
    raise
"""
_SUR_TAIL = {
    "Aliased": "if args is not None:\n    surrogate.args = args\nif outputs is not None:\n    surrogate.outputs = outputs\n"
               "if stoichiometries is not None:\n    surrogate.stoichiometries = stoichiometries\n"
               "self._surrogates[name] = surrogate\nreturn self",
    "Copied": "if args is not None:\n    surrogate.args = list(args)\nif outputs is not None:\n    surrogate.outputs = list(outputs)\n"
              "if stoichiometries is not None:\n    surrogate.stoichiometries = {k: dict(v) for k, v in stoichiometries.items()}\n"
              "self._surrogates[name] = surrogate\nreturn self",
}


def _arg(mode: str, x: str = "args") -> str:
    return x if mode == "Aliased" else f"list({x})"


def _site_bodies(mode: str) -> dict[str, str]:
    a = _arg(mode)
    return {
        "add_derived": f"self._insert_id(name=name, ctx='derived')\nself._derived[name] = Derived(fn=fn, args={a}, unit=unit)\nreturn self",
        "update_derived": f"der = self._derived[name]\nif fn is not None:\n    der.fn = fn\nif args is not None:\n    der.args = {a}\n"
                          "if unit is not None:\n    der.unit = unit\nreturn self",
        "add_reaction": f"self._insert_id(name=name, ctx='reaction')\nstoich: dict[str, Derived | float] = {_STO}\n"
                        f"self._reactions[name] = Reaction(fn=fn, stoichiometry=stoich, args={a}, unit=unit)\nreturn self",
        "update_reaction": f"rxn = self._reactions[name]\nrxn.fn = rxn.fn if fn is None else fn\nif stoichiometry is not None:\n"
                           f"    stoich = {_STO}\n    rxn.stoichiometry = stoich\nrxn.args = rxn.args if args is None else {a}\n"
                           "rxn.unit = rxn.unit if unit is None else unit\nreturn self",
        "add_readout": f"self._insert_id(name=name, ctx='readout')\nself._readouts[name] = Readout(fn=fn, args={a}, unit=unit)\nreturn self",
        "add_surrogate": _SUR_IDS_ADD + _SUR_TAIL[mode],
        "update_surrogate": _SUR_IDS_UPD + _SUR_TAIL[mode],
    }


SITES = ["add_derived", "update_derived", "add_reaction", "update_reaction", "add_readout", "add_surrogate", "update_surrogate"]
SITE_BODIES = {mode: _site_bodies(mode) for mode in ("Aliased", "Copied")}

_STOICH_ARGS = "args = self.get_args(variables=variables, time=time)\n"
STOICH_QUERIES = {
    "get_stoichiometries": _ENSURE + _STOICH_ARGS + "stoich_by_cpds = copy.deepcopy(cache.stoich_by_cpds)\n"
                           "for cpd, stoich in cache.dyn_stoich_by_cpds.items():\n    for rxn, derived in stoich.items():\n"
                           "        stoich_by_cpds[cpd][rxn] = float(derived.fn(*(args[i] for i in derived.args)))\n"
                           "return pd.DataFrame(stoich_by_cpds).T.fillna(0)",
    "get_stoichiometries_of_variable": _ENSURE + _STOICH_ARGS + "stoich = copy.deepcopy(cache.stoich_by_cpds[variable])\n"
                                       "for rxn, derived in cache.dyn_stoich_by_cpds.get(variable, {}).items():\n"
                                       "    stoich[rxn] = float(derived.fn(*(args[i] for i in derived.args)))\nreturn stoich",
}


def _norm(text: str) -> str:
    return ast.unparse(ast.parse(text))


def extract_alias(tree: ast.Module) -> dict:
    cls = next(n for n in tree.body if isinstance(n, ast.ClassDef) and n.name == "Model")
    methods = {f.name: f for f in cls.body if isinstance(f, ast.FunctionDef)}

    def form(name: str, texts: dict[str, str]) -> str:
        f = methods.get(name)
        if f is None:
            return "AliasUnknown"
        body = _body(f)
        for mode, text in texts.items():
            if body == _norm(text):
                return mode
        return "AliasUnknown"

    return {
        "getter_form": {g: form(g, GETTERS[g]) for g in GETTERS},
        "input_form": {m: form(m, {mode: SITE_BODIES[mode][m] for mode in SITE_BODIES}) for m in SITES},
        "stoich_queries_copy": all(n in methods and _body(methods[n]) == _norm(t) for n, t in STOICH_QUERIES.items()),
    }


# ---------------------------------------------------------------------------------------------------------------
# cache uses (third round, seeded/C03-8): which mutators touch the memoised cache at all?
# ---------------------------------------------------------------------------------------------------------------


def extract_cache_uses(tree: ast.Module, singles: list[str]) -> dict:
    """For every single-item and batch mutator: the sorted names X of `self.X` occurrences in its body (calls and
    property reads alike) such that X is a method of Model that can BUILD the cache -- it stores something other than
    None into self._cache, or mentions (transitively) a method that does -- and is not itself one of the modelled
    mutators (nested public mutator calls are steps of the state machine with their own decorator); plus "_cache"
    when the body READS self._cache.  The decorator runs before the body, so whatever the body builds survives the
    call.  Shipped code: scale_parameter -> ["_cache", "_create_cache"], every other mutator -> []."""
    cls = next(n for n in tree.body if isinstance(n, ast.ClassDef) and n.name == "Model")
    methods = {f.name: f for f in cls.body if isinstance(f, (ast.FunctionDef, ast.AsyncFunctionDef))}

    def self_attrs(f, ctx) -> set[str]:
        return {n.attr for n in ast.walk(f) if isinstance(n, ast.Attribute) and isinstance(n.value, ast.Name)
                and n.value.id == "self" and isinstance(n.ctx, ctx)}

    def stores_cache(f) -> bool:
        for n in ast.walk(f):
            targets, value = [], None
            if isinstance(n, ast.Assign):
                targets, value = n.targets, n.value
            elif isinstance(n, (ast.AnnAssign, ast.AugAssign)):
                targets, value = [n.target], n.value
            for t in targets:
                for u in ast.walk(t):
                    if isinstance(u, ast.Attribute) and isinstance(u.value, ast.Name) and u.value.id == "self" and u.attr == "_cache":
                        if not (isinstance(value, ast.Constant) and value.value is None):
                            return True
        # anything that could hand the attribute to foreign code (setattr / __dict__ tricks) is refused as a builder too
        return any(isinstance(n, ast.Call) and isinstance(n.func, ast.Name) and n.func.id in ("setattr", "vars") for n in ast.walk(f))

    builders = {name for name, f in methods.items() if stores_cache(f)}
    changed = True
    while changed:
        changed = False
        for name, f in methods.items():
            if name not in builders and self_attrs(f, ast.Load) & builders:
                builders.add(name)
                changed = True
    modelled = set(singles) | set(BATCH)
    uses: dict[str, list[str]] = {}
    for name in list(singles) + BATCH:
        f = methods.get(name)
        if f is None:
            uses[name] = ["<missing>"]
            continue
        loads = self_attrs(f, ast.Load)
        u = sorted(x for x in loads if x in builders and x not in modelled)
        if "_cache" in loads:
            u = ["_cache", *u]
        uses[name] = u
    return {"cache_uses": uses, "cache_builders": sorted(builders)}


def coq_cache_uses(f: dict, singles: list[str]) -> str:
    def lst(xs):
        return "[" + "; ".join('"' + x + '"%string' for x in xs) + "]"

    return (
        "(* what a mutator body does with the memoised cache: the cache-building methods of Model it mentions (nested modelled\n"
        "   mutators excluded) and \"_cache\" when it reads self._cache; the decorator clears BEFORE the body runs *)\n"
        "Definition mutator_cache_uses (m : method) : list string :=\n  match m with\n"
        + "\n".join(f"  | M_{m} => {lst(f['cache_uses'][m])}" for m in singles) + "\n  end.\n"
        "Definition batch_cache_uses (b : batch) : list string :=\n  match b with\n"
        + "\n".join(f"  | B_{b} => {lst(f['cache_uses'][b])}" for b in BATCH) + "\n  end.\n"
    )


def coq_alias(f: dict) -> str:
    return (
        "(* do containers cross the API as values?  Aliased = the model / the caller keeps working on the SAME object *)\n"
        "Inductive alias_mode := Aliased | Copied | AliasUnknown.\n"
        "Inductive getter :=\n" + "\n".join(f"| G_{g}" for g in GETTERS) + ".\n"
        "Definition getter_form (g : getter) : alias_mode :=\n  match g with\n"
        + "\n".join(f"  | G_{g} => {f['getter_form'][g]}" for g in GETTERS) + "\n  end.\n"
        "(* the mutators that are given args= / outputs= / stoichiometries= containers (for add_/update_reaction the recognised\n"
        "   texts include the construction of an own stoichiometry dict) *)\n"
        "Inductive argsite :=\n" + "\n".join(f"| A_{m}" for m in SITES) + ".\n"
        "Definition input_form (a : argsite) : alias_mode :=\n  match a with\n"
        + "\n".join(f"  | A_{m} => {f['input_form'][m]}" for m in SITES) + "\n  end.\n"
        "(* get_stoichiometries / get_stoichiometries_of_variable fill in the computed coefficients on a deep copy of the cached table *)\n"
        f"Definition stoich_queries_copy : bool := {'true' if f['stoich_queries_copy'] else 'false'}.\n"
    )
