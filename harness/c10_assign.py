"""C10 -- assignment-defined parameters (InitialAssignment) in result views.

Not part of the Coq model (ResModel.v has plain parameters only): this module is VALIDATION by the
independent oracle of harness/c10.py.  A parameter may be given by a number or by an initial assignment
fn(other parameters); its definition may change between segments (Simulator.update_parameter accepts an
InitialAssignment) and the user may change it after the run.  Property C10: every view reports, for each
point, the model's values under the parameter values IN FORCE DURING THAT POINT'S SEGMENT -- for an
assignment-defined parameter that is the assignment evaluated under the segment's plain parameters.

case = {"kind": "assign", "spec": <c10 spec>, "defs": {par: ["a", fid, [plain pars]]}  (initial definitions
        that are assignments; every other parameter starts with the number in spec["pars"]),
        "script": [[{par: int | ["a", fid, [args]]}, n_steps], ...],
        "ops": [<c10 read ops without producers/consumers> | ["upd", par, int | ["a", fid, [args]]]]}

Recorded finding C10-assigned-parameter-snapshot: the per-segment snapshot (Simulator: get_parameter_values())
lists plain values only, so the definition of an assignment-defined parameter is not re-applied.  While the
finding is recorded, cases INSIDE its guard (the definition kind of some parameter is not the same in every
segment and at read time) are excused; every case outside the guard is judged.  Once the finding is gone
(fixes/C10-segment-parameters-keep-assignments.diff applied) every case is judged.
"""

from __future__ import annotations

import signal
from typing import Any

from harness import common

FINDING = "C10-assigned-parameter-snapshot"


def gen_case(rng) -> dict:
    from harness import c10

    spec = c10.gen_spec(rng)
    while len(spec["pars"]) < 2:
        spec = c10.gen_spec(rng)
    pars = list(spec["pars"])
    n_q = rng.randint(1, len(pars) - 1)
    qs = rng.sample(pars, n_q)          # parameters that may be assignment-defined
    plain = [p for p in pars if p not in qs]

    def assignment():
        ar = rng.choice([1, 1, 2])
        return ["a", c10._fn_of_arity(rng, ar), [rng.choice(plain) for _ in range(ar)]]  # noqa: SLF001

    stable = rng.random() < 0.4         # 40 %: definitions never change (outside the finding's guard)
    defs = {q: assignment() for q in qs if stable or rng.random() < 0.6}
    script = []
    for i in range(rng.choice([1, 2, 2, 3])):
        upd: dict[str, Any] = {}
        if i > 0 or rng.random() < 0.3:
            for k in rng.sample(plain, rng.randint(1, len(plain))):
                upd[k] = rng.randint(-3, 3)
            if not stable:
                for q in qs:
                    u = rng.random()
                    if u < 0.3:
                        upd[q] = assignment()
                    elif u < 0.5:
                        upd[q] = rng.randint(-3, 3)
        script.append([upd, rng.randint(1, 3)])
    ops: list = []
    b = lambda p=0.5: rng.random() < p  # noqa: E731
    for _ in range(rng.randint(3, 6)):
        k = rng.choice(["args", "args", "fluxes", "rhs", "pvars", "combined", "upd", "upd"])
        if k == "args":
            ops.append(["args", [b(0.7), True, b(), b(0.7), b(0.7), False, False, b()], b(), None])
        elif k == "fluxes":
            ops.append(["fluxes", True, None, b()])
        elif k == "rhs":
            ops.append(["rhs", None, b()])
        elif k == "upd":
            if stable or b(0.6):
                ops.append(["upd", rng.choice(plain), rng.randint(-3, 3)])
            else:
                ops.append(["upd", rng.choice(qs), assignment() if b() else rng.randint(-3, 3)])
        else:
            ops.append([k])
    return {"kind": "assign", "spec": spec, "defs": defs, "script": script, "ops": ops}


def _value(v):
    from mxlpy import InitialAssignment

    from harness import fnlib

    if isinstance(v, list):
        return InitialAssignment(fn=fnlib.FNS[v[1]], args=list(v[2]))
    return v


def run_case(case) -> dict:
    """-> {"segs": ..., "outs": [...]} or {"error": ...}; the implementation through the real Simulator"""
    from mxlpy import Simulator

    from harness import c10

    signal.signal(signal.SIGALRM, c10._alarm)  # noqa: SLF001
    signal.setitimer(signal.ITIMER_REAL, 20.0)
    try:
        try:
            m = c10.build_model(case["spec"])
            for q, d in case["defs"].items():
                m.update_parameter(q, _value(d))
            s = Simulator(m, integrator=c10._exact_integrator())  # noqa: SLF001
            t = 0
            for upd, n in case["script"]:
                for k, v in upd.items():
                    s.update_parameter(k, _value(v))
                t += n
                s.simulate(t)
            res = s.get_result().unwrap_or_err()
            segs = [
                [[common.exact_int(tt), [common.exact_int(v) for v in row]] for tt, row in zip(df.index.tolist(), df.to_numpy().tolist())]
                for df in res.raw_variables
            ]
        except c10._Timeout:  # noqa: SLF001
            return {"error": "timeout while building"}
        except Exception as e:  # noqa: BLE001
            return {"error": f"build: {type(e).__name__}: {e}"[:300]}
        outs = []
        try:
            for op in case["ops"]:
                try:
                    if op[0] == "upd":
                        m.update_parameter(op[1], _value(op[2]))
                        outs.append(["unit"])
                    else:
                        outs.append(c10.run_op_impl(m, res, op))
                except ValueError as e:
                    outs.append(["other", f"canon: {e}"[:100]])
        except c10._Timeout:  # noqa: SLF001
            return {"error": "timeout while reading views"}
        return {"segs": segs, "outs": outs}
    finally:
        signal.setitimer(signal.ITIMER_REAL, 0)


def segment_valuations(case) -> list[dict]:
    """the parameter values in force during each segment, from the INPUT alone: numbers as set, an
    assignment-defined parameter = its function of the plain parameters of that segment"""
    from harness import fnlib

    cur: dict[str, Any] = dict(case["spec"]["pars"])
    cur.update(case["defs"])
    out = []
    for upd, _n in case["script"]:
        cur.update(upd)
        if any(isinstance(v, list) and any(isinstance(cur[a], list) for a in v[2]) for v in cur.values()):
            raise common_discard("assignment over an assignment-defined parameter")
        out.append({k: (fnlib.fsem(v[1], [cur[a] for a in v[2]]) if isinstance(v, list) else v) for k, v in cur.items()})
    return out


def common_discard(msg):
    from harness import c10

    return c10.Discard(msg)


def inside_guard(case) -> bool:
    """the definition kind (number / which assignment) of some parameter differs between segments or is
    changed by a user edit among the reads"""
    cur: dict[str, Any] = dict(case["spec"]["pars"])
    cur.update(case["defs"])
    kinds = []
    for upd, _n in case["script"]:
        cur.update(upd)
        kinds.append({k: (tuple([v[1], *v[2]]) if isinstance(v, list) else "number") for k, v in cur.items()})
    if any(k != kinds[0] for k in kinds):
        return True
    for op in case["ops"]:
        if op[0] == "upd" and op[1] in kinds[0] and (isinstance(op[2], list) or kinds[0][op[1]] != "number"):
            return True
    return False


def oracle(case, obs) -> list[tuple[int, str]]:
    from harness import c10

    vals = segment_valuations(case)
    plain_ops = [(["upd", op[1], 0] if op[0] == "upd" else op) for op in case["ops"]]
    bad, _stats = c10.oracle_case({"spec": case["spec"], "ops": plain_ops}, {"segs": obs["segs"], "pars": vals, "outs": obs["outs"]}, True)
    return bad


# plain number in segment 0, the assignment 2*p0 in segment 1 (p0 = 1): the flux of segment 1 ran with q = 2
WITNESS = {
    "kind": "assign",
    "spec": {"vars": {"x0": 1}, "pars": {"p0": 1, "p1": 3}, "comps": [["r", "r0", 4, ["x0", "p1"], [["x0", 1]]]], "ros": []},
    "defs": {},
    "script": [[{}, 1], [{"p1": ["a", 2, ["p0", "p0"]]}, 1]],
    "ops": [["args", [True, True, False, False, True, False, False, False], True, None]],
}


def witness_still_fails(case=WITNESS) -> tuple[bool, str]:
    from harness import c10

    obs = run_case(case)
    if "error" in obs:
        return False, obs["error"]
    try:
        bad = oracle(case, obs)
    except c10.Discard as d:
        return False, f"discarded: {d}"
    return bool(bad), (bad[0][1] if bad else "views follow the definitions in force")
